"""F-C11 (fixed in /repo): reversing a whole scaffold whose junction is tail-to-tail
(+,-) or head-to-head (-,+) is counted as one break and one join.
Run: cd /repo && /venv/bin/python /verif/repro/c11_reversal_counts.py"""
from tola.assembly.fragment import Fragment
from tola.assembly.gap import Gap
from tola.assembly.scaffold import Scaffold

a, b = Fragment("ctgA", 1, 1000, 1), Fragment("ctgB", 1, 500, -1)
s = Scaffold("S", [a, Gap(200, "scaffold"), b])
fwd, rev = s.fragment_junction_set(), s.reverse().fragment_junction_set()
print("forward :", fwd)
print("reversed:", rev)
print("breaks", len(fwd - rev), "joins", len(rev - fwd), "(expected 0 and 0: nothing changed)")
assert fwd == rev, "whole-scaffold reversal changes the junction set"
