"""F-C02: a reverse-strand input contig that has to be cut (a Pretext break falls inside it)
always ends in the cut QC's ValueError, although the map is one PretextView can produce.
Run: cd /repo && /venv/bin/python /verif/repro/c02_reverse_strand_cut.py"""
import io
from tola.assembly.parser import parse_agp, parse_tpf
from tola.assembly.indexed_assembly import IndexedAssembly
from tola.assembly.build_assembly import BuildAssembly
from tola.assembly.gap import Gap


def run(strand):
    tpf = f"?\tctgA:1-100000\tS1\t{strand}\n"
    inp = IndexedAssembly.new_from_assembly(parse_tpf(io.StringIO(tpf), "in"))
    # PretextView cut of S1 at texel boundary 40000 into two painted scaffolds
    agp = ("# HiC MAP RESOLUTION: 1000.0 bp/texel\n"
           "Scaffold_1\t1\t40000\t1\tW\tS1\t1\t40000\t+\tPainted\n"
           "Scaffold_2\t1\t60000\t1\tW\tS1\t40001\t100000\t+\tPainted\n")
    b = BuildAssembly("out", default_gap=Gap(200, "scaffold"))
    b.remap_to_input_assembly(parse_agp(io.StringIO(agp), "p"), inp)
    out = b.assemblies_with_scaffolds_fused()
    return sorted((s.name, [str(r) for r in s.rows]) for a in out.values() for s in a.scaffolds)


print("PLUS :", run("PLUS"))
try:
    res = run("MINUS")
    print("MINUS:", res)
    pieces = sorted(r for _, rows in res for r in rows)
    assert pieces == ["ctgA:1-60000(-) Cut", "ctgA:60001-100000(-) Cut"], pieces
    print("PASS")
except ValueError as e:
    print("MINUS: ValueError:", str(e).splitlines()[0])
    print("FAIL: a reverse-strand contig cannot be cut")
    raise SystemExit(1)
