"""F-C07: a trailing contig inside the final partial texel is re-attached to its own scaffold
without a gap.  Run: cd /repo && /venv/bin/python /verif/repro/c07_gapless_leftover.py"""
import io
from tola.assembly.parser import parse_agp, parse_tpf
from tola.assembly.indexed_assembly import IndexedAssembly
from tola.assembly.build_assembly import BuildAssembly
from tola.assembly.fragment import Fragment
from tola.assembly.gap import Gap

tpf = "?\tctgA:1-1000\tS\tPLUS\nGAP\tTYPE-2\t200\n?\tctgB:1-50\tS\tPLUS\n"
inp = IndexedAssembly.new_from_assembly(parse_tpf(io.StringIO(tpf), "in"))
agp = ("# HiC MAP RESOLUTION: 100.0 bp/texel\n"
       "Scaffold_1\t1\t1000\t1\tW\tS\t1\t1000\t+\n")
prtxt = parse_agp(io.StringIO(agp), "p")
b = BuildAssembly("out", default_gap=Gap(200, "scaffold"))
b.remap_to_input_assembly(prtxt, inp)
out = b.assemblies_with_scaffolds_fused()
for k, a in out.items():
    for s in a.scaffolds:
        rows = [str(r) for r in s.rows]
        print(k, s.name, rows)
        for r1, r2 in zip(s.rows, s.rows[1:]):
            assert not (isinstance(r1, Fragment) and isinstance(r2, Fragment)), f"gapless junction {r1} | {r2}"
