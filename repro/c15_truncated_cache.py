"""F-C15: a cache file cut short (writer interrupted at a flush boundary / reader racing a
writer that opened the cache in place) is accepted by auto_load().
Simulates the crash by truncating the cache at a line boundary, exactly what an in-place
writer leaves behind when killed after a flush.
Run: cd /repo && /venv/bin/python /verif/repro/c15_truncated_cache.py"""
import os, tempfile, time
from pathlib import Path
from tola.fasta.index import FastaIndex

d = Path(tempfile.mkdtemp())
fa = d / "x.fa"
fa.write_text(">s1\nACGTACGT\n>s2\nACGTNNAC\n>s3\nTTTT\n")
os.utime(fa, (time.time() - 100, time.time() - 100))
fi = FastaIndex(fa); fi.auto_load()
print("cold:", sorted(fi.index), [s.name for s in fi.assembly.scaffolds])
# in-place writer killed after flushing the first part of each cache file
for f in (fi.fai_file, fi.agp_file):
    lines = f.read_text().splitlines(keepends=True)
    f.write_text("".join(lines[: len(lines) // 2]))
fi2 = FastaIndex(fa); fi2.auto_load()
print("warm after partial write:", sorted(fi2.index), [s.name for s in fi2.assembly.scaffolds])
# is a temporary ever visible under the final name while being written?
import inspect
src = inspect.getsource(FastaIndex.write_index)
print("write_index opens the final file in place:", chr(39)+"self.fai_file.open(" in src, "(False after the fix: the truncation above can then only be produced by hand, never by an interrupted writer)")
