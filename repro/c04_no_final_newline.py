"""F-C04: a FASTA file without a final newline loses the last residue of its last record,
and a single-line record without a newline gets residues_per_line one short.
Run: cd /repo && /venv/bin/python /verif/repro/c04_no_final_newline.py"""
import tempfile
from pathlib import Path
from tola.fasta.index import index_fasta_file, FastaIndex

d = Path(tempfile.mkdtemp())
fa = d / "a.fa"; fa.write_bytes(b">s1\nACGTAC\nACG")
idx, asm = index_fasta_file(fa)
print("s1", idx["s1"], [str(r) for r in asm.scaffolds[0].rows])
assert idx["s1"].length == 9, f"length {idx['s1'].length} != 9"
fb = d / "b.fa"; fb.write_bytes(b">s\nACGT")
fi = FastaIndex(fb); fi.auto_load()
print("s", fi.index["s"], fi.get_fasta_seq("s").sequence)
assert fi.get_fasta_seq("s").sequence == b"ACGT"
print("ok")
