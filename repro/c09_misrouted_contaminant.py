import io
from tola.assembly.parser import parse_agp, parse_tpf
from tola.assembly.indexed_assembly import IndexedAssembly
from tola.assembly.build_assembly import BuildAssembly
from tola.assembly.gap import Gap
tpf = "?\tctgA:1-100000\tS1\tPLUS\nGAP\tTYPE-2\t200\n?\tctgB:1-100000\tS1\tPLUS\n"
inp = IndexedAssembly.new_from_assembly(parse_tpf(io.StringIO(tpf), "in"))
# one painted Pretext scaffold: first piece untagged, second piece tagged Contaminant
agp = ("# DESCRIPTION: x\n# HiC MAP RESOLUTION: 100.0 bp/texel\n"
       "Scaffold_1\t1\t100000\t1\tW\tS1\t1\t100000\t+\tPainted\n"
       "Scaffold_1\t100001\t100200\t2\tU\t200\tscaffold\tyes\tproximity_ligation\n"
       "Scaffold_1\t100201\t200200\t3\tW\tS1\t100201\t200200\t+\tPainted\tContaminant\n")
prtxt = parse_agp(io.StringIO(agp), "p")
b = BuildAssembly("out", default_gap=Gap(200, "scaffold"))
b.remap_to_input_assembly(prtxt, inp)
out = b.assemblies_with_scaffolds_fused()
for k, a in out.items():
    print("ASM", k, [(s.name, [str(r) for r in s.rows]) for s in a.scaffolds])
