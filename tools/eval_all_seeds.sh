#!/bin/sh
# usage: eval_all_seeds.sh C04 C13 ...   (evaluates /tmp/wt/<ID>/seed_A and seed_B, saves to /verif/seeded/<ID>-A|B)
for p in "$@"; do
  for x in A B; do
    d=/tmp/wt/$p/seed_$x
    [ -d "$d" ] || { echo "$p-$x: missing"; continue; }
    /venv/bin/python /verif/tools/seed_eval.py $d --target $p --save /verif/seeded/$p-$x | python3 -c "
import json,sys; d=json.load(sys.stdin); print('$p-$x', 'valid' if d.get('valid_seed') else 'INVALID', '| tests:',d.get('tests_tail','')[:12], '| demo clean',d.get('demo_clean_rc'),'patched',d.get('demo_patched_rc'),'| fired:',{k:len(v) for k,v in d.get('violations',{}).items()}, 'errors:',list(d.get('analysis_errors',{})), 'TARGET-HIT' if d.get('detected_by_target') else ('other-hit' if d.get('detected') else 'MISSED'))"
  done
done
