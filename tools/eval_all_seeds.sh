#!/bin/sh
# usage: eval_all_seeds.sh <worktree-base> <suffixA> <suffixB> C04 C13 ...
#   evaluates <base>/<ID>/seed_A and seed_B and saves them as /verif/seeded/<ID>-<suffixA|suffixB>
base=$1; sa=$2; sb=$3; shift 3
for p in "$@"; do
  for x in A B; do
    d=$base/$p/seed_$x
    [ "$x" = A ] && sfx=$sa || sfx=$sb
    [ -d "$d" ] || { echo "$p-$sfx: missing"; continue; }
    /venv/bin/python /verif/tools/seed_eval.py $d --target $p --save /verif/seeded/$p-$sfx | python3 -c "
import json,sys; d=json.load(sys.stdin); print('$p-$sfx', 'valid' if d.get('valid_seed') else 'INVALID', '| tests:',d.get('tests_tail','')[:12], '| demo clean',d.get('demo_clean_rc'),'patched',d.get('demo_patched_rc'),'| fired:',{k:len(v) for k,v in d.get('violations',{}).items()}, 'errors:',list(d.get('analysis_errors',{})), 'TARGET-HIT' if d.get('detected_by_target') else ('other-hit' if d.get('detected') else 'MISSED'))"
  done
done
