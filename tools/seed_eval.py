#!/usr/bin/env python3
"""Evaluate one seeded change against the real code and against the checks.

  seed_eval.py <seed_dir> [--target CNN] [--save /verif/seeded/<name>]

<seed_dir> holds patch.diff, demo.py, notes.md (written by an independent sub-agent).
Steps (all in a scratch git worktree of /repo outside /repo and /verif, removed afterwards):
  1. demo.py on the clean tree must exit 0
  2. `git apply patch.diff`; the pinned test-suite must still pass (64 tests)
  3. demo.py must now exit non-zero
  4. every claimed check is run with --root <scratch> (equivalent to applying the patch to /repo and
     undoing it, without touching /repo); which properties report a VIOLATION is recorded
Prints a JSON summary; with --save copies patch/demo/notes and writes meta.json.
"""

from __future__ import annotations

import argparse
import json
import os
import shutil
import subprocess
import sys
import tempfile
from pathlib import Path

VERIF = Path(__file__).resolve().parent.parent
PY = "/venv/bin/python"


def sh(cmd, cwd=None, env=None, timeout=900):
    e = dict(os.environ)
    if env:
        e.update(env)
    r = subprocess.run(cmd, cwd=cwd, env=e, capture_output=True, text=True, timeout=timeout, shell=isinstance(cmd, str))
    return r.returncode, r.stdout + r.stderr


def main():
    ap = argparse.ArgumentParser()
    ap.add_argument("seed_dir")
    ap.add_argument("--target", default=None)
    ap.add_argument("--save", default=None)
    ap.add_argument("--skip-tests", action="store_true")
    a = ap.parse_args()
    seed = Path(a.seed_dir)
    patch = seed / "patch.diff"
    demo = seed / "demo.py"
    out = {"seed": str(seed), "target": a.target}
    if not patch.exists() or not demo.exists():
        out["error"] = "patch.diff or demo.py missing"
        print(json.dumps(out, indent=1))
        return 2
    scratch = Path(tempfile.mkdtemp(prefix="seedeval-", dir="/tmp"))
    shutil.rmtree(scratch)
    rc, o = sh(["git", "-C", "/repo", "worktree", "add", "--detach", "-q", str(scratch), "HEAD"])
    if rc != 0:
        out["error"] = "worktree: " + o
        print(json.dumps(out, indent=1))
        return 2
    try:
        env = {"PYTHONPATH": str(scratch / "src"), "PYTHONDONTWRITEBYTECODE": "1"}
        rc, o = sh([PY, str(demo)], cwd=scratch, env=env, timeout=600)
        out["demo_clean_rc"] = rc
        if rc != 0:
            out["demo_clean_out"] = o[-800:]
        rc, o = sh(["git", "apply", "--whitespace=nowarn", str(patch)], cwd=scratch)
        out["apply_rc"] = rc
        if rc != 0:
            out["apply_out"] = o[-800:]
            print(json.dumps(out, indent=1))
            return 1
        if not a.skip_tests:
            rc, o = sh([PY, "-m", "pytest", "-q", "-p", "no:cacheprovider", "-x"], cwd=scratch, env=env, timeout=900)
            out["tests_rc"] = rc
            out["tests_tail"] = o.strip().splitlines()[-1] if o.strip() else ""
        rc, o = sh([PY, str(demo)], cwd=scratch, env=env, timeout=600)
        out["demo_patched_rc"] = rc
        out["demo_patched_tail"] = "\n".join(o.strip().splitlines()[-4:])
        rc, o = sh([str(VERIF / "check"), "all", "--root", str(scratch), "--no-evidence", "--tier", "quick"], cwd=VERIF, timeout=1200)
        fired = {}
        errors = {}
        cur = None
        lines = o.splitlines()
        for i, ln in enumerate(lines):
            if ln.startswith("--- C"):
                pid = ln[4:7]
                fired.setdefault(pid, []).append(ln[4:].strip() + " :: " + (lines[i + 1].strip()[:200] if i + 1 < len(lines) else ""))
            if ln.startswith("ANALYSIS-ERROR"):
                pid = ln.split("property=")[1].split()[0] if "property=" in ln else "?"
                errors[pid] = ln[:300]
        out["checks_rc"] = rc
        out["violations"] = fired
        out["analysis_errors"] = errors
        out["detected"] = bool(fired)
        out["detected_by_target"] = bool(a.target and a.target in fired)
        out["valid_seed"] = out.get("demo_clean_rc") == 0 and out.get("tests_rc", 0) == 0 and out.get("demo_patched_rc") != 0
    finally:
        sh(["git", "-C", "/repo", "worktree", "remove", "--force", str(scratch)])
        shutil.rmtree(scratch, ignore_errors=True)
    if a.save:
        dst = Path(a.save)
        dst.mkdir(parents=True, exist_ok=True)
        for f in ("patch.diff", "demo.py", "notes.md"):
            if (seed / f).exists() and (seed / f).resolve() != (dst / f).resolve():
                shutil.copy(seed / f, dst / f)
        meta = {
            "property": a.target,
            "needs_to_manifest": "see notes.md",
            "ran": [
                "demo.py on a clean worktree of /repo (exit %s)" % out.get("demo_clean_rc"),
                "git apply patch.diff; pytest -q (%s)" % out.get("tests_tail"),
                "demo.py with the change (exit %s)" % out.get("demo_patched_rc"),
                "./check all --root <worktree> --no-evidence",
            ],
            "valid_seed": out.get("valid_seed"),
            "violations_reported": out.get("violations"),
            "analysis_errors": out.get("analysis_errors"),
            "detected": out.get("detected"),
            "detected_by_target_property": out.get("detected_by_target"),
        }
        old = {}
        if (dst / "meta.json").exists():
            try:
                old = json.loads((dst / "meta.json").read_text())
            except Exception:
                old = {}
        for k in ("note", "round"):
            if k in old:
                meta[k] = old[k]
        (dst / "meta.json").write_text(json.dumps(meta, indent=1) + "\n")
    print(json.dumps(out, indent=1))
    return 0


if __name__ == "__main__":
    sys.exit(main())
