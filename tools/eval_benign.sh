#!/bin/sh
# usage: eval_benign.sh <base> g1 g2 ...  -> evaluates <base>/<g>/benign_R{1..4}, saves to /verif/benign/<g>-R<k>
base=$1; shift
for g in "$@"; do
  for k in 1 2 3 4; do
    d=$base/$g/benign_R$k
    [ -f "$d/patch.diff" ] || { echo "$g-R$k: missing"; continue; }
    /venv/bin/python /verif/tools/benign_eval.py $d --save /verif/benign/$g-R$k | python3 -c "
import json,sys; d=json.load(sys.stdin); print('$g-R$k', 'valid' if d.get('valid_refactoring') else 'INVALID', '| tests:',d.get('tests_tail','')[:12],'| equiv clean/patched',d.get('equiv_clean_rc'),d.get('equiv_patched_rc'),'| FALSE-ALARMS:',{k:len(v) for k,v in d.get('false_alarms',{}).items()} or 'none','| no-verdict:',list(d.get('no_verdict',{})) or 'none')"
  done
done
