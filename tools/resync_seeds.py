#!/usr/bin/env python3
"""Re-evaluate every seeded change against the current checks and bring the bookkeeping in line with what is observed:

  * /verif/seeded/<id>/meta.json        : violations_reported / analysis_errors / detected / detected_by_target_property
  * /verif/selftest/variants/<P>.json   : the `seeded-<id>` break variants of P are exactly the seeds P reports a
                                          VIOLATION for (rule = rule id of the first finding); hand-written `why` texts
                                          of entries that stay are kept

Never touches anything but those two kinds of file.  Usage: resync_seeds.py [-j N] [--dry-run]
"""
from __future__ import annotations

import argparse
import json
import re
import subprocess
import sys
from concurrent.futures import ThreadPoolExecutor
from pathlib import Path

VERIF = Path(__file__).resolve().parent.parent
PY = "/venv/bin/python"


def evaluate(seed: Path):
    for attempt in range(3):
        r = subprocess.run([PY, str(VERIF / "tools" / "seed_eval.py"), str(seed), "--skip-tests"], capture_output=True, text=True, timeout=3600)
        try:
            d = json.loads(r.stdout)
        except Exception:
            continue
        if "error" in d:
            continue
        return seed.name, d
    return seed.name, {"error": (r.stdout + r.stderr)[-300:]}


def main():
    ap = argparse.ArgumentParser()
    ap.add_argument("-j", type=int, default=6)
    ap.add_argument("--dry-run", action="store_true")
    ap.add_argument("--only", default="", help="comma-separated seed names to re-evaluate; the others are taken from their meta.json")
    a = ap.parse_args()
    seeds = sorted(p for p in (VERIF / "seeded").iterdir() if (p / "patch.diff").exists())
    only = {x for x in a.only.split(",") if x}
    todo = [p for p in seeds if not only or p.name in only]
    with ThreadPoolExecutor(a.j) as ex:
        results = dict(ex.map(evaluate, todo))
    for p in seeds:
        if p.name not in results:
            try:
                m_ = json.loads((p / "meta.json").read_text())
                results[p.name] = {"violations": m_.get("violations_reported") or {}, "analysis_errors": m_.get("analysis_errors") or {}}
            except Exception as e:
                results[p.name] = {"error": str(e)}
    by_prop: dict[str, dict[str, str]] = {}
    changed = []
    for name, d in sorted(results.items()):
        if "error" in d:
            print(f"{name}: evaluation failed: {d['error']}", file=sys.stderr)
            continue
        viol = d.get("violations", {})
        errs = d.get("analysis_errors", {})
        meta_p = VERIF / "seeded" / name / "meta.json"
        meta = json.loads(meta_p.read_text()) if meta_p.exists() else {}
        target = meta.get("property") or name.split("-")[0]
        before = (sorted(meta.get("violations_reported", {})), bool(meta.get("detected")))
        meta["violations_reported"] = viol
        meta["analysis_errors"] = errs
        meta["detected"] = bool(viol)
        meta["detected_by_target_property"] = target in viol
        after = (sorted(viol), bool(viol))
        if before != after:
            changed.append(f"{name}: {before} -> {after}")
        if not a.dry_run:
            meta_p.write_text(json.dumps(meta, indent=1) + "\n")
        for prop, msgs in viol.items():
            m = re.match(rf"{prop}\.(\w+) ", msgs[0])
            by_prop.setdefault(prop, {})[name] = m.group(1) if m else "?"
    for vf in sorted((VERIF / "selftest" / "variants").glob("C*.json")):
        prop = vf.stem
        vs = json.loads(vf.read_text())
        keep = [v for v in vs if not v.get("id", "").startswith("seeded-")]
        old = {v["id"][len("seeded-"):]: v for v in vs if v.get("id", "").startswith("seeded-")}
        new = []
        for name, rule in sorted(by_prop.get(prop, {}).items()):
            if name in old:
                e = dict(old[name])
                e["rule"] = rule
            else:
                e = {"id": f"seeded-{name}", "kind": "break", "rule": rule, "patch": f"seeded/{name}/patch.diff", "why": f"independently seeded change for {name.split('-')[0]} (see seeded/{name}/notes.md)"}
            new.append(e)
        gone = sorted(set(old) - set(by_prop.get(prop, {})))
        added = sorted(set(by_prop.get(prop, {})) - set(old))
        if gone or added:
            print(f"{prop}: seeded variants removed {gone} added {added}")
        if not a.dry_run:
            vf.write_text(json.dumps(keep + new, indent=1) + "\n")
    print("\n".join(changed))
    undetected = sorted(n for n, d in results.items() if "error" not in d and not d.get("violations"))
    print(f"{len(results)} seeds; undetected: {undetected}")


if __name__ == "__main__":
    main()
