#!/usr/bin/env python3
"""Detection under refactoring: for every (independent benign refactoring, seeded break) pair whose patches both apply
to a scratch copy of /repo/src, the seeded break must still be reported (exit 1 by the seed's target property).

  cross_eval.py [-j N] [--only-seed ID] [--only-benign NAME]
Prints one line per combination that applies and is NOT detected (or ends without verdict)."""
import argparse
import json
import os
import shutil
import subprocess
import sys
import tempfile
from concurrent.futures import ThreadPoolExecutor
from pathlib import Path

VERIF = Path(__file__).resolve().parent.parent
PY = "/venv/bin/python"


def one(args):
    seed, ben, root = args
    prop = seed.name.split("-")[0]
    try:
        det = sorted((json.loads((seed / "meta.json").read_text()).get("violations_reported") or {}).keys())
    except Exception:
        det = []
    props = [prop] if prop in det or not det else det
    scratch = Path(tempfile.mkdtemp(prefix="cross-", dir="/tmp"))
    try:
        shutil.copytree(Path(root) / "src", scratch / "src", ignore=shutil.ignore_patterns("__pycache__", "*.pyc", "*.egg-info"))
        for f in ("pyproject.toml",):
            if (Path(root) / f).exists():
                shutil.copy(Path(root) / f, scratch / f)
        for pf in (ben / "patch.diff", seed / "patch.diff"):
            r = subprocess.run(["patch", "-p1", "-s", "-F0", "--no-backup-if-mismatch", "-i", str(pf)], cwd=scratch, capture_output=True, text=True)
            if r.returncode != 0:
                return seed.name, ben.name, "n/a", ""
        rcs, tails = [], []
        for pr in props:
            r = subprocess.run([PY, "-B", str(VERIF / "sa" / "cli.py"), pr, "--root", str(scratch), "--no-evidence", "--tier", "quick"], capture_output=True, text=True, timeout=600)
            out = r.stdout + r.stderr
            rcs.append(r.returncode)
            if r.returncode == 1:
                return seed.name, ben.name, "detected", ""
            tails += [l for l in out.splitlines() if l.startswith(("ANALYSIS-ERROR", "---"))][:2]
        return seed.name, ben.name, "no-verdict" if 2 in rcs else "MISSED", " | ".join(tails)[:300]
    finally:
        shutil.rmtree(scratch, ignore_errors=True)


def main():
    ap = argparse.ArgumentParser()
    ap.add_argument("-j", type=int, default=16)
    ap.add_argument("--only-seed")
    ap.add_argument("--only-benign")
    ap.add_argument("--root", default="/repo")
    a = ap.parse_args()
    seeds = sorted(p for p in (VERIF / "seeded").iterdir() if (p / "patch.diff").exists() and (not a.only_seed or p.name == a.only_seed))
    bens = sorted(p for p in (VERIF / "benign").iterdir() if (p / "patch.diff").exists() and (not a.only_benign or p.name == a.only_benign))
    jobs = [(s, b, a.root) for s in seeds for b in bens]
    with ThreadPoolExecutor(max_workers=a.j) as ex:
        res = list(ex.map(one, jobs))
    cnt = {}
    for s, b, st, tail in res:
        cnt[st] = cnt.get(st, 0) + 1
        if st in ("MISSED", "no-verdict"):
            print(f"{st}: seed {s} on refactoring {b}  {tail}")
    print(json.dumps(cnt))


if __name__ == "__main__":
    main()
