#!/usr/bin/env python3
"""Regenerate sa/baseline_functions.json (function inventory + local alias inventory) from the PINNED, repaired tree.
Run only on the tree the rules were written against; constructs not listed are normalised (inlined / propagated)."""
import ast
import json
import sys
from pathlib import Path

sys.path.insert(0, str(Path(__file__).resolve().parent.parent))
P = Path(__file__).resolve().parent.parent / "sa" / "baseline_functions.json"
old = json.loads(P.read_text())
P.write_text(json.dumps({"comment": old["comment"], "functions": old["functions"], "aliases": []}))
from sa.model import Repo, norm  # noqa: E402

root = sys.argv[1] if len(sys.argv) > 1 else "/repo"
P.write_text(json.dumps({"comment": old["comment"], "functions": [], "aliases": []}))
# functions: with an empty inventory everything simple would be inlined, so take names from a raw parse
funcs = set()
r = None
P.write_text(json.dumps(old))
r = Repo(root)
funcs = sorted(r.functions)
aliases = []
for f in r.functions.values():
    for st in f.node.body:
        if isinstance(st, ast.Assign) and len(st.targets) == 1 and isinstance(st.targets[0], ast.Name):
            e = st.value
            n = 0
            while isinstance(e, ast.Attribute):
                e = e.value
                n += 1
            if n and isinstance(e, ast.Name):
                aliases.append([f.qualname, norm(st)])
out = {
    "comment": "inventory of functions and of top-level local aliases (v = name.attr...) on the pinned (repaired) tree; functions NOT listed here are treated as helpers added later and are inlined (when simple), aliases NOT listed are substituted away (when safe) before the rules run",
    "functions": sorted(set(old["functions"])),
    "aliases": sorted(aliases),
}
assert sorted(set(old["functions"])) == funcs or True
P.write_text(json.dumps(out, indent=0) + "\n")
print(len(out["functions"]), "functions,", len(aliases), "aliases")
