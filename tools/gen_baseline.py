#!/usr/bin/env python3
"""Regenerate sa/baseline_functions.json from the PINNED, repaired tree: the inventory of functions, of top-level local
aliases (v = name.attr...) and of conditional-value statements.  Run only on the tree the rules were written against;
constructs not listed are normalised (helpers inlined, aliases propagated, conditional values split) before the rules run."""
import ast
import json
import sys
from pathlib import Path

sys.path.insert(0, str(Path(__file__).resolve().parent.parent))
P = Path(__file__).resolve().parent.parent / "sa" / "baseline_functions.json"
root = Path(sys.argv[1] if len(sys.argv) > 1 else "/repo")

from sa.inline import cond_value_candidates, guard_candidates  # noqa: E402
from sa.model import Canon  # noqa: E402

funcs, aliases, cvs, guards = [], [], [], []
stored_attrs = set()  # names of attributes assigned anywhere (obj.<a> = ..., class-level NAME = ...): the program's state
for path in sorted((root / "src").rglob("*.py")):
    rel = path.relative_to(root / "src")
    parts = list(rel.with_suffix("").parts)
    if parts[-1] == "__init__":
        parts.pop()
    mod = ".".join(parts)
    tree = ast.fix_missing_locations(Canon().visit(ast.parse(path.read_text())))
    for n_ in ast.walk(tree):
        if isinstance(n_, ast.Attribute) and isinstance(n_.ctx, ast.Store | ast.Del):
            stored_attrs.add(n_.attr)
        if isinstance(n_, ast.ClassDef):
            for st_ in n_.body:
                if isinstance(st_, ast.Assign):
                    stored_attrs.update(t_.id for t_ in st_.targets if isinstance(t_, ast.Name))
                elif isinstance(st_, ast.AnnAssign) and isinstance(st_.target, ast.Name):
                    stored_attrs.add(st_.target.id)
    cvs.extend(cond_value_candidates(tree))
    guards.extend(guard_candidates(tree))

    def walk(body, prefix):
        for n in body:
            if isinstance(n, ast.FunctionDef | ast.AsyncFunctionDef):
                q = f"{prefix}.{n.name}"
                if any(isinstance(d, ast.Attribute) and d.attr == "setter" for d in n.decorator_list):
                    q += ".setter"
                funcs.append(q)
                for st in n.body:
                    if isinstance(st, ast.Assign) and len(st.targets) == 1 and isinstance(st.targets[0], ast.Name):
                        e, k = st.value, 0
                        while isinstance(e, ast.Attribute):
                            e, k = e.value, k + 1
                        if k and isinstance(e, ast.Name):
                            aliases.append([q, ast.unparse(st)])
                stack = list(n.body)
                inner = []
                while stack:
                    x = stack.pop(0)
                    if isinstance(x, ast.FunctionDef | ast.AsyncFunctionDef | ast.ClassDef):
                        inner.append(x)
                        continue
                    stack.extend(c for c in ast.iter_child_nodes(x) if isinstance(c, ast.stmt | ast.ExceptHandler))
                walk(inner, q)
            elif isinstance(n, ast.ClassDef):
                walk(n.body, f"{prefix}.{n.name}")
            elif isinstance(n, ast.If | ast.Try | ast.With):
                walk([c for c in ast.iter_child_nodes(n) if isinstance(c, ast.stmt)], prefix)

    walk(tree.body, mod)
out = {
    "comment": "inventory, on the pinned (repaired) tree, of functions, of top-level local aliases (v = name.attr...) and of conditional-value statements; functions NOT listed are treated as helpers added later and inlined (when simple), aliases NOT listed are substituted away (when safe), conditional values NOT listed are split into if/else, before the rules run",
    "functions": sorted(set(funcs)),
    "aliases": sorted(aliases),
    "cond_values": sorted(set(cvs)),
    "guards": sorted(set(guards)),
    "stored_attrs": sorted(stored_attrs),
}
# statement skeletons of every function as the rules see it (after the normaliser, which is the identity on the pinned tree)
from sa.drift import skeleton  # noqa: E402
from sa.model import Repo  # noqa: E402

_repo = Repo(str(root))
out["skeletons"] = {q: skeleton(f.node) for q, f in sorted(_repo.functions.items())}
# arguments the pinned tree passes by keyword: (caller, callee name, keyword); keywords not listed are turned back into positional
# arguments where that keeps the evaluation order
from sa.model import walk_shallow  # noqa: E402

ck = set()
for q, f in _repo.functions.items():
    for c in walk_shallow(f.node):
        if isinstance(c, ast.Call) and c.keywords:
            cname = c.func.attr if isinstance(c.func, ast.Attribute) else c.func.id if isinstance(c.func, ast.Name) else None
            for k in c.keywords:
                if cname and k.arg:
                    ck.add((q, cname, k.arg))
out["call_keywords"] = sorted(ck)
old = json.loads(P.read_text())
if set(old.get("functions", [])) != set(out["functions"]):
    print("NOTE: function inventory differs from the previous one:", sorted(set(old.get("functions", [])) ^ set(out["functions"]))[:10])
P.write_text(json.dumps(out, indent=0) + "\n")
print(len(out["functions"]), "functions,", len(aliases), "aliases,", len(out["cond_values"]), "conditional values,", len(out["guards"]), "guard clauses")
