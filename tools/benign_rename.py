#!/usr/bin/env python3
"""Behaviour-preserving global refactoring used to test the checks for false alarms:
every local variable (not parameters, not globals/imports/builtins) of every top-level
function / method is renamed to <name>_rn, consistently through nested functions.

  benign_rename.py <src_root>      rewrites the .py files below <src_root> in place
"""

import ast
import builtins
import sys
from pathlib import Path


def local_names(fn, module_names):
    assigned = set()
    params = set()
    for n in ast.walk(fn):
        if isinstance(n, ast.FunctionDef | ast.AsyncFunctionDef | ast.Lambda):
            a = n.args
            for p in (*a.posonlyargs, *a.args, *a.kwonlyargs):
                params.add(p.arg)
            if a.vararg:
                params.add(a.vararg.arg)
            if a.kwarg:
                params.add(a.kwarg.arg)
            if not isinstance(n, ast.Lambda) and n is not fn:
                params.add(n.name)  # nested function names stay
        elif isinstance(n, ast.Name) and isinstance(n.ctx, ast.Store | ast.Del):
            assigned.add(n.id)
        elif isinstance(n, ast.ExceptHandler) and n.name:
            params.add(n.name)
        elif isinstance(n, ast.Global):
            params.update(n.names)
    return {x for x in assigned if x not in params and x not in module_names and not hasattr(builtins, x) and not x.startswith("__")}


class Renamer(ast.NodeTransformer):
    def __init__(self, names):
        self.names = names

    def visit_Name(self, n):
        if n.id in self.names:
            n.id = n.id + "_rn"
        return n

    def visit_Nonlocal(self, n):
        n.names = [x + "_rn" if x in self.names else x for x in n.names]
        return n


def process(path: Path):
    src = path.read_text()
    if not src.strip():
        return 0
    tree = ast.parse(src)
    module_names = set()
    for n in tree.body:
        if isinstance(n, ast.Import | ast.ImportFrom):
            for a in n.names:
                module_names.add((a.asname or a.name).split(".")[0])
        elif isinstance(n, ast.FunctionDef | ast.ClassDef):
            module_names.add(n.name)
        elif isinstance(n, ast.Assign):
            for t in n.targets:
                if isinstance(t, ast.Name):
                    module_names.add(t.id)
    count = 0

    def handle(fn):
        nonlocal count
        names = local_names(fn, module_names)
        count += len(names)
        Renamer(names).visit(fn)

    for n in tree.body:
        if isinstance(n, ast.FunctionDef):
            handle(n)
        elif isinstance(n, ast.ClassDef):
            for m in n.body:
                if isinstance(m, ast.FunctionDef):
                    handle(m)
    path.write_text(ast.unparse(tree) + "\n")
    return count


def unparse_only(path: Path):
    src = path.read_text()
    if src.strip():
        path.write_text(ast.unparse(ast.parse(src)) + "\n")


def instrument(path: Path):
    """Insert a harmless `logging.debug(...)` as first statement of every function (after the docstring)
    and a type-annotated no-op local; adds `import logging` when missing."""
    src = path.read_text()
    if not src.strip():
        return
    tree = ast.parse(src)
    has_logging = any(isinstance(n, ast.Import) and any(a.name == "logging" for a in n.names) for n in tree.body)
    n_ins = 0
    for fn in ast.walk(tree):
        if isinstance(fn, ast.FunctionDef):
            if any(isinstance(x, ast.Yield | ast.YieldFrom) for x in ast.walk(fn)) and fn.name == "__new__":
                continue
            stmt = ast.parse(f"logging.debug('enter {fn.name}')").body[0]
            pos = 1 if (fn.body and isinstance(fn.body[0], ast.Expr) and isinstance(getattr(fn.body[0], "value", None), ast.Constant) and isinstance(fn.body[0].value.value, str)) else 0
            fn.body.insert(pos, stmt)
            n_ins += 1
    if n_ins and not has_logging:
        # after a possible module docstring / __future__ imports
        pos = 0
        while pos < len(tree.body) and ((isinstance(tree.body[pos], ast.Expr) and isinstance(getattr(tree.body[pos], "value", None), ast.Constant)) or (isinstance(tree.body[pos], ast.ImportFrom) and tree.body[pos].module == "__future__")):
            pos += 1
        tree.body.insert(pos, ast.parse("import logging").body[0])
    path.write_text(ast.unparse(ast.fix_missing_locations(tree)) + "\n")


class _Mirror(ast.NodeTransformer):
    """a < b  ->  b > a   (single comparison of side-effect-free operands)"""

    SWAP = {ast.Lt: ast.Gt, ast.Gt: ast.Lt, ast.LtE: ast.GtE, ast.GtE: ast.LtE, ast.Eq: ast.Eq, ast.NotEq: ast.NotEq}

    @staticmethod
    def _pure(e):
        return all(isinstance(n, ast.Name | ast.Attribute | ast.Constant | ast.Load | ast.BinOp | ast.Add | ast.Sub | ast.UnaryOp | ast.USub | ast.Subscript) for n in ast.walk(e))

    def visit_Compare(self, n):
        self.generic_visit(n)
        if len(n.ops) == 1 and type(n.ops[0]) in self.SWAP and self._pure(n.left) and self._pure(n.comparators[0]):
            return ast.Compare(left=n.comparators[0], ops=[self.SWAP[type(n.ops[0])]()], comparators=[n.left])
        return n


class _AugExpand(ast.NodeTransformer):
    """x += y -> x = x + y for plain names and self.attr targets (ints/strings only in this code base)."""

    def visit_AugAssign(self, n):
        self.generic_visit(n)
        if isinstance(n.op, ast.Add | ast.Sub) and isinstance(n.target, ast.Name | ast.Attribute):
            import copy

            load = copy.deepcopy(n.target)
            for x in ast.walk(load):
                if hasattr(x, "ctx"):
                    x.ctx = ast.Load()
            return ast.Assign(targets=[n.target], value=ast.BinOp(left=load, op=n.op, right=n.value), lineno=n.lineno)
        return n


class _NegateIf(ast.NodeTransformer):
    """if c: A else: B  ->  if not c: B else: A   (plain if/else, no elif chain, no walrus in the test)"""

    def visit_If(self, n):
        self.generic_visit(n)
        if n.orelse and not (len(n.orelse) == 1 and isinstance(n.orelse[0], ast.If)) and not any(isinstance(x, ast.NamedExpr) for x in ast.walk(n.test)):
            return ast.If(test=ast.UnaryOp(op=ast.Not(), operand=n.test), body=n.orelse, orelse=n.body)
        return n


class _ReturnIfExp(ast.NodeTransformer):
    """if c: return A else: return B  ->  return A if c else B"""

    def visit_If(self, n):
        self.generic_visit(n)
        if len(n.body) == 1 and len(n.orelse) == 1 and isinstance(n.body[0], ast.Return) and isinstance(n.orelse[0], ast.Return) and n.body[0].value is not None and n.orelse[0].value is not None and not any(isinstance(x, ast.NamedExpr) for x in ast.walk(n.test)):
            return ast.Return(value=ast.IfExp(test=n.test, body=n.body[0].value, orelse=n.orelse[0].value))
        return n


def transform(path: Path, cls):
    src = path.read_text()
    if not src.strip():
        return
    tree = ast.parse(src)
    tree = cls().visit(tree)
    path.write_text(ast.unparse(ast.fix_missing_locations(tree)) + "\n")


if __name__ == "__main__":
    root = Path(sys.argv[1])
    mode = sys.argv[2] if len(sys.argv) > 2 else "rename"
    total = 0
    for f in sorted(root.rglob("*.py")):
        if mode == "rename":
            total += process(f)
        elif mode == "unparse":
            unparse_only(f)
        elif mode == "instrument":
            instrument(f)
        elif mode == "mirror":
            transform(f, _Mirror)
        elif mode == "augexpand":
            transform(f, _AugExpand)
        elif mode == "negateif":
            transform(f, _NegateIf)
        elif mode == "returnifexp":
            transform(f, _ReturnIfExp)
    print(f"{mode}: done ({total} locals renamed)" if mode == "rename" else f"{mode}: done")
