#!/usr/bin/env python3
"""Metamorphic test of the checkers: apply *semantics-preserving by construction* source transformations to the repository under
test, one site at a time (and a few in combination), and run every check on the result.  A VIOLATION on such a tree is a false
alarm of the check by construction; exit 2 (no verdict) is allowed; exit 0 is the expected answer.

  metamorph.py list                       number of sites per transformation
  metamorph.py run [-j N] [--sample K] [--seed S] [--only T1,T2] [--out DIR] [--props C01,C02]
                                          generate variants, run the pinned tests (sanity of the transformer) and all checks;
                                          writes <out>/results.jsonl and, for each variant that drew a VIOLATION, <out>/<id>.diff
  metamorph.py diff <variant id>          print the patch of one variant (id = T<k>:<relpath>:<site index>[+...])

The transformations (each preserves evaluation order, values and side effects):
  T1  temp extraction      `tgt = <expr>` / `return <expr>` / `if <expr>:`  ->  `_mm = <expr>` first
  T2  branch swap          `if c: A else: B`  ->  `if not (c): B else: A`
  T3  += expansion         `n += <int literal>`  ->  `n = n + <int literal>`   (Name targets only)
  T4  conjunction nesting  `if a and b: S` (no else)  ->  `if a: if b: S`
  T5  unused index         `for x in xs:`  ->  `for _mm_i, x in enumerate(xs):`
  T7  local rename         one local variable of a function renamed (to a neutral name: rules must not lean on what a local is called)
  T8  while lowering       `while c: B` (no else)  ->  `while True: if not (c): break; B`
  T9  comparison flip      `a < b` -> `b > a` when both operands are names / attributes / literals (no calls)
  T10 early continue       `for ...: if c: B` (if is the whole body, no else)  ->  `if not (c): continue; B`
  T12 conditional split    `x = a if c else b`  ->  `if c: x = a else: x = b`
  T14 else after return    `if c: ...return\n rest`  ->  `if c: ...return else: rest`   (last statements of a function body)
  T17 tuple assignment     `a, b = x, y`  ->  `_mm0 = x; _mm1 = y; a = _mm0; b = _mm1`
  T1b operand extraction   `if f(x) > k:` -> `_mm = f(x); if _mm > k:` ; `y = g(a, h(b))` -> `_mm = h(b); y = g(a, _mm)` (first non-trivial argument)
  T21 annotated assignment `x = v` -> `x: object = v` (also `self.a: object = v`)
  T22 signature annotations every parameter and the return value annotated
  T23 docstring            a docstring inserted where there is none
  T28 keyword argument     the last positional argument of a call to a function of the same module / class passed by keyword
  T31 independent inits    two adjacent initialisations of different locals from literals / names swapped
  T18 temp inlining        `v = E; <next statement reads v once>` -> E written in place of v (only where evaluation order is kept)
"""
from __future__ import annotations

import argparse
import ast
import copy
import json
import os
import random
import shutil
import subprocess
import sys
import tempfile
from concurrent.futures import ThreadPoolExecutor
from pathlib import Path

VERIF = Path(__file__).resolve().parent.parent
sys.path.insert(0, str(VERIF))
REPO = Path(os.environ.get("SA_REPO", "/repo"))
PY = "/venv/bin/python"
SRC = "src/tola"


def sources():
    return sorted(p for p in (REPO / SRC).rglob("*.py"))


class Site:
    def __init__(self, t, rel, idx, stmt, make):
        self.t, self.rel, self.idx, self.stmt, self.make = t, rel, idx, stmt, make

    @property
    def id(self):
        return f"{self.t}:{self.rel}:{self.idx}"


def _pure_operand(e):
    return isinstance(e, ast.Name | ast.Constant) or (isinstance(e, ast.Attribute) and _pure_operand(e.value))


def _has_walrus_or_yield(n):
    return any(isinstance(x, ast.NamedExpr | ast.Yield | ast.YieldFrom | ast.Await) for x in ast.walk(n))


def _parents(tree):
    for n in ast.walk(tree):
        for c in ast.iter_child_nodes(n):
            c._mm_parent = n


def _is_elif(stmt):
    p = getattr(stmt, "_mm_parent", None)
    return isinstance(p, ast.If) and len(p.orelse) == 1 and p.orelse[0] is stmt and stmt.col_offset == p.col_offset + 0 and _src_is_elif(stmt)


_SRC_LINES = {}


def _src_is_elif(stmt):
    lines = _SRC_LINES.get(id(stmt._mm_root))
    if lines is None:
        return False
    return lines[stmt.lineno - 1][stmt.col_offset :].startswith("elif")


def _names_in_func(fn):
    return {n.id for n in ast.walk(fn) if isinstance(n, ast.Name)} | {a.arg for a in ast.walk(fn) if isinstance(a, ast.arg)}


def find_sites(path: Path):
    rel = str(path.relative_to(REPO))
    text = path.read_text()
    tree = ast.parse(text)
    _parents(tree)
    _SRC_LINES[id(tree)] = text.splitlines()
    for n in ast.walk(tree):
        n._mm_root = tree
    sites = []
    counters = {}

    def add(t, stmt, make):
        k = counters.get(t, 0)
        counters[t] = k + 1
        sites.append(Site(t, rel, k, stmt, make))

    funcs = [n for n in ast.walk(tree) if isinstance(n, ast.FunctionDef)]
    for fn in funcs:
        used = _names_in_func(fn)
        fresh = lambda base: next(f"{base}{i or ''}" for i in range(100) if f"{base}{i or ''}" not in used)  # noqa: E731
        nested = [x for x in ast.walk(fn) if isinstance(x, ast.FunctionDef | ast.Lambda | ast.ClassDef) and x is not fn]
        in_nested = {id(y) for x in nested for y in ast.walk(x) if y is not x}
        for st in ast.walk(fn):
            if id(st) in in_nested or not isinstance(st, ast.stmt) or st is fn:
                continue
            if not isinstance(getattr(st, "_mm_parent", None), ast.FunctionDef | ast.For | ast.While | ast.If | ast.With | ast.Try):
                continue
            # T1
            if isinstance(st, ast.Assign) and len(st.targets) == 1 and isinstance(st.value, ast.Call | ast.BinOp | ast.Subscript | ast.Compare | ast.BoolOp) and not _has_walrus_or_yield(st) and not isinstance(st.targets[0], ast.Tuple | ast.List):
                # target sub-expressions are evaluated after the value in Python, so extracting the value first is exact
                def mk(st=st, v=fresh("_mm")):
                    return [ast.Assign(targets=[ast.Name(id=v, ctx=ast.Store())], value=st.value, lineno=0), ast.Assign(targets=st.targets, value=ast.Name(id=v, ctx=ast.Load()), lineno=0)]

                add("T1", st, mk)
            if isinstance(st, ast.Return) and st.value is not None and isinstance(st.value, ast.Call | ast.BinOp | ast.Subscript | ast.Compare | ast.BoolOp | ast.Tuple) and not _has_walrus_or_yield(st):
                def mk(st=st, v=fresh("_mm")):
                    return [ast.Assign(targets=[ast.Name(id=v, ctx=ast.Store())], value=st.value, lineno=0), ast.Return(value=ast.Name(id=v, ctx=ast.Load()))]

                add("T1", st, mk)
            if isinstance(st, ast.If) and not _is_elif(st) and not _has_walrus_or_yield(st.test) and isinstance(st.test, ast.Call | ast.Compare | ast.BoolOp | ast.UnaryOp):
                def mk(st=st, v=fresh("_mm")):
                    new = copy.copy(st)
                    new.test = ast.Name(id=v, ctx=ast.Load())
                    return [ast.Assign(targets=[ast.Name(id=v, ctx=ast.Store())], value=st.test, lineno=0), new]

                add("T1", st, mk)
            # T21: annotated assignment (annotations of locals are not evaluated; `self.x: T = v` is allowed too)
            if isinstance(st, ast.Assign) and len(st.targets) == 1 and isinstance(st.targets[0], ast.Name | ast.Attribute) and not _has_walrus_or_yield(st):
                if not (isinstance(st.targets[0], ast.Name) and sum(1 for x in ast.walk(fn) if isinstance(x, ast.AnnAssign) and isinstance(x.target, ast.Name) and x.target.id == st.targets[0].id)):
                    def mk(st=st):
                        return [ast.AnnAssign(target=st.targets[0], annotation=ast.Name(id="object", ctx=ast.Load()), value=st.value, simple=1 if isinstance(st.targets[0], ast.Name) else 0)]

                    add("T21", st, mk)
            # T31: two adjacent independent simple initialisations swapped
            par_ = getattr(st, "_mm_parent", None)
            for fld_ in ("body", "orelse"):
                blk_ = getattr(par_, fld_, None)
                if isinstance(blk_, list) and st in blk_:
                    i_ = blk_.index(st)
                    if i_ + 1 < len(blk_):
                        nx = blk_[i_ + 1]
                        simple = lambda q: isinstance(q, ast.Assign) and len(q.targets) == 1 and isinstance(q.targets[0], ast.Name) and isinstance(q.value, ast.Constant | ast.Name | ast.List | ast.Dict | ast.Tuple) and not any(isinstance(x, ast.Call | ast.Attribute | ast.Subscript) for x in ast.walk(q.value))  # noqa: E731
                        if simple(st) and simple(nx):
                            a_t, b_t = st.targets[0].id, nx.targets[0].id
                            a_r = {x.id for x in ast.walk(st.value) if isinstance(x, ast.Name)}
                            b_r = {x.id for x in ast.walk(nx.value) if isinstance(x, ast.Name)}
                            if a_t != b_t and a_t not in b_r and b_t not in a_r:
                                def mk(st=st, nx=nx):
                                    return [nx, st]

                                s31 = Site("T31", rel, counters.get("T31", 0), st, mk)
                                s31.until = nx
                                counters["T31"] = counters.get("T31", 0) + 1
                                sites.append(s31)
            # T28: the last positional argument of a call to a function of this module passed by keyword
            if isinstance(st, ast.Assign | ast.Return | ast.Expr) and isinstance(st.value, ast.Call) and st.value.args and not any(isinstance(a_, ast.Starred) for a_ in st.value.args):
                call = st.value
                callee = None
                if isinstance(call.func, ast.Name):
                    callee = next((d for d in tree.body if isinstance(d, ast.FunctionDef) and d.name == call.func.id), None)
                    skip = 0
                elif isinstance(call.func, ast.Attribute) and isinstance(call.func.value, ast.Name) and call.func.value.id == "self":
                    cls_ = next((c for c in ast.walk(tree) if isinstance(c, ast.ClassDef) and fn in c.body), None)
                    callee = next((d for d in (cls_.body if cls_ else []) if isinstance(d, ast.FunctionDef) and d.name == call.func.attr), None)
                    skip = 1
                    if callee is not None and any(isinstance(d, ast.Name) and d.id in ("staticmethod", "classmethod", "property") for d in callee.decorator_list):
                        callee = None
                if callee is not None and not callee.args.posonlyargs and not callee.args.vararg:
                    k = len(call.args) - 1
                    ps_ = [a_.arg for a_ in callee.args.args][skip:]
                    if k < len(ps_) and ps_[k] not in {kw_.arg for kw_ in call.keywords}:
                        def mk(st=st, k=k, pn=ps_[k]):
                            new = copy.copy(st)
                            new.value = copy.copy(st.value)
                            new.value.args = list(st.value.args[:k])
                            new.value.keywords = [ast.keyword(arg=pn, value=st.value.args[k]), *st.value.keywords]
                            return [new]

                        add("T28", st, mk)
            # T1b: name an operand that is evaluated first anyway
            if isinstance(st, ast.If) and not _is_elif(st) and isinstance(st.test, ast.Compare) and isinstance(st.test.left, ast.Call | ast.Attribute | ast.Subscript | ast.BinOp) and not _has_walrus_or_yield(st.test):
                def mk(st=st, v=fresh("_mm")):
                    new = copy.copy(st)
                    new.test = copy.copy(st.test)
                    new.test.left = ast.Name(id=v, ctx=ast.Load())
                    return [ast.Assign(targets=[ast.Name(id=v, ctx=ast.Store())], value=st.test.left, lineno=0), new]

                add("T1b", st, mk)
            if isinstance(st, ast.Assign | ast.Return | ast.Expr) and isinstance(st.value, ast.Call) and not _has_walrus_or_yield(st) and (isinstance(st.value.func, ast.Name) or (isinstance(st.value.func, ast.Attribute) and _pure_operand(st.value.func.value))):
                call = st.value
                k = next((i for i, a_ in enumerate(call.args) if not isinstance(a_, ast.Name | ast.Constant)), None)
                if k is not None and isinstance(call.args[k], ast.Call | ast.BinOp | ast.Subscript | ast.Attribute | ast.JoinedStr):
                    def mk(st=st, k=k, v=fresh("_mm")):
                        new = copy.copy(st)
                        new.value = copy.copy(st.value)
                        new.value.args = list(st.value.args)
                        new.value.args[k] = ast.Name(id=v, ctx=ast.Load())
                        return [ast.Assign(targets=[ast.Name(id=v, ctx=ast.Store())], value=st.value.args[k], lineno=0), new]

                    add("T1b", st, mk)
            # T2
            if isinstance(st, ast.If) and st.orelse and not _is_elif(st) and not _has_walrus_or_yield(st.test):
                def mk(st=st):
                    return [ast.If(test=ast.UnaryOp(op=ast.Not(), operand=st.test), body=st.orelse, orelse=st.body)]

                add("T2", st, mk)
            # T3
            if isinstance(st, ast.AugAssign) and isinstance(st.target, ast.Name) and isinstance(st.value, ast.Constant) and isinstance(st.value.value, int) and not isinstance(st.value.value, bool):
                def mk(st=st):
                    return [ast.Assign(targets=[ast.Name(id=st.target.id, ctx=ast.Store())], value=ast.BinOp(left=ast.Name(id=st.target.id, ctx=ast.Load()), op=st.op, right=st.value), lineno=0)]

                add("T3", st, mk)
            # T4
            if isinstance(st, ast.If) and not st.orelse and not _is_elif(st) and isinstance(st.test, ast.BoolOp) and isinstance(st.test.op, ast.And) and len(st.test.values) == 2:
                def mk(st=st):
                    a, b = st.test.values
                    return [ast.If(test=a, body=[ast.If(test=b, body=st.body, orelse=[])], orelse=[])]

                add("T4", st, mk)
            # T5
            if isinstance(st, ast.For) and isinstance(st.target, ast.Name) and not st.orelse and not (isinstance(st.iter, ast.Call) and isinstance(st.iter.func, ast.Name) and st.iter.func.id in ("enumerate", "zip", "range")):
                def mk(st=st, v=fresh("_mm_i")):
                    new = copy.copy(st)
                    new.target = ast.Tuple(elts=[ast.Name(id=v, ctx=ast.Store()), st.target], ctx=ast.Store())
                    new.iter = ast.Call(func=ast.Name(id="enumerate", ctx=ast.Load()), args=[st.iter], keywords=[])
                    return [new]

                add("T5", st, mk)
            # T8
            if isinstance(st, ast.While) and not st.orelse and not (isinstance(st.test, ast.Constant)) and not _has_walrus_or_yield(st.test):
                def mk(st=st):
                    brk = ast.If(test=ast.UnaryOp(op=ast.Not(), operand=st.test), body=[ast.Break()], orelse=[])
                    return [ast.While(test=ast.Constant(value=True), body=[brk, *st.body], orelse=[])]

                add("T8", st, mk)
            # T10
            if isinstance(st, ast.For) and len(st.body) == 1 and isinstance(st.body[0], ast.If) and not st.body[0].orelse and not _has_walrus_or_yield(st.body[0].test):
                def mk(st=st):
                    new = copy.copy(st)
                    iff = st.body[0]
                    new.body = [ast.If(test=ast.UnaryOp(op=ast.Not(), operand=iff.test), body=[ast.Continue()], orelse=[]), *iff.body]
                    return [new]

                add("T10", st, mk)
            # T12
            if isinstance(st, ast.Assign) and len(st.targets) == 1 and isinstance(st.targets[0], ast.Name) and isinstance(st.value, ast.IfExp) and not _has_walrus_or_yield(st):
                def mk(st=st):
                    v = st.value
                    return [ast.If(test=v.test, body=[ast.Assign(targets=st.targets, value=v.body, lineno=0)], orelse=[ast.Assign(targets=copy.deepcopy(st.targets), value=v.orelse, lineno=0)])]

                add("T12", st, mk)
            # T17
            if isinstance(st, ast.Assign) and len(st.targets) == 1 and isinstance(st.targets[0], ast.Tuple) and isinstance(st.value, ast.Tuple) and len(st.targets[0].elts) == len(st.value.elts) and all(isinstance(e, ast.Name) for e in st.targets[0].elts) and not any(isinstance(e, ast.Starred) for e in st.value.elts) and not _has_walrus_or_yield(st):
                def mk(st=st, names=[fresh(f"_mm_t{i}_") for i in range(len(st.value.elts))]):
                    out = [ast.Assign(targets=[ast.Name(id=nm, ctx=ast.Store())], value=v, lineno=0) for nm, v in zip(names, st.value.elts)]
                    out += [ast.Assign(targets=[t], value=ast.Name(id=nm, ctx=ast.Load()), lineno=0) for nm, t in zip(names, st.targets[0].elts)]
                    return out

                add("T17", st, mk)
        # T9: comparison flips (expression level; the enclosing simple statement is re-emitted)
        for st in ast.walk(fn):
            if id(st) in in_nested or not isinstance(st, ast.If | ast.While | ast.Assign | ast.Return) or (isinstance(st, ast.If) and _is_elif(st)):
                continue
            holder = st.test if isinstance(st, ast.If | ast.While) else st.value
            if holder is None:
                continue
            for cmp_ in [x for x in ast.walk(holder) if isinstance(x, ast.Compare)]:
                if len(cmp_.ops) == 1 and isinstance(cmp_.ops[0], ast.Lt | ast.Gt | ast.LtE | ast.GtE) and _pure_operand(cmp_.left) and _pure_operand(cmp_.comparators[0]):
                    def mk(st=st, cmp_=cmp_):
                        flip = {ast.Lt: ast.Gt, ast.Gt: ast.Lt, ast.LtE: ast.GtE, ast.GtE: ast.LtE}[type(cmp_.ops[0])]
                        new = copy.deepcopy(st)
                        # locate the same compare in the copy by position
                        for x in ast.walk(new):
                            if isinstance(x, ast.Compare) and (x.lineno, x.col_offset, x.end_col_offset) == (cmp_.lineno, cmp_.col_offset, cmp_.end_col_offset):
                                x.left, x.comparators, x.ops = x.comparators[0], [x.left], [flip()]
                                break
                        return [new]

                    add("T9", st, mk)
        # T14: `if c: ... return` followed by the rest of the function body -> else branch
        body = fn.body
        for i, st in enumerate(body[:-1]):
            if isinstance(st, ast.If) and not st.orelse and st.body and isinstance(st.body[-1], ast.Return | ast.Raise) and i >= 1 and not any(isinstance(x, ast.FunctionDef | ast.ClassDef) for x in body[i + 1 :]):
                rest = body[i + 1 :]

                def mk(st=st, rest=rest):
                    return [ast.If(test=st.test, body=st.body, orelse=rest)]

                s_ = Site("T14", rel, counters.get("T14", 0), st, mk)
                s_.until = rest[-1]
                counters["T14"] = counters.get("T14", 0) + 1
                sites.append(s_)
        # T22: every parameter annotated, return annotated; T23: a docstring where there is none
        if not any(a_.annotation for a_ in ast.walk(fn.args) if isinstance(a_, ast.arg)) and fn.name != "__init__":
            def mk(fn=fn):
                f2 = copy.deepcopy(fn)
                for a_ in ast.walk(f2.args):
                    if isinstance(a_, ast.arg) and a_.arg not in ("self", "cls"):
                        a_.annotation = ast.Name(id="object", ctx=ast.Load())
                if f2.returns is None:
                    f2.returns = ast.Name(id="object", ctx=ast.Load())
                return [f2]

            add("T22", fn, mk)
        if not (fn.body and isinstance(fn.body[0], ast.Expr) and isinstance(fn.body[0].value, ast.Constant) and isinstance(fn.body[0].value.value, str)):
            def mk(fn=fn):
                f2 = copy.deepcopy(fn)
                f2.body.insert(0, ast.Expr(value=ast.Constant(value="Documented.")))
                return [f2]

            add("T23", fn, mk)
        # T18: a temporary that is consumed by the very next statement is substituted into it (the reverse of T1)
        try:
            from sa.model import apply_subst, subst_candidates

            for v_ in sorted(subst_candidates(fn)):
                def mk(fn=fn, v_=v_):
                    f2 = copy.deepcopy(fn)
                    apply_subst(subst_candidates(f2)[v_])
                    return [f2]

                add("T18", fn, mk)
        except ImportError:
            pass
        # T7: rename one local (assigned by plain statements in this function only; not a parameter; no nested scopes use it)
        params = {a.arg for a in ast.walk(fn.args) if isinstance(a, ast.arg)}
        if not any(isinstance(x, ast.Global | ast.Nonlocal) for x in ast.walk(fn)):
            stores = {}
            for x in ast.walk(fn):
                if id(x) in in_nested:
                    continue
                if isinstance(x, ast.Name) and isinstance(x.ctx, ast.Store):
                    stores.setdefault(x.id, []).append(x)
            nested_names = {y.id for x in nested for y in ast.walk(x) if isinstance(y, ast.Name)}
            comp_targets = {y.id for x in ast.walk(fn) if isinstance(x, ast.comprehension) for y in ast.walk(x.target) if isinstance(y, ast.Name)}
            for nm in sorted(stores):
                if nm in params or nm in nested_names or nm in comp_targets or nm.startswith("_"):
                    continue
                def mk(fn=fn, nm=nm, new=fresh("mmv")):
                    f2 = copy.deepcopy(fn)
                    for x in ast.walk(f2):
                        if isinstance(x, ast.Name) and x.id == nm:
                            x.id = new
                    return [f2]

                add("T7", fn, mk)
    return text, tree, sites


def apply_sites(text: str, sites: list[Site]) -> str:
    """replace the source lines of each site's statement by the unparsed replacement (sites must not overlap)"""
    lines = text.splitlines(keepends=True)
    edits = []
    for s in sites:
        new = s.make()
        for n in new:
            ast.fix_missing_locations(n)
        first = s.stmt.lineno
        if getattr(s.stmt, "decorator_list", None):
            first = min(first, *(d.lineno for d in s.stmt.decorator_list))
        last = getattr(s, "until", s.stmt).end_lineno
        indent = " " * s.stmt.col_offset
        if lines[s.stmt.lineno - 1][: s.stmt.col_offset].strip() or lines[last - 1].rstrip("\n")[getattr(s, "until", s.stmt).end_col_offset :].split("#")[0].strip():
            raise ValueError("statement shares its line with other code")
        body = "\n".join(ast.unparse(n) for n in new)
        repl = "".join(indent + ln + "\n" if ln.strip() else "\n" for ln in body.splitlines())
        edits.append((first, last, repl))
    edits.sort()
    for (a1, b1, _), (a2, b2, _) in zip(edits, edits[1:]):
        if a2 <= b1:
            raise ValueError("overlapping sites")
    for first, last, repl in reversed(edits):
        lines[first - 1 : last] = [repl]
    out = "".join(lines)
    ast.parse(out)
    return out


def all_sites():
    per_file = {}
    for p in sources():
        text, tree, sites = find_sites(p)
        per_file[str(p.relative_to(REPO))] = (text, sites)
    return per_file


def make_variants(per_file, sample, seed, only):
    rnd = random.Random(seed)
    singles = [s for _, (_, ss) in sorted(per_file.items()) for s in ss if not only or s.t in only]
    variants = [[s] for s in singles]
    # combinations: 2-4 non-overlapping sites of one file
    by_file = {}
    for s in singles:
        by_file.setdefault(s.rel, []).append(s)
    combos = []
    for rel, ss in sorted(by_file.items()):
        for _ in range(max(2, len(ss) // 3)):
            k = rnd.randint(2, 4)
            pick = rnd.sample(ss, min(k, len(ss)))
            pick.sort(key=lambda s: s.stmt.lineno)
            okc = all(getattr(a, "until", a.stmt).end_lineno < b.stmt.lineno for a, b in zip(pick, pick[1:])) and len({s.id for s in pick}) == len(pick) and len(pick) > 1
            if okc:
                combos.append(pick)
    variants += combos
    if sample and sample < len(variants):
        variants = rnd.sample(variants, sample)
    return variants


def vid(v):
    return "+".join(s.id for s in v)


def evaluate(v, per_file, out: Path, props, tests=True):
    name = vid(v)
    scratch = Path(tempfile.mkdtemp(prefix="mm-", dir="/tmp"))
    res = {"id": name}
    try:
        # the working tree as it stands (not the last commit): the package, its metadata and, when the transformer is to be
        # sanity-checked by the project's tests, the tests
        shutil.copytree(REPO / "src", scratch / "src", ignore=shutil.ignore_patterns("__pycache__", "*.pyc"))
        for extra in ("pyproject.toml", *(["tests"] if tests else [])):
            src_ = REPO / extra
            if src_.is_dir():
                shutil.copytree(src_, scratch / extra, ignore=shutil.ignore_patterns("__pycache__", "*.pyc"))
            elif src_.exists():
                shutil.copy(src_, scratch / extra)
        rel = v[0].rel
        text = per_file[rel][0]
        try:
            new = apply_sites(text, v)
        except Exception as e:  # transformer could not express the edit
            res["skipped"] = f"{type(e).__name__}: {e}"
            return res
        (scratch / rel).write_text(new)
        env = dict(os.environ, PYTHONPATH=str(scratch / "src"), PYTHONDONTWRITEBYTECODE="1")
        if tests:
            r = subprocess.run([PY, "-m", "pytest", "-q", "-p", "no:cacheprovider", "-x"], cwd=scratch, env=env, capture_output=True, text=True, timeout=900)
            res["tests_rc"] = r.returncode
            if r.returncode != 0:
                res["tests_tail"] = (r.stdout + r.stderr)[-600:]
                return res
        else:
            try:
                compile(new, rel, "exec")
            except SyntaxError as e_:
                res["skipped"] = f"SyntaxError: {e_}"
                return res
        r = subprocess.run([str(VERIF / "check"), props or "all", "--root", str(scratch), "--no-evidence", *(["--tier", "quick"] if props else [])], cwd=VERIF, capture_output=True, text=True, timeout=7200)
        o = r.stdout + r.stderr
        alarms, errors = {}, {}
        lines = o.splitlines()
        for i, ln in enumerate(lines):
            if ln.startswith("--- C"):
                alarms.setdefault(ln[4:7], []).append(ln[4:].strip() + " :: " + (lines[i + 1].strip()[:240] if i + 1 < len(lines) else ""))
            if ln.startswith("ANALYSIS-ERROR"):
                pid = ln.split("property=")[1].split()[0] if "property=" in ln else "?"
                errors[pid] = ln[:240]
        res["alarms"], res["no_verdict"] = alarms, errors
        if alarms:
            d = subprocess.run(["diff", "-u", "--label", f"a/{rel}", "--label", f"b/{rel}", str(REPO / rel), str(scratch / rel)], capture_output=True, text=True).stdout
            (out / (name.replace("/", "_").replace(":", "-")[:150] + ".diff")).write_text(d)
    except Exception as e:
        res["error"] = f"{type(e).__name__}: {e}"
    finally:
        shutil.rmtree(scratch, ignore_errors=True)
    return res


def sample_for(prop: str, root: str, n: int = 48, seed: int = 0, jobs: int = 8, files=None):
    """Thorough-tier hook: `n` seeded variants of the tree at `root` (sites in `files` when given, else anywhere in the package),
    compiled only (no tests are run), each checked with the one property `prop`.
    -> {"variants": k, "silent": a, "no_verdict": b, "false_alarms": [(variant id, first finding)], "kinds": {...}}"""
    global REPO
    old_repo = REPO
    REPO = Path(root)
    try:
        per_file = all_sites()
        rnd = random.Random(f"{prop}:{seed}")
        singles = [s for rel, (_, ss) in sorted(per_file.items()) for s in ss if not files or any(rel.endswith(f) or f.endswith(rel) for f in files)]
        if len(singles) < n:
            singles = [s for _, (_, ss) in sorted(per_file.items()) for s in ss]
        # spread over the kinds of transformation
        by_kind = {}
        for s_ in singles:
            by_kind.setdefault(s_.t, []).append(s_)
        pick = []
        kinds = sorted(by_kind)
        while len(pick) < n and any(by_kind.values()):
            for k in kinds:
                if by_kind[k] and len(pick) < n:
                    pick.append(by_kind[k].pop(rnd.randrange(len(by_kind[k]))))
        out_dir = Path(tempfile.mkdtemp(prefix="mm-out-", dir="/tmp"))
        try:
            with ThreadPoolExecutor(max(1, jobs)) as ex:
                results = list(ex.map(lambda v: evaluate([v], per_file, out_dir, prop, tests=False), pick))
        finally:
            shutil.rmtree(out_dir, ignore_errors=True)
        info = {"variants": len(results), "silent": 0, "no_verdict": 0, "not_expressible": 0, "false_alarms": [], "kinds": {}}
        for v, r in zip(pick, results):
            info["kinds"][v.t] = info["kinds"].get(v.t, 0) + 1
            if r.get("skipped") or r.get("error"):
                info["not_expressible"] += 1
            elif r.get("alarms"):
                info["false_alarms"].append((r["id"], next(iter(r["alarms"].values()))[0][:200]))
            elif r.get("no_verdict"):
                info["no_verdict"] += 1
            else:
                info["silent"] += 1
        return info
    finally:
        REPO = old_repo


def main():
    ap = argparse.ArgumentParser()
    ap.add_argument("cmd", choices=["list", "run", "diff"])
    ap.add_argument("variant", nargs="?")
    ap.add_argument("-j", type=int, default=8)
    ap.add_argument("--sample", type=int, default=0)
    ap.add_argument("--seed", type=int, default=1)
    ap.add_argument("--only", default="")
    ap.add_argument("--props", default="")
    ap.add_argument("--out", default="/tmp/metamorph")
    a = ap.parse_args()
    per_file = all_sites()
    only = {x for x in a.only.split(",") if x}
    if a.cmd == "list":
        cnt = {}
        for _, (_, ss) in per_file.items():
            for s in ss:
                cnt[s.t] = cnt.get(s.t, 0) + 1
        print(json.dumps(dict(sorted(cnt.items())), indent=1), sum(cnt.values()))
        return 0
    if a.cmd == "diff":
        ids = a.variant.split("+")
        pick = [s for _, (_, ss) in per_file.items() for s in ss if s.id in ids]
        rel = pick[0].rel
        new = apply_sites(per_file[rel][0], pick)
        with tempfile.NamedTemporaryFile("w", suffix=".py") as tf:
            tf.write(new)
            tf.flush()
            print(subprocess.run(["diff", "-u", "--label", f"a/{rel}", "--label", f"b/{rel}", str(REPO / rel), tf.name], capture_output=True, text=True).stdout)
        return 0
    out = Path(a.out)
    out.mkdir(parents=True, exist_ok=True)
    variants = make_variants(per_file, a.sample, a.seed, only)
    print(f"{len(variants)} variants", flush=True)
    n_alarm = 0
    with open(out / "results.jsonl", "a") as fh, ThreadPoolExecutor(a.j) as ex:
        for i, res in enumerate(ex.map(lambda v: evaluate(v, per_file, out, a.props), variants)):
            fh.write(json.dumps(res) + "\n")
            fh.flush()
            if res.get("alarms"):
                n_alarm += 1
                print(f"ALARM {res['id']}: { {k: v[0][:160] for k, v in res['alarms'].items()} }", flush=True)
            elif res.get("tests_rc", 0) != 0 or "error" in res:
                print(f"BROKEN {res['id']}: {res.get('tests_tail', res.get('error', ''))[-200:]}", flush=True)
            if (i + 1) % 50 == 0:
                print(f"... {i + 1}/{len(variants)} done, {n_alarm} with alarms", flush=True)
    print(f"done: {len(variants)} variants, {n_alarm} with alarms")
    return 0


if __name__ == "__main__":
    sys.exit(main())
