#!/usr/bin/env python3
"""Evaluate one behaviour-preserving refactoring (written by an independent sub-agent) for FALSE ALARMS.

  benign_eval.py <dir with patch.diff [equiv.py, notes.md]> [--save /verif/benign/<name>]

In a scratch git worktree of /repo (removed afterwards): equiv.py on the clean tree, `git apply`,
the 64 tests, equiv.py again, then every check with --root <scratch>.  A VIOLATION on such a tree is a
false alarm of the check (unless the refactoring turns out not to be behaviour-preserving); an
ANALYSIS-ERROR is an honest "no verdict".
"""

import argparse
import json
import os
import shutil
import subprocess
import sys
import tempfile
from pathlib import Path

VERIF = Path(__file__).resolve().parent.parent
PY = "/venv/bin/python"


def sh(cmd, cwd=None, env=None, timeout=900):
    e = dict(os.environ)
    if env:
        e.update(env)
    r = subprocess.run(cmd, cwd=cwd, env=e, capture_output=True, text=True, timeout=timeout)
    return r.returncode, r.stdout + r.stderr


def main():
    ap = argparse.ArgumentParser()
    ap.add_argument("dir")
    ap.add_argument("--save")
    a = ap.parse_args()
    d = Path(a.dir)
    out = {"dir": str(d)}
    scratch = Path(tempfile.mkdtemp(prefix="benigneval-", dir="/tmp"))
    shutil.rmtree(scratch)
    rc, o = sh(["git", "-C", "/repo", "worktree", "add", "--detach", "-q", str(scratch), "HEAD"])
    try:
        env = {"PYTHONPATH": str(scratch / "src"), "PYTHONDONTWRITEBYTECODE": "1"}
        eq = d / "equiv.py"
        if eq.exists():
            rc, o = sh([PY, str(eq)], cwd=scratch, env=env)
            out["equiv_clean_rc"] = rc
        rc, o = sh(["git", "apply", "--whitespace=nowarn", str(d / "patch.diff")], cwd=scratch)
        out["apply_rc"] = rc
        if rc != 0:
            out["apply_out"] = o[-400:]
            print(json.dumps(out, indent=1))
            return 1
        rc, o = sh([PY, "-m", "pytest", "-q", "-p", "no:cacheprovider", "-x"], cwd=scratch, env=env)
        out["tests_rc"] = rc
        out["tests_tail"] = o.strip().splitlines()[-1] if o.strip() else ""
        if eq.exists():
            rc, o = sh([PY, str(eq)], cwd=scratch, env=env)
            out["equiv_patched_rc"] = rc
        rc, o = sh([str(VERIF / "check"), "all", "--root", str(scratch), "--no-evidence"], cwd=VERIF, timeout=1200)
        alarms, errors = {}, {}
        lines = o.splitlines()
        for i, ln in enumerate(lines):
            if ln.startswith("--- C"):
                alarms.setdefault(ln[4:7], []).append(ln[4:].strip() + " :: " + (lines[i + 1].strip()[:220] if i + 1 < len(lines) else ""))
            if ln.startswith("ANALYSIS-ERROR"):
                pid = ln.split("property=")[1].split()[0] if "property=" in ln else "?"
                errors[pid] = ln[:260]
        out["false_alarms"] = alarms
        out["no_verdict"] = errors
        out["valid_refactoring"] = out.get("tests_rc") == 0 and out.get("equiv_patched_rc", 0) == 0
    finally:
        sh(["git", "-C", "/repo", "worktree", "remove", "--force", str(scratch)])
        shutil.rmtree(scratch, ignore_errors=True)
    if a.save:
        dst = Path(a.save)
        dst.mkdir(parents=True, exist_ok=True)
        for f in ("patch.diff", "equiv.py", "notes.md"):
            if (d / f).exists() and (d / f).resolve() != (dst / f).resolve():
                shutil.copy(d / f, dst / f)
        (dst / "meta.json").write_text(json.dumps({k: out.get(k) for k in ("valid_refactoring", "tests_tail", "equiv_clean_rc", "equiv_patched_rc", "false_alarms", "no_verdict")}, indent=1) + "\n")
    print(json.dumps(out, indent=1))
    return 0


if __name__ == "__main__":
    sys.exit(main())
