#!/usr/bin/env python3
"""Regenerates /verif/MANIFEST.json from the rule modules present in sa/rules and the
tables below (kept in one place so the manifest is valid at every commit)."""

import json
import sys
from pathlib import Path

VERIF = Path(__file__).resolve().parent.parent
sys.path.insert(0, str(VERIF))

TECH = {
    "C08": "abstract interpretation of trim_large_overhangs under the sub-texel overhang assumption (no row removed), constant propagation of the namer for untagged scaffolds, row-mutation scan of the naming code",
    "C02": "affine abstract interpretation of the cut end to end (owner order, keep flags, trim arithmetic) for 2 and 3 owners x both strands: pieces tile the contig; structural order/orientation rules",
    "C01": "who-may-call + must-pass-through (post-dominance over enumerated paths) + typestate on row removal + backward-slice check of the cut QC",
    "C03": "resolved-callee dispatch facts, sibling normal-form comparison of the chunkers, affine ghost-counter invariant for line wrapping, CLI pairing by def-use",
    "C04": "path-sensitive constant propagation of the line loop's header and sequence arms on probe lines (payload, line width, terminator width, record name), regex-AST class check, affine tiling invariant over the run list, path rule for the residue-counter invariant, codec column-order agreement",
    "C05": "codec agreement: writer template vs reader field map extracted from the AST; exhaustive folding of strand / gap-type tables; path enumeration of the line loops; header round trip by constant propagation through the reader loop; cache-key completeness by def-use",
    "C06": "affine-equality abstract interpretation of format_agp (symbolic columns vs running position) + single-writer who-may-call + memo-invalidation completeness for a memoised scaffold length",
    "C07": "call-site argument flow (join gap reaches every append onto a possibly non-empty scaffold), path pairing rules for gap stripping",
    "C09": "finite model check of extracted key expressions (fuse key vs destination key) + folded routing tables",
    "C10": "finite model check of extracted key expressions (uniqueness direction) + counter/sort structure rules + typestate of the pending-unloc list over interprocedural event traces",
    "C11": "symbolic enumeration of the four strand cases of the junction encoding under whole-scaffold reversal + set-difference structure",
    "C12": "loop-bound rule for index walks, affine loop invariant for the cumulative index, span/slice agreement, must-pass-through of the gap walks (or path facts that the ends are not gaps), rows-consulted-by-kind-and-length rule",
    "C13": "who-may-call on whole-record readers, buffer flush pairing on all paths, bounded write-back by path conditions, affine upper-bound substitution for chunk sizes, residue-counter invariant (buffer-size independence of the indexer)",
    "C14": "exhaustive table folding over 256 bytes, constant propagation of reverse_complement on probes covering every byte value, constructor-argument binding of reverse(), row-list reversal structure, memo-invalidation completeness",
    "C15": "validate-before-load dominance, strict-mtime comparison normal form with path-local resolution of operands, atomic-publication typestate (tmp -> write -> close -> replace), import-time vs call-time evaluation of the temporary's unique token",
    "C16": "who-may-write enumeration over the CLI call graph, finite string-set folding of open modes and os.open flag words under the flag (enclosing tests and guard clauses), flag propagation along call edges",
    "C17": "set-typed value inference + order-sensitive-use rule, interprocedural value-flow (taint) tracking of nondeterminism sources to written data, order-insensitivity of loops over directory listings, global-state mutation scan with validated-cache distinction, memoised-function purity incl. file reads",
    "C18": "affine-equality abstract interpretation of every OverlapResult mutator path (span = Σ row lengths), order-region decision of the derived figures, memo-invalidation completeness for remembered what-if figures",
    "C19": "order-region decision procedure: implementation vs interval-arithmetic specification compared as affine normal forms on every weak order of the endpoints",
    "C20": "regex-AST language vs table-key inclusion (finite enumeration + pumping), token/type alternation of re.split, sort-key structure",
}

LEVEL = {"C06": "proof", "C19": "proof"}

LEVEL_TEXT = {
    "proof": "Static proof of the named clauses for all inputs: every obligation is an identity between normal forms (affine forms / order regions) computed from the current source; obligations == discharged or the check fails.",
    "other": "Static analysis deciding the structural clauses named in DESIGN.md for every path / call site / table entry of the current source (a necessary condition of the behavioural property, not the whole behaviour).",
}

NOT_APPLICABLE = {
}


def main():
    rules = sorted(p.stem.upper() for p in (VERIF / "sa" / "rules").glob("c[0-9][0-9].py"))
    checks = []
    for pid in rules:
        mod = __import__(f"sa.rules.{pid.lower()}", fromlist=["x"])
        level = getattr(mod, "LEVEL", LEVEL.get(pid, "other"))
        checks.append(
            {
                "property_id": pid,
                "quick_cmd": f"./check {pid} --tier quick",
                "thorough_cmd": f"./check {pid} --tier thorough",
                "evidence_file": f"/verif/evidence/{pid}.json",
                "replay_cmd_template": f"./check {pid} --replay {{path}}",
                "engine": "sa",
                "level_claimed": {
                    "category": level,
                    "text": LEVEL_TEXT[level] + " " + getattr(mod, "EXPLANATION", "")[:600],
                    "design_ref": f"DESIGN.md section 4, {pid}",
                },
                "level_note": getattr(mod, "LEVEL_NOTE", "Trusted base: CPython's ast module and the analyser in /verif/sa; closed-world assumption verified on every run (no exec/eval/setattr/monkey-patching in src); clauses listed as 'Not decided' in DESIGN.md section 4 are outside the claim."),
                "technique": "static analysis: " + TECH[pid],
            }
        )
    na = [{"property_id": k, "reason": v} for k, v in NOT_APPLICABLE.items()]
    for n in range(1, 21):
        pid = f"C{n:02d}"
        if pid not in rules and pid not in NOT_APPLICABLE:
            na.append({"property_id": pid, "reason": "check not built yet in this revision (static rules designed in DESIGN.md section 4)"})
    na.sort(key=lambda x: x["property_id"])
    man = {
        "version": 1,
        "setup_cmd": "/venv/bin/python -B -c \"import ast,sys; [ast.parse(open(p).read()) for p in __import__('glob').glob('/verif/sa/**/*.py', recursive=True)]\" || python3 -c 'import ast'",
        "hooks": {
            "guard": "SANGER_TOL_AGP_TPF_UTILS_VERIF",
            "enable": "no hooks: the checks read /repo's source tree as it is; nothing in /repo is instrumented",
            "baseline_off_cmd": "cd /repo && /venv/bin/python -m pytest -ra -q -p no:cacheprovider --timeout=900",
            "source_commits": [],
            "add_only": True,
        },
        "engines": [
            {
                "name": "sa",
                "path": "/verif/sa",
                "serves_properties": rules,
                "kind_free_text": "repository-specific static analyser on Python's ast (stdlib only): resolved call graph, path enumeration, constant/table folding and regex ASTs, affine-equality abstract interpretation, order-region decision procedure, codec template extraction, finite key model checking",
            }
        ],
        "checks": checks,
        "notes": "Technique family: static analysis only (no repository code is imported or executed, no solver). exit 0 holds / exit 1 VIOLATION / exit 2 ANALYSIS-ERROR (no verdict). Known findings: /verif/known_findings.json.",
        "not_applicable": na,
    }
    (VERIF / "MANIFEST.json").write_text(json.dumps(man, indent=1) + "\n")
    print(f"MANIFEST.json: {len(checks)} checks, {len(na)} not applicable")


if __name__ == "__main__":
    main()
