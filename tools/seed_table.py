#!/usr/bin/env python3
"""Prints the markdown table of seeded changes (from /verif/seeded/*/meta.json + notes.md)."""
import glob, json, os, re
rows = []
for d in sorted(glob.glob('/verif/seeded/*/meta.json')):
    name = os.path.basename(os.path.dirname(d))
    m = json.load(open(d))
    notes = open(os.path.join(os.path.dirname(d), 'notes.md')).read() if os.path.exists(os.path.join(os.path.dirname(d), 'notes.md')) else ''
    first = next((l.strip(' -*#') for l in notes.splitlines() if len(l.strip()) > 30), '')[:150].replace('|', '/')
    fired = m.get('violations_reported') or {}
    hits = ', '.join(f"{k}.{sorted({r.split('.')[1].split()[0] for r in v})[0]}" for k, v in sorted(fired.items())) or '—'
    rows.append(f"| {name} | {m.get('property')} | {first} | {'yes' if m.get('valid_seed') else 'no'} | {hits} |")
print("| seed | target | change (first line of the author's notes) | confirmed | reported by |")
print("|------|--------|---------------------------------------------|-----------|-------------|")
print("\n".join(rows))
