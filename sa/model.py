"""E1 `model`: parsed program, classes, MRO, resolved call graph, closed-world guard.

Nothing from the analysed repository is ever imported or executed: every fact is
computed from `ast` trees of `<root>/src/tola/**/*.py`.
"""

from __future__ import annotations

import ast
import hashlib
from pathlib import Path


class AnalysisError(Exception):
    """The analysis cannot give a verdict (anchor vanished, construct outside the
    analyser's fragment, cap exceeded).  Mapped to exit 2, never to a VIOLATION."""


# --------------------------------------------------------------------------- helpers


def unparse(node) -> str:
    try:
        return ast.unparse(node)
    except Exception:  # pragma: no cover
        return f"<{type(node).__name__}>"


def norm(node) -> str:
    """Normalised text of a node (whitespace/quote independent)."""
    return " ".join(unparse(node).split())


def walk_shallow(node):
    """ast.walk that does not descend into nested function/class definitions
    (the starting node itself may be a def: its body *is* visited)."""
    stack = list(ast.iter_child_nodes(node))
    while stack:
        n = stack.pop()
        yield n
        if isinstance(n, ast.FunctionDef | ast.AsyncFunctionDef | ast.ClassDef | ast.Lambda):
            continue
        stack.extend(ast.iter_child_nodes(n))


def dotted(node) -> str | None:
    """`a.b.c` for Name/Attribute chains, else None."""
    parts = []
    while isinstance(node, ast.Attribute):
        parts.append(node.attr)
        node = node.value
    if isinstance(node, ast.Name):
        parts.append(node.id)
        return ".".join(reversed(parts))
    return None


def is_name(node, name) -> bool:
    return isinstance(node, ast.Name) and node.id == name


def const_value(node, default=None):
    return node.value if isinstance(node, ast.Constant) else default


# --------------------------------------------------------------------------- records



def subst_slot(b, use, val, scoped=frozenset()):
    """Where statement `b` reads the name node `use`: ("whole", object, field) when `use` is the whole header expression of b
    (`x = v`, `return v`, `if v:`), ("inner", b, use) when it sits inside the header expression at a place where moving the
    evaluation of `val` from the statement before b to that place cannot change anything — `use` is evaluated unconditionally and
    what b evaluates before it cannot interfere with `val` — else None."""
    roots = []
    pre0 = []
    if isinstance(b, ast.Assign | ast.AnnAssign | ast.Return | ast.Expr) and b.value is not None:
        roots = [(b, "value")]
    elif isinstance(b, ast.AugAssign):
        roots = [(b, "value")]
        pre0 = ["name" if isinstance(b.target, ast.Name) else "load"]
    elif isinstance(b, ast.If):
        roots = [(b, "test")]
    elif isinstance(b, ast.For):
        roots = [(b, "iter")]
    elif isinstance(b, ast.Raise) and b.exc is not None and b.cause is None:
        roots = [(b, "exc")]
    elif isinstance(b, ast.Assert) and b.msg is None:
        roots = [(b, "test")]
    for obj, fld in roots:
        root = getattr(obj, fld)
        if not any(x is use for x in ast.walk(root)):
            continue
        if root is use:
            return ("whole", obj, fld) if not pre0 or pre0 == ["name"] else None
        events = [("load", None) if x == "load" else x for x in pre0]
        state = {"found": False, "bad": False}

        def _root(e):
            while isinstance(e, ast.Attribute | ast.Subscript):
                e = e.value
            return e.id if isinstance(e, ast.Name) else None

        def walk(e, cond):
            if state["found"] or state["bad"]:
                return
            if e is use:
                if cond:
                    state["bad"] = True
                state["found"] = True
                return
            if isinstance(e, ast.Name):
                events.append("name")
            elif isinstance(e, ast.Constant):
                pass
            elif isinstance(e, ast.Attribute):
                walk(e.value, cond)
                if not state["found"]:
                    events.append(("load", _root(e)))
            elif isinstance(e, ast.Subscript):
                walk(e.value, cond)
                walk(e.slice, cond)
                if not state["found"]:
                    events.append(("load", _root(e)))
            elif isinstance(e, ast.Slice):
                for x in (e.lower, e.upper, e.step):
                    if x is not None:
                        walk(x, cond)
            elif isinstance(e, ast.Call):
                if isinstance(e.func, ast.Name):
                    events.append("name")
                else:
                    walk(e.func, cond)
                for x in e.args:
                    walk(x.value if isinstance(x, ast.Starred) else x, cond)
                for k in e.keywords:
                    walk(k.value, cond)
                if not state["found"]:
                    events.append("call")
            elif isinstance(e, ast.BinOp):
                walk(e.left, cond)
                walk(e.right, cond)
            elif isinstance(e, ast.UnaryOp):
                walk(e.operand, cond)
            elif isinstance(e, ast.Compare):
                walk(e.left, cond)
                for i_, c_ in enumerate(e.comparators):
                    walk(c_, cond or i_ > 0)  # a chained comparison stops at the first false link
            elif isinstance(e, ast.BoolOp):
                for i_, v_ in enumerate(e.values):
                    walk(v_, cond or i_ > 0)
            elif isinstance(e, ast.IfExp):
                walk(e.test, cond)
                walk(e.body, True)
                walk(e.orelse, True)
            elif isinstance(e, ast.Tuple | ast.List | ast.Set):
                for x in e.elts:
                    walk(x.value if isinstance(x, ast.Starred) else x, cond)
            elif isinstance(e, ast.Dict):
                for k_, v_ in zip(e.keys, e.values):
                    if k_ is not None:
                        walk(k_, cond)
                    walk(v_, cond)
            elif isinstance(e, ast.JoinedStr):
                for x in e.values:
                    walk(x, cond)
            elif isinstance(e, ast.FormattedValue):
                walk(e.value, cond)
                if e.format_spec is not None:
                    walk(e.format_spec, cond)
            else:
                # comprehensions, lambdas, walrus, await, yield: not a place to move an evaluation into or across
                if any(x is use for x in ast.walk(e)):
                    state["bad"] = True
                else:
                    events.append("call")

        walk(root, False)
        if state["bad"] or not state["found"]:
            return None
        has_call = any(isinstance(x, ast.Call) for x in ast.walk(val))
        has_load = any(isinstance(x, ast.Attribute | ast.Subscript) for x in ast.walk(val))
        if has_call:
            # reads of names, and of attributes / items of objects the moved value does not touch (it neither calls them nor is
            # given them): the moved calls cannot rebind what those reads fetch
            touched = {x.id for x in ast.walk(val) if isinstance(x, ast.Name)}
            ok_ = all(ev == "name" or (isinstance(ev, tuple) and ev[1] is not None and ev[1] not in touched) for ev in events)
        elif has_load:
            ok_ = "call" not in events
        else:
            ok_ = not ({x.id for x in ast.walk(val) if isinstance(x, ast.Name)} & set(scoped))
        return ("inner", b, use) if ok_ else None
    return None


def subst_candidates(n):
    """{local name: [(block list, defining Assign, slot)]} for locals of function `n` whose every binding `v = E` is consumed by
    the statement right after it and that nothing else reads."""
    params = {a.arg for a in ast.walk(n.args) if isinstance(a, ast.arg)}
    scoped = {nm for x in ast.walk(n) if isinstance(x, ast.Global | ast.Nonlocal) for nm in x.names}
    stores, reads = {}, {}
    for x in ast.walk(n):
        if isinstance(x, ast.Name):
            (stores if isinstance(x.ctx, ast.Store | ast.Del) else reads).setdefault(x.id, []).append(x)
    pairs = {}
    for blk_owner in ast.walk(n):
        for fld in ("body", "orelse", "finalbody"):
            blk = getattr(blk_owner, fld, None)
            if not (isinstance(blk, list) and blk and isinstance(blk[0], ast.stmt)):
                continue
            for i in range(len(blk) - 1):
                a, b = blk[i], blk[i + 1]
                if not (isinstance(a, ast.Assign) and len(a.targets) == 1 and isinstance(a.targets[0], ast.Name)):
                    continue
                v = a.targets[0].id
                if v in params or v in scoped or isinstance(a.value, ast.Name | ast.Constant):
                    continue
                if any(isinstance(x, ast.NamedExpr | ast.Yield | ast.YieldFrom | ast.Await) for x in ast.walk(a.value)):
                    continue
                if isinstance(a.value, ast.IfExp):
                    continue  # `v = A if c else B; stmt(v)` is split into if/else twins by the normaliser (inline.py), not folded in
                for use in reads.get(v, []):
                    sl = subst_slot(b, use, a.value, scoped)
                    if sl is not None:
                        pairs.setdefault(v, []).append((blk, a, sl))
    return {v: ps for v, ps in pairs.items() if len(ps) == len(stores.get(v, [])) == len(reads.get(v, [])) and len({id(a) for _, a, _ in ps}) == len(ps)}


def apply_subst(ps):
    for blk, a, sl in ps:
        if sl[0] == "inner":
            _, b_, use_ = sl

            class _R(ast.NodeTransformer):
                def visit_Name(self, node):
                    return a.value if node is use_ else node

            for fld_ in ("value", "test", "iter", "exc"):
                if isinstance(getattr(b_, fld_, None), ast.AST):
                    setattr(b_, fld_, _R().visit(getattr(b_, fld_)))
        else:
            _, obj, fld = sl
            setattr(obj, fld, a.value)
        blk[:] = [st for st in blk if st is not a]


def forward_substitute(n):
    """`v = E` followed by the one statement that reads v  ->  that statement with E in place of v, wherever `subst_slot` allows it.
    Naming an intermediate value does not change what is computed; the canonical form has no such temporaries, whatever they are
    called (the pinned tree's own included: the rules are written against the substituted form)."""
    changed = True
    while changed:
        changed = False
        for v, ps in subst_candidates(n).items():
            apply_subst(ps)
            changed = True
            break


class Canon(ast.NodeTransformer):
    """Canonical form applied to every module before analysis, so that behaviour-preserving
    re-spellings give the SAME tree (and therefore the same verdict):
      * comparisons:  b > a  ->  a < b ;  b >= a  ->  a <= b ;  for == != is is-not a constant goes to the
        right, otherwise the operands are ordered by their text;
      * x = x + y / x = x - y  (same target text)  ->  x += y / x -= y ;
      * if not c: A else: B  ->  if c: B else: A   (same for conditional expressions)."""

    FLIP = {ast.Gt: ast.Lt, ast.GtE: ast.LtE}
    SYMM = (ast.Eq, ast.NotEq, ast.Is, ast.IsNot)

    @staticmethod
    def _has_walrus(e):
        return any(isinstance(x, ast.NamedExpr) for x in ast.walk(e))

    def visit_Compare(self, n):
        self.generic_visit(n)
        if len(n.ops) != 1 or self._has_walrus(n):
            return n
        op, l, r = n.ops[0], n.left, n.comparators[0]
        # x in {"a", "b"} / x in ["a", "b"]  ->  x in ("a", "b")    (membership in a literal of constants: the container kind and
        # the order of its elements do not matter)
        if isinstance(op, ast.In | ast.NotIn) and isinstance(r, ast.Set | ast.List) and r.elts and all(isinstance(e, ast.Constant) and isinstance(e.value, str | int | bytes) and not isinstance(e.value, bool) for e in r.elts) and len({type(e.value) for e in r.elts}) == 1:
            n.comparators = [ast.copy_location(ast.Tuple(elts=list(r.elts), ctx=ast.Load()), r)]
            return n
        if type(op) in self.FLIP:
            new = ast.Compare(left=r, ops=[self.FLIP[type(op)]()], comparators=[l])
            return ast.copy_location(new, n)
        if isinstance(op, self.SYMM):
            def is_const(e):
                return isinstance(e, ast.Constant) or (isinstance(e, ast.UnaryOp) and isinstance(e.op, ast.USub) and isinstance(e.operand, ast.Constant))

            lc, rc = is_const(l), is_const(r)
            swap = (lc and not rc) or (not lc and not rc and unparse(l) > unparse(r))
            if swap:
                new = ast.Compare(left=r, ops=[op], comparators=[l])
                return ast.copy_location(new, n)
        return n

    def visit_AnnAssign(self, n):
        self.generic_visit(n)
        # x: T = v  ->  x = v      (the annotation of a local or of an attribute target has no effect on what is computed; class-level
        # annotated assignments are left alone: dataclass fields are declared by them)
        if n.value is not None and isinstance(n.target, ast.Name | ast.Attribute) and self._in_function:
            return self.visit_Assign(ast.copy_location(ast.Assign(targets=[n.target], value=n.value), n))
        return n

    _in_function = 0

    def visit_Assign(self, n):
        self.generic_visit(n)
        # a, b = x, y  ->  a = x ; b = y     when no target is read by a value (not a swap) and the values are simple
        if (
            len(n.targets) == 1 and isinstance(n.targets[0], ast.Tuple) and isinstance(n.value, ast.Tuple)
            and len(n.targets[0].elts) == len(n.value.elts) and len(n.value.elts) >= 2
            and not any(isinstance(e, ast.Starred) for e in [*n.targets[0].elts, *n.value.elts])
            and all(isinstance(t, ast.Name | ast.Attribute) for t in n.targets[0].elts)
        ):
            tgt_txt = [unparse(t) for t in n.targets[0].elts]
            read = {unparse(x) for v in n.value.elts for x in ast.walk(v) if isinstance(x, ast.Name | ast.Attribute)}
            calls = any(isinstance(x, ast.Call | ast.NamedExpr | ast.Yield | ast.Await) for v in n.value.elts for x in ast.walk(v))
            roots = {t.split(".")[0] for t in tgt_txt}
            if len(set(tgt_txt)) == len(tgt_txt) and not (set(tgt_txt) & read) and not (roots & {r for r in read if "." not in r} & set(tgt_txt)) and not calls:
                return [ast.copy_location(ast.Assign(targets=[t], value=v), n) for t, v in zip(n.targets[0].elts, n.value.elts)]
        if len(n.targets) == 1 and isinstance(n.targets[0], ast.Name | ast.Attribute | ast.Subscript) and isinstance(n.value, ast.BinOp) and isinstance(n.value.op, ast.Add | ast.Sub | ast.Mult | ast.BitOr):
            if unparse(n.value.left) == unparse(n.targets[0]):
                new = ast.AugAssign(target=n.targets[0], op=n.value.op, value=n.value.right)
                return ast.copy_location(new, n)
        return n

    @staticmethod
    def _bool_test(t):
        """a conditional expression with a constant truth-value branch, used as a test:  X if C else False -> C and X ;
        True if C else X -> C or X ; False if C else X -> not C and X ; X if C else True -> not C or X"""
        while isinstance(t, ast.IfExp) and not any(isinstance(x, ast.NamedExpr) for x in ast.walk(t)):
            c, a, b = t.test, t.body, t.orelse
            neg = lambda e: e.operand if isinstance(e, ast.UnaryOp) and isinstance(e.op, ast.Not) else ast.copy_location(ast.UnaryOp(op=ast.Not(), operand=e), e)  # noqa: E731
            if isinstance(b, ast.Constant) and b.value is False:
                new = ast.BoolOp(op=ast.And(), values=[c, a])
            elif isinstance(a, ast.Constant) and a.value is True:
                new = ast.BoolOp(op=ast.Or(), values=[c, b])
            elif isinstance(a, ast.Constant) and a.value is False:
                new = ast.BoolOp(op=ast.And(), values=[neg(c), b])
            elif isinstance(b, ast.Constant) and b.value is True:
                new = ast.BoolOp(op=ast.Or(), values=[neg(c), a])
            else:
                break
            t = ast.copy_location(new, t)
        return t

    def visit_If(self, n):
        self.generic_visit(n)
        n.test = self._bool_test(n.test)
        if n.orelse and isinstance(n.test, ast.UnaryOp) and isinstance(n.test.op, ast.Not) and not self._has_walrus(n.test):
            new = ast.If(test=n.test.operand, body=n.orelse, orelse=n.body)
            return ast.copy_location(new, n)
        # if a: (if b: S)   ->   if a and b: S        (neither has an else branch; the inner `if` is the whole body)
        if not n.orelse and len(n.body) == 1 and isinstance(n.body[0], ast.If) and not n.body[0].orelse and not self._has_walrus(n.test) and not self._has_walrus(n.body[0].test):
            inner = n.body[0]
            vals = [*(n.test.values if isinstance(n.test, ast.BoolOp) and isinstance(n.test.op, ast.And) else [n.test]), *(inner.test.values if isinstance(inner.test, ast.BoolOp) and isinstance(inner.test.op, ast.And) else [inner.test])]
            new = ast.If(test=ast.copy_location(ast.BoolOp(op=ast.And(), values=vals), n.test), body=inner.body, orelse=[])
            return ast.copy_location(new, n)
        return n

    def visit_FunctionDef(self, n):
        self._in_function += 1
        try:
            self.generic_visit(n)
        finally:
            self._in_function -= 1
        # for i, x in enumerate(xs[, k]):  ->  for x in xs:      when the index is never read in the function
        loads = {x.id for x in ast.walk(n) if isinstance(x, ast.Name) and isinstance(x.ctx, ast.Load)}
        for f in ast.walk(n):
            if (
                isinstance(f, ast.For) and isinstance(f.iter, ast.Call) and isinstance(f.iter.func, ast.Name) and f.iter.func.id == "enumerate"
                and 1 <= len(f.iter.args) <= 2 and not f.iter.keywords or
                isinstance(f, ast.For) and isinstance(f.iter, ast.Call) and isinstance(f.iter.func, ast.Name) and f.iter.func.id == "enumerate"
                and len(f.iter.args) == 1 and len(f.iter.keywords) == 1 and f.iter.keywords[0].arg == "start"
            ):
                if isinstance(f.target, ast.Tuple) and len(f.target.elts) == 2 and isinstance(f.target.elts[0], ast.Name) and f.target.elts[0].id not in loads and not isinstance(f.iter.args[0], ast.Starred):
                    f.target = f.target.elts[1]
                    f.iter = f.iter.args[0]
        # v = E ; <statement that reads v once>   ->   the statement with E in place of v      (see forward_substitute)
        forward_substitute(n)
        return n

    visit_AsyncFunctionDef = visit_FunctionDef

    def visit_While(self, n):
        # while A: (if C: break); REST   ->   while A and not C: REST      (no else clause: a break would skip it)
        self.generic_visit(n)
        n.test = self._bool_test(n.test)
        while (
            not n.orelse and n.body and isinstance(n.body[0], ast.If) and not n.body[0].orelse
            and len(n.body[0].body) == 1 and isinstance(n.body[0].body[0], ast.Break) and len(n.body) > 1
            and not self._has_walrus(n.body[0].test) and not self._has_walrus(n.test)
        ):
            c = n.body[0].test
            neg = c.operand if isinstance(c, ast.UnaryOp) and isinstance(c.op, ast.Not) else ast.copy_location(ast.UnaryOp(op=ast.Not(), operand=c), c)
            if isinstance(n.test, ast.Constant) and n.test.value is True:
                n.test = neg
            else:
                vals = [*n.test.values, neg] if isinstance(n.test, ast.BoolOp) and isinstance(n.test.op, ast.And) else [n.test, neg]
                n.test = ast.copy_location(ast.BoolOp(op=ast.And(), values=vals), n.test)
            n.body = n.body[1:]
        return n

    def visit_Return(self, n):
        self.generic_visit(n)
        # return A if c else B  ->  if c: return A  else: return B   (so that path rules see both exits)
        if isinstance(n.value, ast.IfExp) and not self._has_walrus(n.value.test):
            t = n.value
            new = ast.If(test=t.test, body=[ast.copy_location(ast.Return(value=t.body), n)], orelse=[ast.copy_location(ast.Return(value=t.orelse), n)])
            return ast.copy_location(new, n)
        return n

    def visit_Call(self, n):
        self.generic_visit(n)
        # reversed(range(N)) -> range(N - 1, -1, -1) ;  reversed(range(A, B)) -> range(B - 1, A - 1, -1)   (unit step only)
        if isinstance(n.func, ast.Name) and n.func.id == "reversed" and len(n.args) == 1 and not n.keywords:
            r = n.args[0]
            if isinstance(r, ast.Call) and isinstance(r.func, ast.Name) and r.func.id == "range" and not r.keywords and 1 <= len(r.args) <= 2 and not any(isinstance(a, ast.Starred) for a in r.args):
                lo, hi = (ast.Constant(0), r.args[0]) if len(r.args) == 1 else r.args

                def minus1(e):
                    if isinstance(e, ast.Constant) and isinstance(e.value, int) and not isinstance(e.value, bool):
                        return ast.Constant(e.value - 1) if e.value - 1 >= 0 else ast.UnaryOp(op=ast.USub(), operand=ast.Constant(1 - e.value))
                    if isinstance(e, ast.BinOp) and isinstance(e.op, ast.Add) and isinstance(e.right, ast.Constant) and e.right.value == 1:
                        return e.left
                    if isinstance(e, ast.BinOp) and isinstance(e.op, ast.Add) and isinstance(e.left, ast.Constant) and e.left.value == 1:
                        return e.right
                    return ast.BinOp(left=e, op=ast.Sub(), right=ast.Constant(1))

                new = ast.Call(func=ast.Name(id="range", ctx=ast.Load()), args=[minus1(hi), minus1(lo), ast.UnaryOp(op=ast.USub(), operand=ast.Constant(1))], keywords=[])
                return ast.fix_missing_locations(ast.copy_location(new, n))
        # "lit{}lit{}".format(a, b)  ->  f"lit{a}lit{b}"      (plain positional fields only: same text by definition of format())
        if isinstance(n.func, ast.Attribute) and n.func.attr == "format" and isinstance(n.func.value, ast.Constant) and isinstance(n.func.value.value, str) and not n.keywords and not any(isinstance(a, ast.Starred) for a in n.args):
            tmpl = n.func.value.value
            import string as _string

            try:
                parts = list(_string.Formatter().parse(tmpl))
            except ValueError:
                return n
            if all(fld in (None, "") and (spec in (None, "")) and conv is None for _, fld, spec, conv in parts) and sum(1 for _, fld, _, _ in parts if fld == "") == len(n.args):
                vals, k = [], 0
                for lit, fld, _spec, _conv in parts:
                    if lit:
                        vals.append(ast.Constant(lit))
                    if fld == "":
                        vals.append(ast.FormattedValue(value=n.args[k], conversion=-1, format_spec=None))
                        k += 1
                return ast.fix_missing_locations(ast.copy_location(ast.JoinedStr(values=vals), n))
        return n

    def visit_IfExp(self, n):
        self.generic_visit(n)
        if isinstance(n.test, ast.UnaryOp) and isinstance(n.test.op, ast.Not):
            new = ast.IfExp(test=n.test.operand, body=n.orelse, orelse=n.body)
            return ast.copy_location(new, n)
        return n


# ast reuses one instance of these per interpreter: never hang per-tree attributes on them
_SINGLETONS = (ast.expr_context, ast.operator, ast.unaryop, ast.cmpop, ast.boolop)


class Module:
    def __init__(self, name, path, relpath, source):
        self.name = name
        self.path = path
        self.relpath = relpath
        self.source = source
        self.tree = ast.fix_missing_locations(Canon().visit(ast.parse(source, filename=str(path))))
        from .inline import desugar_match, inline_compiled_regexes, inline_new_helpers, normalise_idioms, normalise_map_calls

        self.idioms = desugar_match(self.tree) + normalise_map_calls(self.tree) + normalise_idioms(self.tree) + inline_compiled_regexes(self.tree)

        try:
            self.inlined = inline_new_helpers(self.tree, name)
        except RecursionError:
            self.inlined = []
        if self.inlined:
            # forms exposed by inlining: the canonical form once more (conditions like `X if C else False` from a helper's
            # decision tree, temporaries of the inlined body), then the idioms (renaming walrus, get-or-create ...)
            self.tree = Canon().visit(self.tree)
            self.idioms += normalise_idioms(self.tree)
            ast.fix_missing_locations(self.tree)
        self.imports: dict[str, str] = {}
        self.functions: dict[str, Func] = {}
        self.classes: dict[str, Class] = {}
        self.assigns: dict[str, ast.AST] = {}

    def __repr__(self):
        return f"<Module {self.name}>"


class Class:
    def __init__(self, qualname, node, module):
        self.qualname = qualname
        self.name = node.name
        self.node = node
        self.module = module
        self.base_names: list[str] = []
        self.bases: list[Class] = []
        self.methods: dict[str, Func] = {}
        self.attrs: dict[str, ast.AST] = {}
        self.subclasses: list[Class] = []

    def __repr__(self):
        return f"<Class {self.qualname}>"


class Func:
    def __init__(self, qualname, node, module, cls=None, parent=None):
        self.qualname = qualname
        self.name = node.name
        self.node = node
        self.module = module
        self.cls = cls
        self.parent = parent
        self.nested: dict[str, Func] = {}
        self.decorators = [norm(d) for d in node.decorator_list]

    @property
    def is_property(self):
        return any(d == "property" or d.endswith("cached_property") for d in self.decorators)

    @property
    def is_setter(self):
        return any(d.endswith(".setter") for d in self.decorators)

    @property
    def is_static(self):
        return "staticmethod" in self.decorators

    @property
    def is_classmethod(self):
        return "classmethod" in self.decorators

    @property
    def short(self):
        parts = self.qualname.split(".")
        # drop the module path
        n = len(self.module.name.split("."))
        return ".".join(parts[n:])

    def loc(self, node=None):
        node = node or self.node
        return f"{self.module.relpath}:{getattr(node, 'lineno', '?')}"

    def params(self):
        a = self.node.args
        return [x.arg for x in (*a.posonlyargs, *a.args, *a.kwonlyargs)]

    def __repr__(self):
        return f"<Func {self.qualname}>"


FORBIDDEN_DYNAMIC = {
    "exec",
    "eval",
    "setattr",
    "delattr",
    "globals",
    "__import__",
    "compile",
}


class Repo:
    """The analysed program."""

    def __init__(self, root="/repo", package_dir="src"):
        self.root = Path(root)
        self.src = self.root / package_dir
        if not (self.src / "tola").is_dir():
            raise AnalysisError(f"no package under {self.src}/tola")
        self.modules: dict[str, Module] = {}
        self.functions: dict[str, Func] = {}
        self.classes: dict[str, Class] = {}
        self._calls_cache = {}
        self._callers = None
        self._load()
        self._link()

    # ----------------------------------------------------------------- loading

    def _load(self):
        for path in sorted(self.src.rglob("*.py")):
            rel = path.relative_to(self.src)
            parts = list(rel.with_suffix("").parts)
            if parts[-1] == "__init__":
                parts.pop()
            modname = ".".join(parts)
            try:
                source = path.read_text()
                mod = Module(modname, path, str(path.relative_to(self.root)), source)
            except SyntaxError as e:
                raise AnalysisError(f"cannot parse {path}: {e}") from e
            self.modules[modname] = mod
            for n in ast.walk(mod.tree):
                for c in ast.iter_child_nodes(n):
                    if not isinstance(c, _SINGLETONS):
                        c._parent = n
            mod.tree._parent = None
            self._index_module(mod)

    def _index_module(self, mod: Module):
        for node in mod.tree.body:
            self._index_stmt(node, mod, None, None, mod.name)
        for node in ast.walk(mod.tree):
            if isinstance(node, ast.Import):
                for a in node.names:
                    mod.imports[a.asname or a.name.split(".")[0]] = (
                        a.name if a.asname else a.name.split(".")[0]
                    )
            elif isinstance(node, ast.ImportFrom):
                base = node.module or ""
                if node.level:
                    pkg = mod.name.split(".")[: -node.level]
                    base = ".".join([*pkg, base]) if base else ".".join(pkg)
                for a in node.names:
                    mod.imports[a.asname or a.name] = f"{base}.{a.name}"

    def _index_stmt(self, node, mod, cls, parent_func, prefix):
        if isinstance(node, ast.FunctionDef | ast.AsyncFunctionDef):
            qn = f"{prefix}.{node.name}"
            f = Func(qn, node, mod, cls=cls, parent=parent_func)
            # property setters share a name with the getter: keep both
            key = qn
            if f.is_setter:
                key = qn + ".setter"
                f.qualname = key
            self.functions[key] = f
            if cls is not None and parent_func is None:
                if f.is_setter:
                    cls.methods[node.name + ".setter"] = f
                else:
                    cls.methods[node.name] = f
            elif parent_func is not None:
                parent_func.nested[node.name] = f
            else:
                mod.functions[node.name] = f
            for n in ast.walk(node):
                if not isinstance(n, _SINGLETONS):
                    n._func = getattr(n, "_func", None) or None
            for sub in self._nested_defs(node):
                self._index_stmt(sub, mod, None, f, qn)
        elif isinstance(node, ast.ClassDef):
            qn = f"{prefix}.{node.name}"
            c = Class(qn, node, mod)
            c.base_names = [dotted(b) or norm(b) for b in node.bases]
            self.classes[qn] = c
            mod.classes[node.name] = c
            for sub in node.body:
                if isinstance(sub, ast.Assign) and len(sub.targets) == 1:
                    if isinstance(sub.targets[0], ast.Name):
                        c.attrs[sub.targets[0].id] = sub.value
                elif isinstance(sub, ast.AnnAssign) and isinstance(sub.target, ast.Name):
                    if sub.value is not None:
                        c.attrs[sub.target.id] = sub.value
                self._index_stmt(sub, mod, c, None, qn)
        elif isinstance(node, ast.Assign) and cls is None and parent_func is None:
            for t in node.targets:
                if isinstance(t, ast.Name):
                    mod.assigns[t.id] = node.value
        elif isinstance(node, ast.If | ast.Try | ast.With) and cls is None and parent_func is None:
            for sub in ast.iter_child_nodes(node):
                if isinstance(sub, ast.stmt):
                    self._index_stmt(sub, mod, cls, parent_func, prefix)

    @staticmethod
    def _nested_defs(fnode):
        out = []
        stack = list(fnode.body)
        while stack:
            n = stack.pop(0)
            if isinstance(n, ast.FunctionDef | ast.AsyncFunctionDef | ast.ClassDef):
                out.append(n)
                continue
            for c in ast.iter_child_nodes(n):
                if isinstance(c, ast.stmt) or isinstance(c, ast.ExceptHandler):
                    stack.append(c)
        return out

    def _drop_dead_inlined_helpers(self):
        """A helper added after the pinned inventory whose every call was inlined is accounted for at
        its call sites: remove its definition from the tables so that scans do not see it twice."""
        names = {q for m in self.modules.values() for q in getattr(m, "inlined", [])}
        for q in sorted(names):
            f = self.functions.get(q)
            if f is None:
                continue
            still_called = False
            for g in self.functions.values():
                if g is f:
                    continue
                for n in walk_shallow(g.node):
                    if isinstance(n, ast.Call) and ((isinstance(n.func, ast.Attribute) and n.func.attr == f.name) or (isinstance(n.func, ast.Name) and n.func.id == f.name)):
                        still_called = True
                    if isinstance(n, ast.Name | ast.Attribute) and not isinstance(getattr(n, "_parent", None), ast.Call) and (getattr(n, "id", None) == f.name or getattr(n, "attr", None) == f.name):
                        still_called = True
            if not still_called:
                del self.functions[q]
                if f.cls is not None:
                    f.cls.methods.pop(f.name, None)
                else:
                    f.module.functions.pop(f.name, None)
                self.dropped_helpers = getattr(self, "dropped_helpers", []) + [q]

    def _link(self):
        self._drop_dead_inlined_helpers()
        for c in self.classes.values():
            for b in c.base_names:
                tgt = self.resolve_dotted(c.module, b)
                if isinstance(tgt, Class):
                    c.bases.append(tgt)
                    tgt.subclasses.append(c)
        # owner function of every node
        for f in self.functions.values():
            for n in walk_shallow(f.node):
                if not isinstance(n, _SINGLETONS):
                    n._func = f
            f.node._func_self = f
        self._propagate_new_aliases()
        self._positionalise_new_keywords()

    def _positionalise_new_keywords(self):
        """`f(a, y=b)` -> `f(a, b)` for an argument passed by keyword where the pinned tree passes it by position (baseline key
        "call_keywords" lists the (caller, callee name, keyword) triples the pinned tree has): the callee resolves to one function
        of the package, `y` names the next positional parameter and is the first keyword of the call, so the order in which the
        arguments are evaluated stays the same."""
        import json as _json
        from pathlib import Path as _P

        try:
            base = _json.loads(_P(__file__).with_name("baseline_functions.json").read_text()).get("call_keywords")
        except Exception:
            base = None
        self.positionalised = []
        if base is None:
            return
        base = {tuple(x) for x in base}
        for f in list(self.functions.values()):
            for call in [n for n in walk_shallow(f.node) if isinstance(n, ast.Call) and n.keywords]:
                cname = call.func.attr if isinstance(call.func, ast.Attribute) else call.func.id if isinstance(call.func, ast.Name) else None
                if cname is None or any(isinstance(a, ast.Starred) for a in call.args) or any(k.arg is None for k in call.keywords):
                    continue
                try:
                    targets, _, _ = self.resolve_call(call, f)
                except AnalysisError:
                    continue
                # constructor calls resolve to __init__ and __new__: the parameter list is __init__'s
                targets = [t for t in targets if t.name != "__new__"] or targets
                if len(targets) != 1:
                    continue
                t = targets[0]
                a = t.node.args
                if a.vararg is not None or a.posonlyargs:
                    continue
                names = [x.arg for x in a.args]
                bound = t.cls is not None and not t.is_static and t.parent is None
                if bound and names:
                    names = names[1:]
                while call.keywords and len(call.args) < len(names) and call.keywords[0].arg == names[len(call.args)] and (f.qualname, cname, call.keywords[0].arg) not in base:
                    k = call.keywords.pop(0)
                    call.args.append(k.value)
                    self.positionalised.append((f.qualname, cname, k.arg))
        self._calls_cache.clear() if hasattr(self, "_calls_cache") else None

    def _propagate_new_aliases(self):
        """`v = <name>.<attr>...` introduced after the pinned inventory (baseline_functions.json, key "aliases") is
        substituted away when that is semantics preserving: v and the root name are bound once, every attribute of the
        chain is plain data (no property/method of any class has that name), nothing in the function stores to an
        attribute of that name, and no function reachable from the function's calls does (constructors excepted: they
        initialise a fresh object).  The rules then see `self.rows.pop(0)` for `rows = self.rows; rows.pop(0)`."""
        import copy
        import json as _json
        from pathlib import Path as _P

        try:
            base = {tuple(x) for x in _json.loads(_P(__file__).with_name("baseline_functions.json").read_text()).get("aliases", None)}
        except Exception:
            return
        self.propagated_aliases = []
        member_names = set()
        for c in self.classes.values():
            member_names.update(k.split(".")[0] for k in c.methods)
        storers: dict[str, set[str]] = {}
        for g in self.functions.values():
            if g.name == "__init__":
                continue
            for n in walk_shallow(g.node):
                if isinstance(n, ast.Attribute) and isinstance(n.ctx, ast.Store | ast.Del):
                    storers.setdefault(n.attr, set()).add(g.qualname)
        reach_cache = {}

        def reaches_storer(f, attr):
            bad = storers.get(attr, set())
            if not bad:
                return False
            if f.qualname not in reach_cache:
                roots = []
                for c in self.calls_in(f):
                    try:
                        roots.extend(self.resolve_call(c, f)[0])
                    except AnalysisError:
                        pass
                reach_cache[f.qualname] = set(self.reachable_from(roots)) if roots else set()
            return bool(reach_cache[f.qualname] & bad)

        def chain(e):
            attrs = []
            while isinstance(e, ast.Attribute):
                attrs.append(e.attr)
                e = e.value
            return (e.id, attrs) if isinstance(e, ast.Name) and attrs else None

        for f in list(self.functions.values()):
            changed = True
            while changed:
                changed = False
                body = f.node.body
                for idx, st in enumerate(body):
                    if not (isinstance(st, ast.Assign) and len(st.targets) == 1 and isinstance(st.targets[0], ast.Name)):
                        continue
                    ch = chain(st.value)
                    if ch is None or (f.qualname, norm(st)) in base:
                        continue
                    v, (r, attrs) = st.targets[0].id, ch
                    if r == v:
                        continue
                    allnodes = list(ast.walk(f.node))
                    if any(isinstance(n, ast.Global | ast.Nonlocal) for n in allnodes):
                        continue
                    v_stores = [n for n in allnodes if isinstance(n, ast.Name) and n.id == v and isinstance(n.ctx, ast.Store | ast.Del)]
                    if len(v_stores) != 1:
                        continue
                    r_stores = [n for n in allnodes if isinstance(n, ast.Name) and n.id == r and isinstance(n.ctx, ast.Store | ast.Del)]
                    params = {a.arg for a in [*f.node.args.posonlyargs, *f.node.args.args, *f.node.args.kwonlyargs]}
                    if r in params:
                        if r_stores:
                            continue
                    else:
                        # a local bound once by an earlier top-level statement
                        if len(r_stores) != 1 or not any(r_stores[0] in ast.walk(b) for b in body[:idx] if isinstance(b, ast.Assign)):
                            continue
                    if any(a in member_names for a in attrs):
                        continue
                    if any(isinstance(n, ast.Attribute) and n.attr in attrs and isinstance(n.ctx, ast.Store | ast.Del) for n in allnodes):
                        continue
                    if any(reaches_storer(f, a) for a in attrs):
                        continue
                    later = {id(n) for b in body[idx + 1:] for n in ast.walk(b)}
                    uses = [n for n in allnodes if isinstance(n, ast.Name) and n.id == v and isinstance(n.ctx, ast.Load)]
                    if not uses or any(id(n) not in later for n in uses):
                        continue

                    class _Sub(ast.NodeTransformer):
                        def visit_Name(self_, n):
                            if n.id == v and isinstance(n.ctx, ast.Load):
                                new = ast.copy_location(ast.Name(id=r, ctx=ast.Load()), n)
                                for a in reversed(attrs):
                                    new = ast.copy_location(ast.Attribute(value=new, attr=a, ctx=ast.Load()), n)
                                return new
                            return n

                    for k in range(idx + 1, len(body)):
                        body[k] = _Sub().visit(body[k])
                    del body[idx]
                    for n in ast.walk(f.node):
                        for c in ast.iter_child_nodes(n):
                            if not isinstance(c, _SINGLETONS):
                                c._parent = n
                    for n in walk_shallow(f.node):
                        if not isinstance(n, _SINGLETONS):
                            n._func = f
                    self._calls_cache.pop(f.qualname, None)
                    self._callers = None
                    self.propagated_aliases.append((f.qualname, norm(st)))
                    changed = True
                    break

    # ----------------------------------------------------------------- lookup

    def resolve_dotted(self, mod: Module, name: str):
        """Resolve a dotted name used in `mod` to a Class/Func/Module of the repo,
        or to the external dotted string."""
        head, _, rest = name.partition(".")
        if head in mod.classes and not rest:
            return mod.classes[head]
        if head in mod.functions and not rest:
            return mod.functions[head]
        if head in mod.classes and rest:
            c = mod.classes[head]
            return self.find_method(c, rest) or f"{c.qualname}.{rest}"
        target = mod.imports.get(head)
        if target is None:
            return name
        full = f"{target}.{rest}" if rest else target
        if full in self.classes:
            return self.classes[full]
        if full in self.functions:
            return self.functions[full]
        if full in self.modules:
            return self.modules[full]
        # Class.method through an imported class
        base, _, last = full.rpartition(".")
        if base in self.classes:
            return self.find_method(self.classes[base], last) or full
        if base in self.modules:
            m = self.modules[base]
            # re-exported name (e.g. find_overlaps imports from asm_format)
            if last in m.imports:
                return self.resolve_dotted(m, last)
        return full

    def mro(self, cls: Class) -> list[Class]:
        out, seen = [], set()

        def rec(c):
            if c.qualname in seen:
                return
            seen.add(c.qualname)
            out.append(c)
            for b in c.bases:
                rec(b)

        rec(cls)
        return out

    def all_subclasses(self, cls: Class) -> list[Class]:
        out = []
        stack = list(cls.subclasses)
        while stack:
            c = stack.pop()
            out.append(c)
            stack.extend(c.subclasses)
        return out

    def find_method(self, cls: Class, name: str) -> Func | None:
        for c in self.mro(cls):
            if name in c.methods:
                return c.methods[name]
        return None

    def find_class_attr(self, cls: Class, name: str):
        for c in self.mro(cls):
            if name in c.attrs:
                return c.attrs[name]
        return None

    def cls(self, name: str) -> Class:
        hits = [c for q, c in self.classes.items() if q == name or q.endswith("." + name)]
        if len(hits) != 1:
            raise AnalysisError(f"anchor class '{name}' resolves to {len(hits)} classes")
        return hits[0]

    def func(self, name: str, module: str | None = None) -> Func:
        hits = [
            f
            for q, f in self.functions.items()
            if (q == name or q.endswith("." + name))
            and (module is None or f.module.name == module or f.module.name.endswith("." + module))
        ]
        if len(hits) != 1:
            where = f" in {module}" if module else ""
            raise AnalysisError(f"anchor function '{name}'{where} resolves to {len(hits)} functions")
        return hits[0]

    def try_func(self, name, module=None):
        try:
            return self.func(name, module)
        except AnalysisError:
            return None

    def owner(self, node) -> Func | None:
        n = node
        while n is not None:
            if isinstance(n, ast.FunctionDef | ast.AsyncFunctionDef) and hasattr(n, "_func_self"):
                if n is not node:
                    return n._func_self
            n = getattr(n, "_parent", None)
        return None

    # ----------------------------------------------------------------- typing

    def infer_class(self, expr, func: Func, depth=0) -> Class | None:
        """Cheap receiver typing: self, annotated params, constructor results,
        attributes assigned from constructors in __init__."""
        if depth > 4:
            return None
        if isinstance(expr, ast.Name):
            if expr.id == "self" and func.cls is not None:
                return func.cls
            if expr.id == "cls" and func.cls is not None and func.is_classmethod:
                return func.cls
            # annotated parameter
            a = func.node.args
            for p in (*a.posonlyargs, *a.args, *a.kwonlyargs):
                if p.arg == expr.id and p.annotation is not None:
                    t = self._class_of_annotation(p.annotation, func.module)
                    if t:
                        return t
            # single assignment from a constructor / typed expression
            cands = []
            for n in walk_shallow(func.node):
                tgt = val = None
                if isinstance(n, ast.Assign) and len(n.targets) == 1:
                    tgt, val = n.targets[0], n.value
                elif isinstance(n, ast.NamedExpr):
                    tgt, val = n.target, n.value
                elif isinstance(n, ast.AnnAssign) and n.value is not None:
                    tgt, val = n.target, n.value
                if isinstance(tgt, ast.Name) and tgt.id == expr.id:
                    cands.append(val)
            types = {self.infer_class(v, func, depth + 1) for v in cands}
            types.discard(None)
            if len(types) == 1 and cands:
                return types.pop()
            return None
        if isinstance(expr, ast.Call):
            tgt = self.resolve_callee_static(expr, func)
            if isinstance(tgt, Class):
                return tgt
            if isinstance(tgt, Func) and tgt.node.returns is not None:
                return self._class_of_annotation(tgt.node.returns, tgt.module)
            # x.__class__(...) -> class of x
            if (
                isinstance(expr.func, ast.Attribute)
                and expr.func.attr == "__class__"
            ):
                return self.infer_class(expr.func.value, func, depth + 1)
            return None
        if isinstance(expr, ast.Attribute):
            base = self.infer_class(expr.value, func, depth + 1)
            if base is not None:
                return self._attr_class(base, expr.attr)
            return None
        return None

    def _class_of_annotation(self, ann, mod):
        d = dotted(ann)
        if d:
            t = self.resolve_dotted(mod, d)
            if isinstance(t, Class):
                return t
        return None

    def _attr_class(self, cls: Class, attr: str) -> Class | None:
        for c in self.mro(cls):
            init = c.methods.get("__init__")
            if init is None:
                continue
            for n in walk_shallow(init.node):
                if (
                    isinstance(n, ast.Assign)
                    and len(n.targets) == 1
                    and isinstance(n.targets[0], ast.Attribute)
                    and is_name(n.targets[0].value, "self")
                    and n.targets[0].attr == attr
                ):
                    t = self.infer_class(n.value, init, 1)
                    if t:
                        return t
        return None

    # ----------------------------------------------------------------- calls

    def resolve_callee_static(self, call: ast.Call, func: Func):
        """Resolve a Name/dotted callee to a Class/Func/external string, or None."""
        f = call.func
        if isinstance(f, ast.Name):
            # nested function of an enclosing function
            p = func
            while p is not None:
                if f.id in p.nested:
                    return p.nested[f.id]
                p = p.parent
            return self.resolve_dotted(func.module, f.id)
        d = dotted(f)
        if d and not d.startswith(("self.", "cls.")):
            head = d.split(".")[0]
            if head in func.module.imports or head in func.module.classes:
                return self.resolve_dotted(func.module, d)
        return None

    def resolve_call(self, call: ast.Call, func: Func) -> tuple[list[Func], str | None, bool]:
        """-> (repo targets, external dotted name or None, precise?)."""
        f = call.func
        tgt = self.resolve_callee_static(call, func)
        if isinstance(tgt, Class):
            init = self.find_method(tgt, "__init__")
            new = self.find_method(tgt, "__new__")
            return [m for m in (init, new) if m], None, True
        if isinstance(tgt, Func):
            return [tgt], None, True
        if isinstance(tgt, str) and not isinstance(f, ast.Attribute):
            return [], tgt, True
        if isinstance(tgt, str) and isinstance(f, ast.Attribute):
            head = tgt.split(".")[0]
            if head in func.module.imports.values() or head in ("os", "sys", "re", "logging"):
                return [], tgt, True
        if isinstance(f, ast.Attribute):
            # super().m(...)
            if (
                isinstance(f.value, ast.Call)
                and is_name(f.value.func, "super")
                and func.cls is not None
            ):
                for c in self.mro(func.cls)[1:]:
                    if f.attr in c.methods:
                        return [c.methods[f.attr]], None, True
                return [], f"super().{f.attr}", True
            rc = self.infer_class(f.value, func)
            if rc is not None:
                out = []
                m = self.find_method(rc, f.attr)
                if m:
                    out.append(m)
                for sc in self.all_subclasses(rc):
                    if f.attr in sc.methods and sc.methods[f.attr] not in out:
                        out.append(sc.methods[f.attr])
                if out:
                    return out, None, True
                return [], f"{rc.qualname}.{f.attr}", True
            # class-hierarchy by method name (over-approximation)
            out = [
                c.methods[f.attr]
                for c in self.classes.values()
                if f.attr in c.methods and not c.methods[f.attr].is_property
            ]
            return out, (None if out else f"?.{f.attr}"), False
        return [], None, False

    def calls_in(self, func: Func) -> list[ast.Call]:
        if func.qualname not in self._calls_cache:
            self._calls_cache[func.qualname] = sorted(
                (n for n in walk_shallow(func.node) if isinstance(n, ast.Call)),
                key=lambda n: (n.lineno, n.col_offset),
            )
        return self._calls_cache[func.qualname]

    def callers_of(self, target: Func) -> list[tuple[Func, ast.Call]]:
        if self._callers is None:
            self._callers = {}
            for f in self.functions.values():
                for c in self.calls_in(f):
                    for t in self.resolve_call(c, f)[0]:
                        self._callers.setdefault(t.qualname, []).append((f, c))
        return self._callers.get(target.qualname, [])

    def property_readers(self, prop: Func) -> list[tuple[Func, ast.Attribute]]:
        out = []
        for f in self.functions.values():
            for n in walk_shallow(f.node):
                if isinstance(n, ast.Attribute) and n.attr == prop.name and isinstance(n.ctx, ast.Load):
                    out.append((f, n))
        return out

    def reachable_from(self, roots: list[Func], include_properties=True) -> dict[str, Func]:
        """Transitive closure over the resolved call graph (plus nested functions,
        properties read by attribute name, and functions passed as values)."""
        seen: dict[str, Func] = {}
        stack = list(roots)
        props = {}
        if include_properties:
            for f in self.functions.values():
                if f.is_property and f.cls is not None:
                    props.setdefault(f.name, []).append(f)
        while stack:
            f = stack.pop()
            if f.qualname in seen:
                continue
            seen[f.qualname] = f
            for c in self.calls_in(f):
                stack.extend(self.resolve_call(c, f)[0])
            stack.extend(f.nested.values())
            for n in walk_shallow(f.node):
                if isinstance(n, ast.Attribute) and isinstance(n.ctx, ast.Load):
                    if n.attr in props:
                        stack.extend(props[n.attr])
                    # bound method passed as a value (self.check_x in a tuple)
                    if is_name(n.value, "self") and f.cls is not None:
                        m = self.find_method(f.cls, n.attr)
                        if m and not isinstance(getattr(n, "_parent", None), ast.Call):
                            stack.append(m)
                elif isinstance(n, ast.Name) and isinstance(n.ctx, ast.Load):
                    p = f
                    while p is not None:
                        if n.id in p.nested:
                            stack.append(p.nested[n.id])
                        p = p.parent
        return seen

    def entry_points(self) -> dict[str, Func]:
        """[project.scripts] of pyproject.toml -> Func."""
        import tomllib

        out = {}
        pp = self.root / "pyproject.toml"
        if pp.exists():
            data = tomllib.loads(pp.read_text())
            for name, target in data.get("project", {}).get("scripts", {}).items():
                modname, _, fn = target.partition(":")
                m = self.modules.get(modname)
                if m and fn in m.functions:
                    out[name] = m.functions[fn]
        return out

    # ----------------------------------------------------------------- guards

    def closed_world_guard(self):
        """Refuse to analyse a program that defeats static resolution."""
        bad = []
        for mod in self.modules.values():
            for n in ast.walk(mod.tree):
                if isinstance(n, ast.Call):
                    d = dotted(n.func)
                    if d in FORBIDDEN_DYNAMIC or (d or "").startswith("importlib"):
                        bad.append(f"{mod.relpath}:{n.lineno} {d}()")
                # monkey-patching a class of the program: Class.attr = ...
                if isinstance(n, ast.Assign | ast.AugAssign):
                    tgts = n.targets if isinstance(n, ast.Assign) else [n.target]
                    for t in tgts:
                        if isinstance(t, ast.Attribute) and isinstance(t.value, ast.Name):
                            r = self.resolve_dotted(mod, t.value.id)
                            if isinstance(r, Class) and t.value.id not in ("self", "cls"):
                                f = self.owner(n)
                                bad.append(f"{mod.relpath}:{n.lineno} assignment to {norm(t)}")
        if bad:
            raise AnalysisError("closed-world assumption violated: " + "; ".join(bad))

    def digest(self) -> str:
        h = hashlib.sha256()
        for name in sorted(self.modules):
            h.update(name.encode())
            h.update(self.modules[name].source.encode())
        return h.hexdigest()[:16]

    def stats(self) -> dict:
        ncalls = nres = 0
        for f in self.functions.values():
            for c in self.calls_in(f):
                ncalls += 1
                t, ext, precise = self.resolve_call(c, f)
                if precise:
                    nres += 1
        return {
            "modules": len(self.modules),
            "functions": len(self.functions),
            "classes": len(self.classes),
            "call_sites": ncalls,
            "call_sites_resolved_precisely": nres,
        }
