"""Trust region of the shape-matching rules.

Most rules of this checker were written against — and their instances confirmed by reading — the functions of the pinned tree.
They stay exact under local edits of those functions (that is what the seeded changes exercise), but a function that has been
*rewritten* (other control flow, other intermediate data, other callees) is no longer the construct the rule was confirmed on: a
mismatch between such code and the rule's expectation is not evidence of a defect.  Every finding is therefore attributed to the
function it lies in, that function's statement skeleton is compared with the skeleton recorded for it on the pinned tree
(`sa/baseline_functions.json`, key `skeletons`), and when the function has drifted beyond the trust region only rules that are
*form-independent* — decided by evaluating what the code computes (constant propagation on probe inputs, event-trace typestates,
value flow, memo-invalidation completeness, flag-word folding), not by matching how it is written — may still refute.  All other
findings in such a function become "no verdict" (exit 2), never "holds".
"""
from __future__ import annotations

import ast
import difflib
import json
import re

from .inline import BASELINE

# drift = 1 - similarity ratio of the two skeletons (tokens carry the nesting depth); edit = number of statements added or
# removed (depth ignored).  Tiny functions change their ratio wildly with one statement, so both must be exceeded.
MAX_DRIFT = 0.25
MIN_EDIT = 4

# rule instances decided by what the code computes, not by its shape ("PROP.RULE construct" is matched)
FORM_INDEPENDENT = [
    r"^C01\.R2 ",  # who may remove rows: call-graph rule, independent of how the caller is written
    r"^C04\.R1 ",  # payload / line width: constant propagation on probe lines
    r"^C04\.R6 .*:(terminator-width|record-name)$",  # constant propagation on probe header lines
    r"^C04\.R4 .*:counter-outside-flush$",  # path rule on the counter invariant
    r"^C13\.R6 ",
    r"^C05\.T9 .*:reader-round-trip$",  # constant propagation through the reader loop
    r"^C06\.O8 ",  # plain sum / memo-invalidation completeness
    r"^C07\.R6 ",  # emptiness facts on every path to the fuse call
    r"^C10\.R5 ",  # typestate over event traces
    r"^C12\.R7 ",  # rows consulted by kind and length only
    r"^C13\.R2 .*:empties$",  # bounded write-back by path conditions
    r"^C14\.R2 ",  # probes covering every byte value
    r"^C14\.R4 .*:memo$",
    r"^C15\.R2 ",  # freshness facts on every accepting path; nofollow; running max
    r"^C15\.R4 ",  # publication typestate: what is opened for writing, what is renamed onto what, in which order
    r"^C16\.R2 ",  # open modes / flag words folded under each flag value
    r"^C16\.R1 .*:write_(text|bytes)@",  # an output path written in one call, outside the output-handle function: no mode to fold, no guard to find
    r"^C17\.R2 ",  # value flow
    r"^C17\.R3 .*:reads-files$",
    r"^C18\.R6 .*:memo$",
    r"^C19\.R[12] ",  # order-region decision of the predicates
]
_FI = [re.compile(p) for p in FORM_INDEPENDENT]


def skeleton(fnode) -> list[str]:
    """Statement skeleton of a function: one token per statement (nesting depth, statement kind, name of the outermost call of an
    expression / assignment / return statement); docstrings and nested definitions' bodies are left out."""
    toks: list[str] = []

    def call_name(e):
        if isinstance(e, ast.Call):
            f = e.func
            return f.attr if isinstance(f, ast.Attribute) else f.id if isinstance(f, ast.Name) else "?"
        return None

    def walk(stmts, depth):
        for s in stmts:
            if isinstance(s, ast.FunctionDef | ast.AsyncFunctionDef | ast.ClassDef):
                toks.append("def")
                continue
            if isinstance(s, ast.Expr) and isinstance(s.value, ast.Constant):
                continue
            extra = ""
            if isinstance(s, ast.Expr | ast.Assign | ast.AugAssign | ast.Return | ast.AnnAssign):
                v = getattr(s, "value", None)
                cn = call_name(v) if v is not None else None
                if cn:
                    extra = ":" + cn
            toks.append(f"{depth}|{type(s).__name__}{extra}")
            for fld in ("body", "orelse", "finalbody"):
                b = getattr(s, fld, None)
                if isinstance(b, list) and b and isinstance(b[0], ast.stmt):
                    walk(b, depth + 1)
            for h in getattr(s, "handlers", []) or []:
                walk(h.body, depth + 1)

    walk(fnode.body, 0)
    return toks


_BASE = None


def baseline_skeletons() -> dict | None:
    global _BASE
    if _BASE is None:
        try:
            _BASE = json.loads(BASELINE.read_text()).get("skeletons") or {}
        except Exception:
            _BASE = {}
    return _BASE or None


def drift_of(func) -> tuple[float, int] | None:
    """(drift, edit) of a repository function against its pinned skeleton; (1.0, big) for a function that is not on the pinned
    tree; None when no baseline is available."""
    base = baseline_skeletons()
    if base is None:
        return None
    cur = skeleton(func.node)
    q = func.qualname
    if q not in base:
        return 1.0, max(len(cur), MIN_EDIT)
    # drift: with nesting depth (a block moved under a new guard / loop / context manager is a different control structure);
    # edit: number of statements added or removed, ignoring depth (wrapping three lines in one `if` is a one-statement edit)
    sm = difflib.SequenceMatcher(None, base[q], cur, autojunk=False)
    flat_b, flat_c = [t.split("|", 1)[-1] for t in base[q]], [t.split("|", 1)[-1] for t in cur]
    sm2 = difflib.SequenceMatcher(None, flat_b, flat_c, autojunk=False)
    matched = sum(b.size for b in sm2.get_matching_blocks())
    return 1 - sm.ratio(), len(flat_b) + len(flat_c) - 2 * matched


def form_independent(prop: str, rule: str, construct: str) -> bool:
    key = f"{prop}.{rule} {construct}"
    return any(p.search(key) for p in _FI)


def outside_trust_region(repo, findings):
    """-> [(finding, function short name, drift, edit)] for findings that lie in a function rewritten beyond the trust region and
    come from a shape-matching rule"""
    out = []
    if baseline_skeletons() is None:
        return out
    cache = {}
    for f in findings:
        if form_independent(f.prop, f.rule, str(f.construct)):
            continue
        m = re.match(r"(\S+?):(\d+)", f.loc or "")
        if not m:
            continue
        rel, line = m.group(1), int(m.group(2))
        owner = None
        for fn in repo.functions.values():
            if fn.module.relpath == rel and fn.node.lineno <= line <= (fn.node.end_lineno or fn.node.lineno):
                if owner is None or fn.node.lineno >= owner.node.lineno:
                    owner = fn
        if owner is None:
            continue
        if owner.qualname not in cache:
            cache[owner.qualname] = drift_of(owner)
        d = cache[owner.qualname]
        if d is None:
            continue
        drift, edit = d
        if drift > MAX_DRIFT and edit >= MIN_EDIT:
            out.append((f, owner.short, drift, edit))
    return out


def require_in_region(func, why: str):
    """For rules that compare *two* functions (a what-if with the operation it predicts, two sibling chunkers): the finding is
    attributed to one of them, but it is only meaningful while the other is still the function the rule was confirmed on."""
    from .model import AnalysisError

    d = drift_of(func)
    if d is None:
        return
    drift, edit = d
    if drift > MAX_DRIFT and edit >= MIN_EDIT:
        raise AnalysisError(f"{func.short} has been rewritten (skeleton drift {drift:.2f}, {edit} statements differ from the pinned tree): {why} is compared through a model of its pinned form — no verdict")
