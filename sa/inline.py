"""AST inliner: lets the rules see through helper functions that were added after the pinned
inventory (`baseline_functions.json`).

A *new* function (qualname not in the inventory) that is simple — not a generator, not recursive,
no early `return` (at most one trailing `return <expr>`), plain positional/keyword parameters — is
inlined at its call sites in the same module / class:

  * expression helper  `def h(a): return E`           call  h(x)           ->  E[a := x]
  * statement helper   `def h(a): S...`               stmt  h(x)           ->  S...[a := x]
  * value helper       `def h(a): S...; return E`     stmt  v = h(x)       ->  S...; v = E
                                                      (also `return h(x)`, `t op= h(x)`, and calls nested
                                                       in a statement's expression: S... hoisted before it)

Arguments that are not side-effect free and are used more than once are first bound to a fresh
local.  Helper locals are renamed apart.  Inlined nodes carry the call site's location.  The helper
definitions stay in the module (harmless).  This is a preprocessing step of the analysis only; it
never changes `/repo`.
"""

from __future__ import annotations

import ast
import copy
import json
from pathlib import Path

BASELINE = Path(__file__).with_name("baseline_functions.json")


def _baseline():
    try:
        return set(json.loads(BASELINE.read_text())["functions"])
    except Exception:
        return None


def _pure(e) -> bool:
    return all(isinstance(n, ast.Name | ast.Attribute | ast.Constant | ast.Load | ast.Subscript | ast.UnaryOp | ast.USub | ast.Tuple) for n in ast.walk(e))


def _returns_tree(stmts):
    """A body that is only a decision tree of `return <expr>` statements -> one conditional expression."""
    if not stmts:
        return None
    first = stmts[0]
    if isinstance(first, ast.Return) and first.value is not None and len(stmts) == 1:
        return first.value
    if isinstance(first, ast.If):
        a = _returns_tree(first.body)
        rest = first.orelse if first.orelse else stmts[1:]
        if first.orelse and len(stmts) > 1:
            return None
        b = _returns_tree(rest)
        if a is not None and b is not None:
            return ast.copy_location(ast.IfExp(test=first.test, body=a, orelse=b), first)
    return None


class _Helper:
    def __init__(self, node: ast.FunctionDef, cls_name: str | None, qual: str):
        self.node = node
        self.cls = cls_name
        self.qual = qual
        self.static = any(isinstance(d, ast.Name) and d.id == "staticmethod" for d in node.decorator_list)
        self.classm = any(isinstance(d, ast.Name) and d.id == "classmethod" for d in node.decorator_list)
        body = list(node.body)
        if body and isinstance(body[0], ast.Expr) and isinstance(body[0].value, ast.Constant) and isinstance(body[0].value.value, str):
            body = body[1:]
        # the longest suffix of the body that is a decision tree of returns becomes one `return <conditional expression>`
        for k in range(len(body)):
            if any(isinstance(x, ast.Return) for st in body[:k] for x in ast.walk(st)):
                break
            tree_expr = _returns_tree(body[k:])
            if tree_expr is not None:
                if not (len(body) - k == 1 and isinstance(body[k], ast.Return)):
                    body = body[:k] + [ast.copy_location(ast.Return(value=tree_expr), body[k])]
                break
        self.body = body
        self.ret = None
        if body and isinstance(body[-1], ast.Return):
            self.ret = body[-1].value
            self.stmts = body[:-1]
        else:
            self.stmts = body
        a = node.args
        self.params = [x.arg for x in (*a.posonlyargs, *a.args)]
        self.defaults = dict(zip(self.params[len(self.params) - len(a.defaults):], a.defaults))
        self.kwonly = [x.arg for x in a.kwonlyargs]
        for k, d in zip(a.kwonlyargs, a.kw_defaults):
            if d is not None:
                self.defaults[k.arg] = d
        self.simple = self._simple()

    def _simple(self):
        n = self.node
        if n.args.vararg or n.args.kwarg:
            return False
        if any(isinstance(d, ast.Name) and d.id in ("property", "cache", "cached_property") or isinstance(d, ast.Attribute) for d in n.decorator_list):
            return False
        own = {a.arg for a in (*n.args.posonlyargs, *n.args.args, *n.args.kwonlyargs)} | {x.id for x in ast.walk(n) if isinstance(x, ast.Name) and isinstance(x.ctx, ast.Store)}
        for x in ast.walk(n):
            if isinstance(x, ast.Yield | ast.YieldFrom | ast.Await | ast.Nonlocal | ast.Global) or (isinstance(x, ast.FunctionDef) and x is not n):
                return False
            if isinstance(x, ast.Lambda):
                # a lambda is fine as long as its own parameters do not shadow a name of the helper (substitution is by name)
                la = x.args
                if la.vararg or la.kwarg or {a.arg for a in (*la.posonlyargs, *la.args, *la.kwonlyargs)} & own:
                    return False
            if isinstance(x, ast.Call) and isinstance(x.func, ast.Attribute) and x.func.attr == n.name:
                return False  # (possibly) recursive
            if isinstance(x, ast.Call) and isinstance(x.func, ast.Name) and x.func.id == n.name:
                return False
        for s in self.stmts:
            if any(isinstance(x, ast.Return) for x in ast.walk(s)):
                return False  # early return
        if len(self.body) > 25:
            return False
        return True

    def locals_(self):
        out = set()
        for s in self.body:
            for x in ast.walk(s):
                if isinstance(x, ast.Name) and isinstance(x.ctx, ast.Store):
                    out.add(x.id)
        return out - set(self.params) - set(self.kwonly)


class _Subst(ast.NodeTransformer):
    def __init__(self, mapping, rename):
        self.mapping = mapping
        self.rename = rename

    def visit_Name(self, n):
        if n.id in self.mapping and isinstance(n.ctx, ast.Load):
            return copy.deepcopy(self.mapping[n.id])
        if n.id in self.rename:
            return ast.copy_location(ast.Name(id=self.rename[n.id], ctx=n.ctx), n)
        return n


def _set_loc(node, at):
    for x in ast.walk(node):
        if hasattr(x, "lineno") or isinstance(x, ast.expr | ast.stmt):
            x.lineno = getattr(at, "lineno", 1)
            x.col_offset = getattr(at, "col_offset", 0)
            x.end_lineno = getattr(at, "end_lineno", x.lineno)
            x.end_col_offset = getattr(at, "end_col_offset", 0)
    return node


class _Beta(ast.NodeTransformer):
    """(lambda x, y: E)(a, b)  ->  E[x := a, y := b]   for side-effect free arguments"""

    def visit_Call(self, n):
        self.generic_visit(n)
        f = n.func
        if isinstance(f, ast.Lambda) and not n.keywords and not f.args.vararg and not f.args.kwarg and not f.args.kwonlyargs and len(n.args) == len(f.args.args) and all(_pure(a) for a in n.args):
            mapping = {p.arg: a for p, a in zip(f.args.args, n.args)}
            return ast.copy_location(_Subst(mapping, {}).visit(copy.deepcopy(f.body)), n)
        return n


def _listify_generators(tree: ast.Module, modname: str, baseline) -> int:
    """A *new* generator helper whose body only yields (no `yield from`, no value taken from `yield`, no return) and that is
    consumed whole — list(G(...)), tuple(G(...)), sorted(G(...)), sum(G(...)), "".join(G(...)), [*G(...)] — is given a
    list-building twin  G__aslist  (yield X -> acc.append(X); return acc); the consuming call sites call the twin, which the
    inliner then treats like any other value helper.  list(G(a)) == G__aslist(a) for every generator without side effects
    between its yields that the consumer could observe (the consumer here takes everything before doing anything else)."""
    if baseline is None:
        return 0
    gens = {}

    def scan(owner_body, cls_name):
        for m in owner_body:
            if not isinstance(m, ast.FunctionDef):
                continue
            q = f"{modname}.{cls_name + '.' if cls_name else ''}{m.name}"
            if q in baseline or m.decorator_list and any(not (isinstance(d, ast.Name) and d.id == "staticmethod") for d in m.decorator_list):
                continue
            ys = [x for x in ast.walk(m) if isinstance(x, ast.Yield)]
            if not ys or any(isinstance(x, ast.YieldFrom | ast.Await | ast.Try) for x in ast.walk(m)):
                continue
            if any(isinstance(x, ast.Return) for x in ast.walk(m)):
                continue
            # every Yield must be a whole expression statement
            stmt_yields = []
            for st in ast.walk(m):
                for fld in ("body", "orelse", "finalbody"):
                    blk = getattr(st, fld, None)
                    if isinstance(blk, list):
                        stmt_yields.extend(b.value for b in blk if isinstance(b, ast.Expr) and isinstance(b.value, ast.Yield))
            ok = True
            if not ok or len(stmt_yields) != len(ys) or any(y.value is None for y in ys):
                continue
            gens[(cls_name, m.name)] = (m, owner_body)

    scan(tree.body, None)
    for c in tree.body:
        if isinstance(c, ast.ClassDef):
            scan(c.body, c.name)
    if not gens:
        return 0
    made = {}

    def twin(key):
        if key in made:
            return made[key]
        m, owner_body = gens[key]
        acc = f"acc__{m.name}"
        t = copy.deepcopy(m)
        t.name = m.name + "__aslist"

        class Y(ast.NodeTransformer):
            def visit_Expr(self, n):
                if isinstance(n.value, ast.Yield):
                    call = ast.Call(func=ast.Attribute(value=ast.Name(id=acc, ctx=ast.Load()), attr="append", ctx=ast.Load()), args=[n.value.value], keywords=[])
                    return ast.copy_location(ast.Expr(value=call), n)
                return n

        t = Y().visit(t)
        body = t.body
        doc = body[:1] if body and isinstance(body[0], ast.Expr) and isinstance(body[0].value, ast.Constant) else []
        t.body = doc + [ast.Assign(targets=[ast.Name(id=acc, ctx=ast.Store())], value=ast.List(elts=[], ctx=ast.Load()))] + body[len(doc):] + [ast.Return(value=ast.Name(id=acc, ctx=ast.Load()))]
        ast.fix_missing_locations(ast.copy_location(t, m))
        for x in ast.walk(t):
            if not hasattr(x, "lineno"):
                ast.copy_location(x, m)
        owner_body.insert(owner_body.index(m) + 1, t)
        made[key] = t
        return t

    cnt = 0
    CONSUMERS = ("list", "tuple", "sorted", "sum", "set", "frozenset", "max", "min", "any", "all")

    def gen_call(e, cls_name):
        if isinstance(e, ast.Call):
            f = e.func
            if isinstance(f, ast.Name) and (None, f.id) in gens:
                return (None, f.id)
            if isinstance(f, ast.Attribute) and isinstance(f.value, ast.Name) and f.value.id in ("self", "cls") and (cls_name, f.attr) in gens:
                return (cls_name, f.attr)
            if isinstance(f, ast.Attribute) and isinstance(f.value, ast.Name) and (f.value.id, f.attr) in gens:
                return (f.value.id, f.attr)
        return None

    def rewrite(fn, cls_name):
        nonlocal cnt
        for c in ast.walk(fn):
            if isinstance(c, ast.Call) and c.args:
                is_consumer = (isinstance(c.func, ast.Name) and c.func.id in CONSUMERS) or (isinstance(c.func, ast.Attribute) and c.func.attr == "join")
                if is_consumer:
                    k = gen_call(c.args[0], cls_name)
                    if k is not None:
                        twin(k)
                        g = c.args[0]
                        if isinstance(g.func, ast.Name):
                            g.func.id = g.func.id + "__aslist"
                        else:
                            g.func.attr = g.func.attr + "__aslist"
                        cnt += 1
            if isinstance(c, ast.Starred) and gen_call(c.value, cls_name) is not None and isinstance(getattr(c, "ctx", None), ast.Load):
                k = gen_call(c.value, cls_name)
                twin(k)
                g = c.value
                if isinstance(g.func, ast.Name):
                    g.func.id += "__aslist"
                else:
                    g.func.attr += "__aslist"
                cnt += 1

    for top in list(tree.body):
        if isinstance(top, ast.FunctionDef):
            rewrite(top, None)
        elif isinstance(top, ast.ClassDef):
            for m in list(top.body):
                if isinstance(m, ast.FunctionDef) and not m.name.endswith("__aslist"):
                    rewrite(m, top.name)
    # `list(x)` of something that already is the twin's list: list(G__aslist(a)) -> G__aslist(a)
    class Unwrap(ast.NodeTransformer):
        def visit_Call(self, c):
            self.generic_visit(c)
            if isinstance(c.func, ast.Name) and c.func.id == "list" and len(c.args) == 1 and not c.keywords and isinstance(c.args[0], ast.Call):
                f = c.args[0].func
                nm = f.id if isinstance(f, ast.Name) else f.attr if isinstance(f, ast.Attribute) else ""
                if nm.endswith("__aslist"):
                    return c.args[0]
            return c

    Unwrap().visit(tree)
    return cnt


class Inliner:
    def __init__(self, tree: ast.Module, modname: str, baseline: set | None):
        self.tree = tree
        self.modname = modname
        self.baseline = baseline
        self.helpers: dict[tuple, _Helper] = {}
        self.counter = 0
        self.inlined = []

    def _gen_ok(self, m: ast.FunctionDef):
        """a generator helper that can be fused into a for-loop: exactly one yield site (after merging an if/else pair of
        twin yields), whole-statement yields, no return / try / nested def, plain parameters"""
        if m.args.vararg or m.args.kwarg or any(not (isinstance(d, ast.Name) and d.id == "staticmethod") for d in m.decorator_list):
            return None
        if any(isinstance(x, ast.Return | ast.Try | ast.Await | ast.Nonlocal | ast.Global | ast.Lambda) or (isinstance(x, ast.FunctionDef) and x is not m) for x in ast.walk(m)):
            return None
        body = copy.deepcopy(m.body)
        if body and isinstance(body[0], ast.Expr) and isinstance(body[0].value, ast.Constant):
            body = body[1:]

        def merge(blk):
            for k, st in enumerate(blk):
                for fld in ("body", "orelse"):
                    sub = getattr(st, fld, None)
                    if isinstance(sub, list):
                        merge(sub)
                if isinstance(st, ast.If) and len(st.body) == 1 and len(st.orelse) == 1:
                    a, b = st.body[0], st.orelse[0]
                    if isinstance(a, ast.Expr) and isinstance(b, ast.Expr) and type(a.value) is type(b.value) and isinstance(a.value, ast.Yield | ast.YieldFrom) and a.value.value is not None and b.value.value is not None:
                        y = type(a.value)(value=ast.copy_location(ast.IfExp(test=st.test, body=a.value.value, orelse=b.value.value), st))
                        blk[k] = ast.copy_location(ast.Expr(value=ast.copy_location(y, st)), st)

        merge(body)
        ys = [x for st in body for x in ast.walk(st) if isinstance(x, ast.Yield | ast.YieldFrom)]
        stmt_ys = []
        for st in body:
            for x in ast.walk(st):
                for fld in ("body", "orelse", "finalbody"):
                    blk = getattr(x, fld, None)
                    if isinstance(blk, list):
                        stmt_ys.extend(b for b in blk if isinstance(b, ast.Expr) and isinstance(b.value, ast.Yield | ast.YieldFrom))
        stmt_ys.extend(b for b in body if isinstance(b, ast.Expr) and isinstance(b.value, ast.Yield | ast.YieldFrom))
        stmt_ys = list({id(b): b for b in stmt_ys}.values())
        if len(ys) != 1 or len(stmt_ys) != 1 or ys[0].value is None:
            return None
        return body

    def collect(self):
        self.gens = {}
        if self.baseline is not None:
            for n in self.tree.body:
                if isinstance(n, ast.FunctionDef) and f"{self.modname}.{n.name}" not in self.baseline and any(isinstance(x, ast.Yield | ast.YieldFrom) for x in ast.walk(n)):
                    b = self._gen_ok(n)
                    if b is not None:
                        self.gens[(None, n.name)] = (n, b)
                elif isinstance(n, ast.ClassDef):
                    for m in n.body:
                        if isinstance(m, ast.FunctionDef) and f"{self.modname}.{n.name}.{m.name}" not in self.baseline and any(isinstance(x, ast.Yield | ast.YieldFrom) for x in ast.walk(m)):
                            b = self._gen_ok(m)
                            if b is not None:
                                self.gens[(n.name, m.name)] = (m, b)
        if self.baseline is None:
            return
        for n in self.tree.body:
            if isinstance(n, ast.FunctionDef):
                q = f"{self.modname}.{n.name}"
                if q not in self.baseline:
                    h = _Helper(n, None, q)
                    if h.simple:
                        self.helpers[(None, n.name)] = h
            elif isinstance(n, ast.ClassDef):
                for m in n.body:
                    if isinstance(m, ast.FunctionDef):
                        q = f"{self.modname}.{n.name}.{m.name}"
                        if q not in self.baseline and not any(getattr(d, "attr", "") == "setter" for d in m.decorator_list):
                            h = _Helper(m, n.name, q)
                            if h.simple:
                                self.helpers[(n.name, m.name)] = h

    # ------------------------------------------------------------------ matching
    def _match(self, call: ast.Call, cls_name):
        f = call.func
        if isinstance(f, ast.Name) and (None, f.id) in self.helpers:
            return self.helpers[(None, f.id)], None
        if isinstance(f, ast.Attribute) and isinstance(f.value, ast.Name):
            if f.value.id in ("self", "cls") and cls_name is not None:
                h = self.helpers.get((cls_name, f.attr)) or self._inherited(cls_name, f.attr)
                if h is not None:
                    return h, f.value
            # ClassName.helper(...)  (static / class helpers)
            h = self.helpers.get((f.value.id, f.attr))
            if h is not None and h.static:
                return h, None
            if h is not None and getattr(h, "classm", False):
                return h, f.value  # cls := the class name
        return None, None

    def _inherited(self, cls_name, attr):
        # helper defined in a base class of the same module
        for n in self.tree.body:
            if isinstance(n, ast.ClassDef) and n.name == cls_name:
                for b in n.bases:
                    if isinstance(b, ast.Name):
                        h = self.helpers.get((b.id, attr))
                        if h is not None:
                            return h
        return None

    def _bind(self, h: _Helper, call: ast.Call, recv):
        params = list(h.params)
        mapping = {}
        pre = []
        if h.cls is not None and not h.static:
            if not params:
                return None
            mapping[params[0]] = recv if recv is not None else ast.Name(id="self", ctx=ast.Load())
            params = params[1:]
        if any(isinstance(a, ast.Starred) for a in call.args) or any(k.arg is None for k in call.keywords):
            return None
        if len(call.args) > len(params):
            return None
        actual = dict(zip(params, call.args))
        for k in call.keywords:
            if k.arg not in params and k.arg not in h.kwonly:
                return None
            actual[k.arg] = k.value
        for p in [*params, *h.kwonly]:
            if p not in actual:
                if p in h.defaults:
                    actual[p] = h.defaults[p]
                else:
                    return None
        # how often is each parameter read / is it assigned in the helper?
        uses = {}
        stores = set()
        for s in h.body:
            for x in ast.walk(s):
                if isinstance(x, ast.Name):
                    if isinstance(x.ctx, ast.Load):
                        uses[x.id] = uses.get(x.id, 0) + 1
                    else:
                        stores.add(x.id)
        for p, a in actual.items():
            if p in stores or not (_pure(a) or uses.get(p, 0) <= 1):
                self.counter += 1
                tmp = f"{p}__arg{self.counter}"
                pre.append(ast.Assign(targets=[ast.Name(id=tmp, ctx=ast.Store())], value=copy.deepcopy(a)))
                mapping[p] = ast.Name(id=tmp, ctx=ast.Load())
                if p in stores:
                    # parameter reassigned inside the helper: treat the temp as the local
                    mapping.pop(p)
                    pre[-1].targets[0].id = f"{p}__{h.node.name}{self.counter}"
                    mapping[p] = None
            else:
                mapping[p] = a
        return mapping, pre

    def _instantiate(self, h: _Helper, call: ast.Call, recv, ret_target=None):
        b = self._bind(h, call, recv)
        if b is None:
            return None
        mapping, pre = b
        self.counter += 1
        rename = {v: f"{v}__{h.node.name}{self.counter}" for v in h.locals_()}
        if ret_target is not None and isinstance(h.ret, ast.Name) and h.ret.id in rename:
            rename[h.ret.id] = ret_target  # `v = helper(...)` returning its local: that local *is* v
        for p, a in list(mapping.items()):
            if a is None:
                # reassigned parameter: behaves as a renamed local initialised by `pre`
                rename[p] = pre[[i for i, s in enumerate(pre) if s.targets[0].id.startswith(p + "__")][-1]].targets[0].id
                mapping.pop(p)
        sub = _Subst(mapping, rename)
        stmts = [_set_loc(sub.visit(copy.deepcopy(s)), call) for s in h.stmts]
        ret = _set_loc(sub.visit(copy.deepcopy(h.ret)), call) if h.ret is not None else None
        pre = [_set_loc(s, call) for s in pre]
        return pre + stmts, ret

    # ------------------------------------------------------------------ rewriting
    def _fuse_generator(self, loop: ast.For, cls_name):
        """for X in G(args): BODY   with G a single-yield-site generator helper   ->   G's body with the yield replaced by
        (X = value; BODY) resp. (for X in iterable: BODY).  Exactly the interleaving a generator has; not applied when BODY can
        leave the loop (break / return) or the loop has an else clause."""
        c = loop.iter
        if not isinstance(c, ast.Call) or loop.orelse:
            return None
        f = c.func
        key = None
        recv = None
        if isinstance(f, ast.Name) and (None, f.id) in self.gens:
            key = (None, f.id)
        elif isinstance(f, ast.Attribute) and isinstance(f.value, ast.Name):
            if f.value.id in ("self", "cls") and (cls_name, f.attr) in self.gens:
                key, recv = (cls_name, f.attr), f.value
            elif (f.value.id, f.attr) in self.gens:
                key = (f.value.id, f.attr)
        if key is None:
            return None
        for x in loop.body:
            for y in ast.walk(x):
                if isinstance(y, ast.Return | ast.Yield | ast.YieldFrom):
                    return None
        # a break directly in BODY (not inside a nested loop) would leave only the inner loop after fusion
        def has_break(stmts):
            for st in stmts:
                if isinstance(st, ast.Break):
                    return True
                if isinstance(st, ast.For | ast.While):
                    continue
                for fld in ("body", "orelse", "finalbody"):
                    sub = getattr(st, fld, None)
                    if isinstance(sub, list) and has_break(sub):
                        return True
                if isinstance(st, ast.Try) and any(has_break(h.body) for h in st.handlers):
                    return True
            return False

        if has_break(loop.body):
            return None
        m, gbody = self.gens[key]
        h = _Helper(m, key[0], "gen")
        h.body = gbody
        h.stmts = gbody
        h.ret = None
        b = self._bind(h, c, recv)
        if b is None:
            return None
        mapping, pre = b
        self.counter += 1
        locs = set()
        for st in gbody:
            for x in ast.walk(st):
                if isinstance(x, ast.Name) and isinstance(x.ctx, ast.Store):
                    locs.add(x.id)
        locs -= set(h.params) | set(h.kwonly)
        rename = {v: f"{v}__{m.name}{self.counter}" for v in locs}
        for p_, a_ in list(mapping.items()):
            if a_ is None:
                return None
        sub = _Subst(mapping, rename)
        new_body = [sub.visit(copy.deepcopy(st)) for st in gbody]
        target, BODY = loop.target, loop.body

        def place(blk):
            for k, st in enumerate(blk):
                if isinstance(st, ast.Expr) and isinstance(st.value, ast.Yield):
                    blk[k:k + 1] = [ast.Assign(targets=[copy.deepcopy(target)], value=st.value.value), *BODY]
                    return True
                if isinstance(st, ast.Expr) and isinstance(st.value, ast.YieldFrom):
                    blk[k] = ast.For(target=copy.deepcopy(target), iter=st.value.value, body=BODY, orelse=[])
                    return True
                for fld in ("body", "orelse", "finalbody"):
                    subb = getattr(st, fld, None)
                    if isinstance(subb, list) and place(subb):
                        return True
            return False

        if not place(new_body):
            return None
        out = [_set_loc(x, loop) for x in pre] + new_body
        for x in out:
            for y in ast.walk(x):
                if not hasattr(y, "lineno"):
                    ast.copy_location(y, loop)
            ast.fix_missing_locations(x)
        self.inlined.append(f"{self.modname}.{(key[0] + '.') if key[0] else ''}{key[1]}")
        return out

    def run(self, rounds=3):
        self.collect()
        if not self.helpers and not self.gens:
            return 0
        total = 0
        for _ in range(rounds):
            n = self._round()
            total += n
            if n == 0:
                break
        self.tree = _Beta().visit(self.tree)
        ast.fix_missing_locations(self.tree)
        return total

    def _round(self):
        count = 0
        for top in self.tree.body:
            if isinstance(top, ast.FunctionDef):
                count += self._rewrite_block_owner(top, None)
            elif isinstance(top, ast.ClassDef):
                for m in top.body:
                    if isinstance(m, ast.FunctionDef):
                        count += self._rewrite_block_owner(m, top.name)
        return count

    def _rewrite_block_owner(self, fn: ast.FunctionDef, cls_name):
        if (cls_name, fn.name) in self.helpers and False:
            return 0
        self._cur_fn = fn
        before = self.counter_inl = getattr(self, "counter_inl", 0)
        fn.body = self._block(fn.body, cls_name, fn)
        return self.counter_inl - before

    def _block(self, stmts, cls_name, fn):
        out = []
        for s in stmts:
            out.extend(self._stmt(s, cls_name, fn))
        return out

    def _stmt(self, s, cls_name, fn):
        # recurse into compound statements first
        for fld in ("body", "orelse", "finalbody"):
            blk = getattr(s, fld, None)
            if isinstance(blk, list) and blk and isinstance(blk[0], ast.stmt):
                setattr(s, fld, self._block(blk, cls_name, fn))
        if isinstance(s, ast.Try):
            for hnd in s.handlers:
                hnd.body = self._block(hnd.body, cls_name, fn)
        if isinstance(s, ast.FunctionDef | ast.ClassDef):
            return [s]
        if isinstance(s, ast.For) and getattr(self, "gens", None):
            fused = self._fuse_generator(s, cls_name)
            if fused is not None:
                self.counter_inl = getattr(self, "counter_inl", 0) + 1
                return fused
        # which expression parts of this statement are evaluated exactly once, before the statement's effect?
        if isinstance(s, ast.If | ast.While):
            holder, roots = s, ["test"]
        elif isinstance(s, ast.For):
            holder, roots = s, ["iter"]
        elif isinstance(s, ast.With):
            holder, roots = s, []
        else:
            holder, roots = s, None
        hoisted = []

        def visit_expr(e, allow_hoist=True):
            """inline helper calls inside expression e (innermost first); returns new expression"""
            for fld, val in list(ast.iter_fields(e)):
                # operands that are evaluated conditionally must not have statements hoisted out of them
                def sub_allow(child, idx=None):
                    if isinstance(e, ast.BoolOp) and idx not in (None, 0):
                        return False
                    if isinstance(e, ast.IfExp) and fld in ("body", "orelse"):
                        return False
                    return allow_hoist

                if isinstance(val, ast.expr):
                    setattr(e, fld, visit_expr(val, sub_allow(val)))
                elif isinstance(val, list):
                    new_list = []
                    for i, v in enumerate(val):
                        if isinstance(v, ast.expr):
                            new_list.append(visit_expr(v, sub_allow(v, i)))
                        elif isinstance(v, ast.keyword):
                            v.value = visit_expr(v.value, allow_hoist)
                            new_list.append(v)
                        else:
                            new_list.append(v)
                    setattr(e, fld, new_list)
            if isinstance(e, ast.Lambda | ast.GeneratorExp | ast.ListComp | ast.SetComp | ast.DictComp):
                return e
            if isinstance(e, ast.Call):
                h, recv = self._match(e, cls_name)
                if h is not None and h.node is not fn:
                    inst = self._instantiate(h, e, recv)
                    if inst is not None:
                        stmts, ret = inst
                        if not stmts and ret is not None:
                            self.counter_inl += 1
                            self.inlined.append(h.qual)
                            return ret
                        if stmts and allow_hoist:
                            hoisted.extend(stmts)
                            self.counter_inl += 1
                            self.inlined.append(h.qual)
                            return ret if ret is not None else ast.copy_location(ast.Constant(value=None), e)
            return e

        # v = helper(...) where the helper returns one of its locals: rename that local to v, no alias left behind
        if isinstance(s, ast.Assign) and len(s.targets) == 1 and isinstance(s.targets[0], ast.Name) and isinstance(s.value, ast.Call):
            h, recv = self._match(s.value, cls_name)
            if h is not None and h.node is not fn and isinstance(h.ret, ast.Name) and h.ret.id in h.locals_() and h.stmts:
                tgt = s.targets[0].id
                clash = tgt != h.ret.id and any(isinstance(x, ast.Name) and x.id == tgt for st in h.body for x in ast.walk(st))
                if not clash:
                    s.value.args = [visit_expr(a) for a in s.value.args]
                    inst = self._instantiate(h, s.value, recv, ret_target=tgt)
                    if inst is not None:
                        stmts, ret = inst
                        self.counter_inl += 1
                        self.inlined.append(h.qual)
                        return hoisted + self._block(stmts, cls_name, fn)
        # v = helper(..., v, ...) where the helper reassigns that parameter and returns it: the parameter *is* v
        if isinstance(s, ast.Assign) and len(s.targets) == 1 and isinstance(s.targets[0], ast.Name) and isinstance(s.value, ast.Call):
            h, recv = self._match(s.value, cls_name)
            if h is not None and h.node is not fn and isinstance(h.ret, ast.Name) and h.ret.id in h.params and h.stmts:
                tgt = s.targets[0].id
                pidx = [p_ for p_ in h.params if not (h.cls is not None and not h.static and p_ == h.params[0])]
                actual = dict(zip(pidx, s.value.args))
                actual.update({k.arg: k.value for k in s.value.keywords if k.arg})
                a_ = actual.get(h.ret.id)
                body_names = {x.id for st in h.body for x in ast.walk(st) if isinstance(x, ast.Name)}
                if isinstance(a_, ast.Name) and a_.id == tgt and (tgt == h.ret.id or tgt not in body_names):
                    s.value.args = [visit_expr(a) for a in s.value.args]
                    b = self._bind(h, s.value, recv)
                    if b is not None:
                        mapping, pre = b
                        self.counter += 1
                        rename = {v: f"{v}__{h.node.name}{self.counter}" for v in h.locals_()}
                        # drop the temp that _bind made for the reassigned parameter: it is the target itself
                        pre = [x for x in pre if not (isinstance(x, ast.Assign) and x.targets[0].id.startswith(h.ret.id + "__"))]
                        mapping.pop(h.ret.id, None)
                        rename[h.ret.id] = tgt
                        if all(v is not None for v in mapping.values()):
                            sub = _Subst(mapping, rename)
                            stmts = [_set_loc(sub.visit(copy.deepcopy(x)), s.value) for x in h.stmts]
                            pre = [_set_loc(x, s.value) for x in pre]
                            self.inlined.append(h.qual)
                            self.counter_inl = getattr(self, "counter_inl", 0) + 1
                            return hoisted + self._block(pre + stmts, cls_name, fn)
        # a, b, c = helper(...) where the helper returns a tuple of its (distinct) locals: those locals *are* a, b, c
        if isinstance(s, ast.Assign) and len(s.targets) == 1 and isinstance(s.targets[0], ast.Tuple) and all(isinstance(e, ast.Name) for e in s.targets[0].elts) and isinstance(s.value, ast.Call):
            h, recv = self._match(s.value, cls_name)
            if h is not None and h.node is not fn and isinstance(h.ret, ast.Tuple) and len(h.ret.elts) == len(s.targets[0].elts) and all(isinstance(e, ast.Name) for e in h.ret.elts):
                rl = [e.id for e in h.ret.elts]
                tl = [e.id for e in s.targets[0].elts]
                locs = h.locals_()
                body_names = {x.id for st in h.body for x in ast.walk(st) if isinstance(x, ast.Name)}
                if len(set(rl)) == len(rl) and len(set(tl)) == len(tl) and all(r_ in locs for r_ in rl) and not any(t_ in body_names and t_ not in rl for t_ in tl):
                    s.value.args = [visit_expr(a) for a in s.value.args]
                    b = self._bind(h, s.value, recv)
                    if b is not None:
                        mapping, pre = b
                        self.counter += 1
                        rename = {v: f"{v}__{h.node.name}{self.counter}" for v in locs}
                        rename.update(dict(zip(rl, tl)))
                        ok_params = all(a is not None for a in mapping.values())
                        if ok_params:
                            sub = _Subst(mapping, rename)
                            stmts = [_set_loc(sub.visit(copy.deepcopy(x)), s.value) for x in h.stmts]
                            pre = [_set_loc(x, s.value) for x in pre]
                            self.inlined.append(h.qual)
                            return hoisted + self._block(pre + stmts, cls_name, fn)
        # calls inside comprehensions / lambdas are not inlined (evaluated lazily / repeatedly)
        if isinstance(s, ast.Expr) and isinstance(s.value, ast.Call):
            h, recv = self._match(s.value, cls_name)
            if h is not None and h.node is not fn:
                # arguments first
                s.value.args = [visit_expr(a) for a in s.value.args]
                for k in s.value.keywords:
                    k.value = visit_expr(k.value)
                inst = self._instantiate(h, s.value, recv)
                if inst is not None:
                    stmts, ret = inst
                    self.counter_inl += 1
                    self.inlined.append(h.qual)
                    tail = [] if ret is None else [ast.copy_location(ast.Expr(value=ret), s)]
                    return hoisted + self._block(stmts, cls_name, fn) + tail
        if roots is None:
            for fld, val in list(ast.iter_fields(s)):
                if isinstance(val, ast.expr):
                    setattr(s, fld, visit_expr(val))
                elif isinstance(val, list) and val and isinstance(val[0], ast.expr):
                    setattr(s, fld, [visit_expr(v) for v in val])
        else:
            for fld in roots:
                # a loop test is re-evaluated on every iteration: only statement-free inlining there
                setattr(s, fld, visit_expr(getattr(s, fld), allow_hoist=not isinstance(s, ast.While)))
        if hoisted:
            return self._block(hoisted, cls_name, fn) + [s]
        return [s]

    @staticmethod
    def _kw(k, f):
        k.value = f(k.value)
        return k


def inline_new_helpers(tree: ast.Module, modname: str) -> list[str]:
    """Inline simple helpers that are not part of the pinned inventory.  -> qualnames inlined"""
    base = _baseline()
    try:
        _listify_generators(tree, modname, base)
    except RecursionError:
        pass
    inl = Inliner(tree, modname, base)
    inl.run()
    return inl.inlined


# --------------------------------------------------------------------------------------------------
# idiom normalisation (statement level)
# --------------------------------------------------------------------------------------------------
def _same(a, b) -> bool:
    return ast.dump(a) == ast.dump(b)


def _get_or_create(s1, s2):
    """v = D.get(K) ; if v is None [or: not v]: v = D[K] = E   (also  v = E; D[K] = v)   ->   v = D.setdefault(K, E)
    The value semantics are the same (E is evaluated eagerly by setdefault, which matters only for side effects of E;
    the rules treat E as the value stored on first use of the key in both forms)."""
    if not (isinstance(s1, ast.Assign) and len(s1.targets) == 1 and isinstance(s1.targets[0], ast.Name)):
        return None
    c = s1.value
    if not (isinstance(c, ast.Call) and isinstance(c.func, ast.Attribute) and c.func.attr == "get" and len(c.args) == 1 and not c.keywords):
        return None
    v, D, K = s1.targets[0].id, c.func.value, c.args[0]
    if not (isinstance(s2, ast.If) and not s2.orelse):
        return None
    t = s2.test
    is_none = isinstance(t, ast.Compare) and len(t.ops) == 1 and isinstance(t.ops[0], ast.Is) and isinstance(t.left, ast.Name) and t.left.id == v and isinstance(t.comparators[0], ast.Constant) and t.comparators[0].value is None
    is_not = isinstance(t, ast.UnaryOp) and isinstance(t.op, ast.Not) and isinstance(t.operand, ast.Name) and t.operand.id == v
    if not (is_none or is_not):
        return None

    def is_slot(x):
        return isinstance(x, ast.Subscript) and _same(x.value, D) and _same(x.slice, K)

    body = s2.body
    E = None
    if len(body) == 1 and isinstance(body[0], ast.Assign) and len(body[0].targets) == 2:
        a, b = body[0].targets
        if (isinstance(a, ast.Name) and a.id == v and is_slot(b)) or (isinstance(b, ast.Name) and b.id == v and is_slot(a)):
            E = body[0].value
    elif len(body) == 2 and all(isinstance(x, ast.Assign) and len(x.targets) == 1 for x in body):
        x, y = body
        if isinstance(x.targets[0], ast.Name) and x.targets[0].id == v and is_slot(y.targets[0]) and isinstance(y.value, ast.Name) and y.value.id == v:
            E = x.value
    if E is None:
        return None
    call = ast.Call(func=ast.Attribute(value=D, attr="setdefault", ctx=ast.Load()), args=[K, E], keywords=[])
    new = ast.Assign(targets=[ast.Name(id=v, ctx=ast.Store())], value=call)
    ast.copy_location(new, s1)
    ast.copy_location(call, s1)
    ast.copy_location(call.func, s1)
    ast.copy_location(new.targets[0], s1)
    return new


def _dict_get(s):
    """if K in D: v = D[K]  else: v = F      ->   v = D.get(K, F)        (also with `not in` and swapped branches)"""
    if not (isinstance(s, ast.If) and len(s.body) == 1 and len(s.orelse) == 1):
        return None
    t = s.test
    if not (isinstance(t, ast.Compare) and len(t.ops) == 1 and isinstance(t.ops[0], ast.In | ast.NotIn)):
        return None
    K, D = t.left, t.comparators[0]
    hit, miss = (s.body[0], s.orelse[0]) if isinstance(t.ops[0], ast.In) else (s.orelse[0], s.body[0])
    if not all(isinstance(x, ast.Assign) and len(x.targets) == 1 and isinstance(x.targets[0], ast.Name) for x in (hit, miss)):
        return None
    if hit.targets[0].id != miss.targets[0].id:
        return None
    hv = hit.value
    if not (isinstance(hv, ast.Subscript) and _same(hv.value, D) and _same(hv.slice, K)):
        return None
    if not isinstance(K, ast.Name | ast.Attribute | ast.Subscript | ast.Constant):
        return None
    call = ast.Call(func=ast.Attribute(value=D, attr="get", ctx=ast.Load()), args=[K, miss.value], keywords=[])
    new = ast.Assign(targets=[ast.Name(id=hit.targets[0].id, ctx=ast.Store())], value=call)
    for x in (new, call, call.func, new.targets[0]):
        ast.copy_location(x, s)
    return new


def _span_unpack(s):
    """a, b = M.span()   ->   a = M.start() ; b = M.end()      (re.Match: span() == (start(), end()))"""
    if not (isinstance(s, ast.Assign) and len(s.targets) == 1 and isinstance(s.targets[0], ast.Tuple) and len(s.targets[0].elts) == 2 and all(isinstance(e, ast.Name) for e in s.targets[0].elts)):
        return None
    c = s.value
    if not (isinstance(c, ast.Call) and isinstance(c.func, ast.Attribute) and c.func.attr == "span" and not c.args and not c.keywords and isinstance(c.func.value, ast.Name)):
        return None
    out = []
    for tgt, meth in zip(s.targets[0].elts, ("start", "end")):
        call = ast.Call(func=ast.Attribute(value=ast.Name(id=c.func.value.id, ctx=ast.Load()), attr=meth, ctx=ast.Load()), args=[], keywords=[])
        a = ast.Assign(targets=[ast.Name(id=tgt.id, ctx=ast.Store())], value=call)
        out.append(ast.fix_missing_locations(ast.copy_location(a, s)))
        for x in ast.walk(a):
            ast.copy_location(x, s)
    return out


def _setdefault_stmt(s):
    """if K not in D: D[K] = E      ->   D.setdefault(K, E)          (statement; later D[K] reads are unchanged)"""
    if not (isinstance(s, ast.If) and not s.orelse and len(s.body) == 1):
        return None
    t = s.test
    if not (isinstance(t, ast.Compare) and len(t.ops) == 1 and isinstance(t.ops[0], ast.NotIn)):
        return None
    K, D = t.left, t.comparators[0]
    a = s.body[0]
    if not (isinstance(a, ast.Assign) and len(a.targets) == 1 and isinstance(a.targets[0], ast.Subscript) and _same(a.targets[0].value, D) and _same(a.targets[0].slice, K)):
        return None
    if not isinstance(K, ast.Name | ast.Attribute | ast.Constant | ast.Tuple):
        return None
    call = ast.Call(func=ast.Attribute(value=D, attr="setdefault", ctx=ast.Load()), args=[K, a.value], keywords=[])
    new = ast.Expr(value=call)
    for x in (new, call, call.func):
        ast.copy_location(x, s)
    return new


def _groups_unpack(s):
    """a, b, c = M.groups()   ->   a = M.group(1) ; b = M.group(2) ; c = M.group(3)"""
    if not (isinstance(s, ast.Assign) and len(s.targets) == 1 and isinstance(s.targets[0], ast.Tuple) and all(isinstance(e, ast.Name) for e in s.targets[0].elts)):
        return None
    c = s.value
    if not (isinstance(c, ast.Call) and isinstance(c.func, ast.Attribute) and c.func.attr == "groups" and not c.args and not c.keywords and isinstance(c.func.value, ast.Name)):
        return None
    out = []
    for k, tgt in enumerate(s.targets[0].elts, start=1):
        call = ast.Call(func=ast.Attribute(value=ast.Name(id=c.func.value.id, ctx=ast.Load()), attr="group", ctx=ast.Load()), args=[ast.Constant(value=k)], keywords=[])
        a = ast.Assign(targets=[ast.Name(id=tgt.id, ctx=ast.Store())], value=call)
        for x in ast.walk(a):
            ast.copy_location(x, s)
        out.append(ast.fix_missing_locations(a))
    return out


def _dict_update_stmt(s):
    """D.update(k1=v1, k2=v2)  /  D.update({"k1": v1, ...})   (statement, D a plain name)   ->   D["k1"] = v1 ; D["k2"] = v2"""
    if not (isinstance(s, ast.Expr) and isinstance(s.value, ast.Call)):
        return None
    c = s.value
    if not (isinstance(c.func, ast.Attribute) and c.func.attr == "update" and isinstance(c.func.value, ast.Name)):
        return None
    pairs = []
    if c.keywords and not c.args and all(k.arg for k in c.keywords):
        pairs = [(ast.Constant(value=k.arg), k.value) for k in c.keywords]
    elif len(c.args) == 1 and not c.keywords and isinstance(c.args[0], ast.Dict) and all(isinstance(k, ast.Constant) for k in c.args[0].keys):
        pairs = list(zip(c.args[0].keys, c.args[0].values))
    if not pairs:
        return None
    out = []
    for k, v in pairs:
        a = ast.Assign(targets=[ast.Subscript(value=ast.Name(id=c.func.value.id, ctx=ast.Load()), slice=k, ctx=ast.Store())], value=v)
        for x in ast.walk(a):
            if not hasattr(x, "lineno"):
                ast.copy_location(x, s)
        ast.copy_location(a, s)
        out.append(ast.fix_missing_locations(a))
    return out


class _DictCall(ast.NodeTransformer):
    """dict(k1=v1, k2=v2)  ->  {"k1": v1, "k2": v2}"""

    def visit_Call(self, c):
        self.generic_visit(c)
        if isinstance(c.func, ast.Name) and c.func.id == "dict" and not c.args and c.keywords and all(k.arg for k in c.keywords):
            d = ast.Dict(keys=[ast.Constant(value=k.arg) for k in c.keywords], values=[k.value for k in c.keywords])
            for x in ast.walk(d):
                if not hasattr(x, "lineno"):
                    ast.copy_location(x, c)
            return ast.copy_location(d, c)
        return c


def _cond_value(fn, s1, s2):
    """v = A if c else B ; <simple statement using v exactly once, v used nowhere else>
         ->  if c: <statement with A> else: <statement with B>"""
    if not (isinstance(s1, ast.Assign) and len(s1.targets) == 1 and isinstance(s1.targets[0], ast.Name) and isinstance(s1.value, ast.IfExp)):
        return None
    v = s1.targets[0].id
    if not isinstance(s2, ast.Expr | ast.Assign | ast.AugAssign | ast.Return):
        return None
    loads = [n for n in ast.walk(fn) if isinstance(n, ast.Name) and n.id == v and isinstance(n.ctx, ast.Load)]
    stores = [n for n in ast.walk(fn) if isinstance(n, ast.Name) and n.id == v and isinstance(n.ctx, ast.Store | ast.Del)]
    here = [n for n in ast.walk(s2) if isinstance(n, ast.Name) and n.id == v and isinstance(n.ctx, ast.Load)]
    if len(loads) != 1 or len(here) != 1 or len(stores) != 1:
        return None
    if any(isinstance(n, ast.Lambda | ast.GeneratorExp | ast.ListComp | ast.SetComp | ast.DictComp) for n in ast.walk(s2)):
        return None

    def subst(stmt, e):
        class T(ast.NodeTransformer):
            def visit_Name(self_, n):
                if n.id == v and isinstance(n.ctx, ast.Load):
                    return copy.deepcopy(e)
                return n

        return T().visit(copy.deepcopy(stmt))

    new = ast.If(test=s1.value.test, body=[subst(s2, s1.value.body)], orelse=[subst(s2, s1.value.orelse)])
    ast.copy_location(new, s1)
    return ast.fix_missing_locations(new)


def _cv_key(fn, stmt) -> str:
    """rename-invariant key of a conditional-value statement: function name + value shape with local names blanked"""
    class A(ast.NodeTransformer):
        def visit_Name(self, n):
            return ast.Name(id="_", ctx=ast.Load())

    return f"{fn.name}: {ast.unparse(A().visit(copy.deepcopy(stmt.value)))}"


def _guard_key(fn, test) -> str:
    """rename- and move-invariant key of a guard clause: the shape of its test with local names blanked"""
    class A(ast.NodeTransformer):
        def visit_Name(self, n):
            return ast.Name(id="_", ctx=ast.Load())

    return ast.unparse(A().visit(copy.deepcopy(test)))


def _baseline_guards():
    try:
        return set(json.loads(BASELINE.read_text()).get("guards", []))
    except Exception:
        return None


def _guard_sites(tree):
    """(function, block list, index) of guard clauses:  `if C: continue` inside a loop body with statements after it, and
    `if C: return` / `return None` at the top level of a function body with statements after it"""
    out = []
    for fn in [x for x in ast.walk(tree) if isinstance(x, ast.FunctionDef)]:
        is_gen = any(isinstance(x, ast.Yield | ast.YieldFrom) for x in ast.walk(fn))
        for node in ast.walk(fn):
            if isinstance(node, ast.For | ast.While):
                blk, kind = node.body, "continue"
            else:
                continue  # (function-level `if C: return` guards are left alone: rules look for loops at the top level)
            for k, st in enumerate(blk[:-1]):
                if isinstance(st, ast.If) and not st.orelse and len(st.body) == 1 and not any(isinstance(x, ast.NamedExpr) for x in ast.walk(st.test)):
                    b = st.body[0]
                    if (kind == "continue" and isinstance(b, ast.Continue)) or (kind == "return" and isinstance(b, ast.Return) and (b.value is None or (isinstance(b.value, ast.Constant) and b.value.value is None))):
                        out.append((fn, blk, k))
    return out


def guard_candidates(tree):
    return [_guard_key(fn, blk[k].test) for fn, blk, k in _guard_sites(tree)]


def _unguard(tree) -> int:
    """`if C: continue` + REST (rest of the loop body)  ->  `if not C: REST`   for guard clauses that are not on the pinned tree;
    same for `if C: return` + REST at the top level of a function that returns nothing."""
    keep = _baseline_guards()
    if keep is None:
        return 0
    n = 0
    changed = True
    while changed:
        changed = False
        for fn, blk, k in _guard_sites(tree):
            st = blk[k]
            if _guard_key(fn, st.test) in keep:
                continue
            if isinstance(st.body[0], ast.Return):
                # only when the function returns nothing anywhere else with a value
                if any(isinstance(x, ast.Return) and x.value is not None and not (isinstance(x.value, ast.Constant) and x.value.value is None) for x in ast.walk(fn)):
                    continue
            c = st.test
            neg = c.operand if isinstance(c, ast.UnaryOp) and isinstance(c.op, ast.Not) else ast.copy_location(ast.UnaryOp(op=ast.Not(), operand=c), c)
            new = ast.copy_location(ast.If(test=neg, body=blk[k + 1:], orelse=[]), st)
            blk[k:] = [new]
            n += 1
            changed = True
            break
    return n


def _baseline_cond_values():
    try:
        return set(json.loads(BASELINE.read_text()).get("cond_values", []))
    except Exception:
        return set()


def cond_value_candidates(tree):
    """texts of the `v = A if c else B` statements the normalisation would rewrite (for the pinned inventory)"""
    out = []
    for fn in [x for x in ast.walk(tree) if isinstance(x, ast.FunctionDef)]:
        for node in ast.walk(fn):
            for fld in ("body", "orelse", "finalbody"):
                blk = getattr(node, fld, None)
                if isinstance(blk, list) and all(isinstance(x, ast.stmt) for x in blk):
                    for a, b in zip(blk, blk[1:]):
                        if _cond_value(fn, a, b) is not None:
                            out.append(_cv_key(fn, a))
    return out


def normalise_idioms(tree) -> int:
    n = _unguard(tree)
    _DictCall().visit(tree)
    keep = _baseline_cond_values()
    for fn in [x for x in ast.walk(tree) if isinstance(x, ast.FunctionDef)]:
        for node in ast.walk(fn):
            for fld in ("body", "orelse", "finalbody"):
                blk = getattr(node, fld, None)
                if not isinstance(blk, list) or len(blk) < 2 or not all(isinstance(x, ast.stmt) for x in blk):
                    continue
                i = 0
                while i + 1 < len(blk):
                    new = _cond_value(fn, blk[i], blk[i + 1])
                    if new is not None and _cv_key(fn, blk[i]) in keep:
                        new = None  # present on the pinned tree: the rules were written against this form
                    if new is not None:
                        blk[i:i + 2] = [new]
                        n += 1
                    else:
                        i += 1
    for node in ast.walk(tree):
        for fld in ("body", "orelse", "finalbody"):
            blk = getattr(node, fld, None)
            if not isinstance(blk, list) or not all(isinstance(x, ast.stmt) for x in blk):
                continue
            for k, st in enumerate(blk):
                new = _dict_get(st) or _setdefault_stmt(st)
                if new is not None:
                    blk[k] = new
                    n += 1
            # if (v := w): BODY   with w a plain name   ->   BODY with v replaced by w  (v bound nowhere else, w not re-bound
            # in BODY / the else branch): a walrus that only renames
            for k, st in enumerate(list(blk)):
                if isinstance(st, ast.If) and isinstance(st.test, ast.NamedExpr) and isinstance(st.test.value, ast.Name) and isinstance(st.test.target, ast.Name):
                    v, w = st.test.target.id, st.test.value.id
                    owner = next((f for f in ast.walk(tree) if isinstance(f, ast.FunctionDef) and any(x is st for x in ast.walk(f))), None)
                    if owner is None:
                        continue
                    v_stores = [x for x in ast.walk(owner) if isinstance(x, ast.Name) and x.id == v and isinstance(x.ctx, ast.Store)]
                    v_loads_outside = [x for x in ast.walk(owner) if isinstance(x, ast.Name) and x.id == v and isinstance(x.ctx, ast.Load) and not any(x is y for y in ast.walk(st))]
                    w_stores_inside = [x for b in [*st.body, *st.orelse] for x in ast.walk(b) if isinstance(x, ast.Name) and x.id == w and isinstance(x.ctx, ast.Store)]
                    if len(v_stores) == 1 and not v_loads_outside and not w_stores_inside:
                        class R(ast.NodeTransformer):
                            def visit_Name(self, x):
                                if x.id == v and isinstance(x.ctx, ast.Load):
                                    return ast.copy_location(ast.Name(id=w, ctx=ast.Load()), x)
                                return x

                        st.test = ast.copy_location(ast.Name(id=w, ctx=ast.Load()), st.test)
                        st.body = [R().visit(b) for b in st.body]
                        st.orelse = [R().visit(b) for b in st.orelse]
                        n += 1
            k = 0
            while k < len(blk):
                two = _span_unpack(blk[k]) or _groups_unpack(blk[k]) or _dict_update_stmt(blk[k])
                if two is not None:
                    blk[k:k + 1] = two
                    n += 1
                k += 1
            i = 0
            while i + 1 < len(blk):
                new = _get_or_create(blk[i], blk[i + 1])
                if new is not None:
                    blk[i:i + 2] = [new]
                    n += 1
                else:
                    i += 1
    return n


_RE_METHODS = {"match", "search", "fullmatch", "split", "sub", "subn", "findall", "finditer"}


def inline_compiled_regexes(tree) -> int:
    """NAME = re.compile(P[, F])  (module / class / function level, bound once)  and  NAME.match(s)  ->  re.match(P, s[, flags=F]).
    A compiled pattern's methods are the module functions with the pattern (and flags) fixed."""
    comp = {}
    stores = {}
    for n in ast.walk(tree):
        if isinstance(n, ast.Name) and isinstance(n.ctx, ast.Store):
            stores[n.id] = stores.get(n.id, 0) + 1
    for n in ast.walk(tree):
        if isinstance(n, ast.Assign) and len(n.targets) == 1 and isinstance(n.targets[0], ast.Name) and isinstance(n.value, ast.Call):
            f = n.value.func
            if isinstance(f, ast.Attribute) and f.attr == "compile" and isinstance(f.value, ast.Name) and f.value.id == "re" and n.value.args and stores.get(n.targets[0].id) == 1:
                flags = n.value.args[1] if len(n.value.args) > 1 else next((k.value for k in n.value.keywords if k.arg == "flags"), None)
                comp[n.targets[0].id] = (n.value.args[0], flags)
    if not comp:
        return 0
    cnt = 0

    class T(ast.NodeTransformer):
        def visit_Call(self, c):
            nonlocal cnt
            self.generic_visit(c)
            f = c.func
            if isinstance(f, ast.Attribute) and f.attr in _RE_METHODS:
                recv = f.value
                name = recv.id if isinstance(recv, ast.Name) else recv.attr if isinstance(recv, ast.Attribute) and isinstance(recv.value, ast.Name) else None
                if name in comp and not c.keywords and 1 <= len(c.args) <= (2 if f.attr in ("sub", "subn", "split") else 1):
                    pat, flags = comp[name]
                    new = ast.Call(
                        func=ast.Attribute(value=ast.Name(id="re", ctx=ast.Load()), attr=f.attr, ctx=ast.Load()),
                        args=[copy.deepcopy(pat), *c.args],
                        keywords=[ast.keyword(arg="flags", value=copy.deepcopy(flags))] if flags is not None else [],
                    )
                    cnt += 1
                    return ast.fix_missing_locations(ast.copy_location(new, c))
            return c

    T().visit(tree)
    return cnt


# --------------------------------------------------------------------------------------------------
# match statements -> if/elif chains (the supported pattern subset; anything else is left alone and the
# path enumerator answers "outside the analysed fragment")
# --------------------------------------------------------------------------------------------------
class _NoDesugar(Exception):
    pass


def _L(node, ref):
    for x in ast.walk(node):
        if not hasattr(x, "lineno") or x.lineno is None:
            ast.copy_location(x, ref)
    return ast.fix_missing_locations(node)


def _pat(p, subj, binds):
    """pattern -> test expression over the subject expression `subj` (an ast expr that can be copied); bindings appended to binds"""
    cp = lambda e: copy.deepcopy(e)  # noqa: E731
    if isinstance(p, ast.MatchValue):
        return ast.Compare(left=cp(subj), ops=[ast.Eq()], comparators=[p.value])
    if isinstance(p, ast.MatchSingleton):
        return ast.Compare(left=cp(subj), ops=[ast.Is()], comparators=[ast.Constant(value=p.value)])
    if isinstance(p, ast.MatchAs):
        t = ast.Constant(value=True) if p.pattern is None else _pat(p.pattern, subj, binds)
        if p.name is not None:
            binds.append((p.name, cp(subj)))
        return t
    if isinstance(p, ast.MatchOr):
        sub = []
        for q in p.patterns:
            b2 = []
            sub.append(_pat(q, subj, b2))
            if b2:
                raise _NoDesugar("bindings inside an or-pattern")
        return ast.BoolOp(op=ast.Or(), values=sub)
    if isinstance(p, ast.MatchSequence):
        stars = [i for i, q in enumerate(p.patterns) if isinstance(q, ast.MatchStar)]
        if len(stars) > 1:
            raise _NoDesugar("two star patterns")
        n = len(p.patterns)
        if isinstance(subj, ast.Tuple | ast.List) and not stars and len(subj.elts) == n:
            tests = [_pat(q, e, binds) for q, e in zip(p.patterns, subj.elts)]
        else:
            ln = ast.Call(func=ast.Name(id="len", ctx=ast.Load()), args=[cp(subj)], keywords=[])
            if stars:
                tests = [ast.Compare(left=ln, ops=[ast.GtE()], comparators=[ast.Constant(value=n - 1)])]
            else:
                tests = [ast.Compare(left=ln, ops=[ast.Eq()], comparators=[ast.Constant(value=n)])]
            for i, q in enumerate(p.patterns):
                if isinstance(q, ast.MatchStar):
                    if q.name is not None:
                        lo = ast.Constant(value=i) if i else None
                        hi = ast.Constant(value=-(n - 1 - i)) if n - 1 - i else None
                        binds.append((q.name, ast.Call(func=ast.Name(id="list", ctx=ast.Load()), args=[ast.Subscript(value=cp(subj), slice=ast.Slice(lower=lo, upper=hi, step=None), ctx=ast.Load())], keywords=[])))
                    continue
                k = i if not stars or i < stars[0] else -(n - i)
                el = ast.Subscript(value=cp(subj), slice=ast.Constant(value=k), ctx=ast.Load())
                tests.append(_pat(q, el, binds))
        tests = [t for t in tests if not (isinstance(t, ast.Constant) and t.value is True)]
        if not tests:
            return ast.Constant(value=True)
        return tests[0] if len(tests) == 1 else ast.BoolOp(op=ast.And(), values=tests)
    raise _NoDesugar(type(p).__name__)


def _subst_names(e, mapping):
    class T(ast.NodeTransformer):
        def visit_Name(self, n):
            if isinstance(n.ctx, ast.Load) and n.id in mapping:
                return copy.deepcopy(mapping[n.id])
            return n

    return T().visit(copy.deepcopy(e))


def desugar_match(tree) -> int:
    cnt = 0
    tmp = 0

    def rewrite(m: ast.Match):
        nonlocal tmp
        pre = []
        subj = m.subject
        simple = isinstance(subj, ast.Name | ast.Attribute | ast.Constant) or (isinstance(subj, ast.Tuple | ast.List) and all(isinstance(e, ast.Name | ast.Attribute | ast.Constant | ast.Subscript) for e in subj.elts)) or (isinstance(subj, ast.Subscript) and isinstance(subj.value, ast.Name) and isinstance(subj.slice, ast.Constant))
        if not simple:
            tmp += 1
            nm = f"match_subject__{tmp}"
            pre.append(ast.Assign(targets=[ast.Name(id=nm, ctx=ast.Store())], value=subj))
            subj = ast.Name(id=nm, ctx=ast.Load())
        branches = []
        for c in m.cases:
            binds = []
            test = _pat(c.pattern, subj, binds)
            body = [ast.Assign(targets=[ast.Name(id=n, ctx=ast.Store())], value=v) for n, v in binds] + c.body
            if c.guard is not None:
                g = _subst_names(c.guard, dict(binds)) if binds else c.guard
                test = g if (isinstance(test, ast.Constant) and test.value is True) else ast.BoolOp(op=ast.And(), values=[test, g])
            branches.append((test, body))
        node = None
        for test, body in reversed(branches):
            if isinstance(test, ast.Constant) and test.value is True:
                node_body = body
                node = ("else", node_body) if node is None else node  # unreachable later cases are dropped by Python too
                if node[0] == "else" and node[1] is not node_body:
                    node = ("else", node_body)
                continue
            iff = ast.If(test=test, body=body, orelse=[] if node is None else (node[1] if node[0] == "else" else [node[1]]))
            node = ("if", iff)
        if node is None:
            return pre
        out = node[1] if node[0] == "else" else [node[1]]
        return [_L(x, m) for x in pre + out]

    for _ in range(6):  # nested matches surface after their parent has been rewritten
        before = cnt
        for parent in list(ast.walk(tree)):
            for fld in ("body", "orelse", "finalbody"):
                blk = getattr(parent, fld, None)
                if not isinstance(blk, list):
                    continue
                i = 0
                while i < len(blk):
                    if isinstance(blk[i], ast.Match):
                        try:
                            new = rewrite(blk[i])
                        except _NoDesugar:
                            i += 1
                            continue
                        blk[i:i + 1] = new
                        cnt += 1
                        continue
                    i += 1
        if cnt == before:
            break
    return cnt


def normalise_map_calls(tree) -> int:
    """map(attrgetter("a"), X) -> (x.a for x in X);  map(f, X) with a plain callable name -> (f(x) for x in X).
    Module-level `NAME = attrgetter("a")` bound once is looked through.  (Lazy in both forms.)"""
    getters = {}
    stores = {}
    for n in ast.walk(tree):
        if isinstance(n, ast.Name) and isinstance(n.ctx, ast.Store):
            stores[n.id] = stores.get(n.id, 0) + 1

    def attr_of(e):
        if isinstance(e, ast.Call) and (isinstance(e.func, ast.Name) and e.func.id == "attrgetter" or isinstance(e.func, ast.Attribute) and e.func.attr == "attrgetter") and len(e.args) == 1 and isinstance(e.args[0], ast.Constant) and isinstance(e.args[0].value, str) and e.args[0].value.isidentifier():
            return e.args[0].value
        return None

    for n in ast.walk(tree):
        if isinstance(n, ast.Assign) and len(n.targets) == 1 and isinstance(n.targets[0], ast.Name) and stores.get(n.targets[0].id) == 1 and attr_of(n.value):
            getters[n.targets[0].id] = attr_of(n.value)
    cnt = 0
    k = 0

    class T(ast.NodeTransformer):
        def visit_Call(self, c):
            nonlocal cnt, k
            self.generic_visit(c)
            if isinstance(c.func, ast.Name) and c.func.id == "map" and len(c.args) == 2 and not c.keywords:
                f, it = c.args
                a = attr_of(f) or (getters.get(f.id) if isinstance(f, ast.Name) else None)
                k += 1
                v = f"map_item__{k}"
                if a:
                    elt = ast.Attribute(value=ast.Name(id=v, ctx=ast.Load()), attr=a, ctx=ast.Load())
                elif isinstance(f, ast.Name | ast.Attribute):
                    elt = ast.Call(func=f, args=[ast.Name(id=v, ctx=ast.Load())], keywords=[])
                else:
                    return c
                g = ast.GeneratorExp(elt=elt, generators=[ast.comprehension(target=ast.Name(id=v, ctx=ast.Store()), iter=it, ifs=[], is_async=0)])
                cnt += 1
                return _L(g, c)
            return c

    T().visit(tree)
    return cnt
