"""Checker self-validation: apply seeded variants of the repository source to a scratch
copy (outside /repo and /verif, removed afterwards) and require that

  * a *breaking* variant makes the property's check exit 1 and name the expected rule,
  * a *benign* twin (behaviour-preserving edit) leaves it silent (exit 0).

Variants live in /verif/selftest/variants/<PROP>.json:
  [{"id": "...", "kind": "break"|"benign", "file": "src/tola/...", "old": "...", "new": "...",
    "rule": "R2", "why": "..."} , ...]
`old` must occur exactly once in the file (after known fix commits); a variant that does not
apply is reported as skipped, never as a result.  Multi-edit variants use "edits": [{file, old, new}].
"""

from __future__ import annotations

import json
import os
import shutil
import subprocess
import sys
import tempfile
from concurrent.futures import ThreadPoolExecutor
from pathlib import Path

HERE = Path(__file__).resolve().parent
VERIF = HERE.parent
VARIANTS = VERIF / "selftest" / "variants"


GLOBAL_BENIGN = [
    {"id": "global-unparse", "kind": "benign", "transform": "unparse", "why": "every module re-printed by ast.unparse (comments, layout, quotes, redundant parentheses gone)"},
    {"id": "global-rename-locals", "kind": "benign", "transform": "rename", "why": "every local variable of every function renamed (648 names), nonlocals kept consistent"},
    {"id": "global-instrument", "kind": "benign", "transform": "instrument", "why": "a logging.debug call inserted at the top of every function"},
    {"id": "global-mirror-compare", "kind": "benign", "transform": "mirror", "why": "every comparison of side-effect-free operands mirrored (a < b -> b > a, a == b -> b == a)"},
    {"id": "global-augassign-expand", "kind": "benign", "transform": "augexpand", "why": "every x += y / x -= y rewritten as x = x + y / x = x - y"},
    {"id": "global-return-ifexp", "kind": "benign", "transform": "returnifexp", "why": "every `if c: return A else: return B` rewritten as `return A if c else B`"},
    {"id": "global-negate-if", "kind": "benign", "transform": "negateif", "why": "every if/else rewritten as `if not c: <else-branch> else: <then-branch>`"},
]


def benign_corpus():
    """Behaviour-preserving refactorings written by independent sub-agents (/verif/benign/<name>/patch.diff, each verified
    by the 64 tests and by its own equivalence script): every one must leave every check silent."""
    out = []
    for d in sorted((VERIF / "benign").glob("*/patch.diff")):
        out.append({"id": f"refactor-{d.parent.name}", "kind": "benign", "patch": str(d.relative_to(VERIF)), "why": f"independent behaviour-preserving refactoring {d.parent.name} (see benign/{d.parent.name}/notes.md)"})
    # rewrites so deep that some rule no longer recognises the construct it reasons about: the check may answer
    # "no verdict" (exit 2) but must never print a VIOLATION
    for d in sorted((VERIF / "benign_deep").glob("*/patch.diff")):
        out.append({"id": f"deep-refactor-{d.parent.name}", "kind": "benign-or-noverdict", "patch": str(d.relative_to(VERIF)), "why": f"behaviour-preserving deep rewrite {d.parent.name}: exit 0 or 2 accepted, never 1"})
    return out


def load(prop):
    p = VARIANTS / f"{prop}.json"
    if not p.exists():
        return []
    return json.loads(p.read_text()) + GLOBAL_BENIGN + benign_corpus()


def make_scratch(root) -> Path:
    base = Path(tempfile.mkdtemp(prefix="verif-selftest-", dir=os.environ.get("TMPDIR") or "/tmp"))
    root = Path(root)
    shutil.copytree(root / "src", base / "src", ignore=shutil.ignore_patterns("__pycache__", "*.pyc", "*.egg-info"))
    for f in ("pyproject.toml",):
        if (root / f).exists():
            shutil.copy(root / f, base / f)
    return base


def apply_variant(v, scratch: Path):
    if v.get("transform"):
        r = subprocess.run([sys.executable, "-B", str(VERIF / "tools" / "benign_rename.py"), str(scratch / "src"), v["transform"]], capture_output=True, text=True)
        if r.returncode != 0:
            return "transform failed: " + (r.stdout + r.stderr).strip()[-200:]
        return None
    if v.get("patch"):
        pf = VERIF / v["patch"]
        if not pf.exists():
            return f"patch file {v['patch']} missing"
        # only the part of the patch that touches what the checks read (src/, pyproject.toml); docs and tests are not copied
        r = subprocess.run(["git", "apply", "--whitespace=nowarn", "--include=src/*", "--include=pyproject.toml", str(pf)], cwd=scratch, capture_output=True, text=True)
        if r.returncode != 0:
            r = subprocess.run(["patch", "-p1", "-s", "--no-backup-if-mismatch", "-i", str(pf)], cwd=scratch, capture_output=True, text=True)
            if r.returncode != 0:
                return "patch does not apply: " + (r.stdout + r.stderr).strip()[:200]
        return None
    edits = v.get("edits") or [{"file": v["file"], "old": v["old"], "new": v["new"]}]
    for e in edits:
        p = scratch / e["file"]
        if not p.exists():
            return f"file {e['file']} missing"
        s = p.read_text()
        n = s.count(e["old"])
        if n != 1:
            return f"'old' text occurs {n} times in {e['file']}"
        s = s.replace(e["old"], e["new"])
        try:
            compile(s, str(p), "exec")
        except SyntaxError as ex:
            return f"variant does not compile: {ex}"
        p.write_text(s)
    return None


def run_variant(prop, v, root):
    scratch = make_scratch(root)
    try:
        err = apply_variant(v, scratch)
        if err:
            return v, "skipped", err, ""
        cmd = [sys.executable, "-B", str(HERE / "cli.py"), prop, "--root", str(scratch), "--no-evidence", "--tier", "quick"]
        try:
            r = subprocess.run(cmd, capture_output=True, text=True, timeout=900)
        except subprocess.TimeoutExpired:
            return v, "skipped", "check did not finish within 900 s on this variant (machine overloaded?)", ""
        out = r.stdout + r.stderr
        if v["kind"] == "break":
            if r.returncode != 1:
                return v, "FAIL", f"expected exit 1, got {r.returncode}", out
            rule = v.get("rule")
            if rule and f"{prop}.{rule} refuted" not in out:
                return v, "FAIL", f"violation reported but not by rule {rule}", out
            return v, "ok", "detected", out
        elif v["kind"] == "break-or-noverdict":
            # a breaking change in a function rewritten beyond the trust region of the shape rules: exit 1 or 2, never 0
            if r.returncode == 0:
                return v, "FAIL", "breaking variant passed silently (exit 0)", out
            return v, "ok", "detected" if r.returncode == 1 else "no verdict", out
        elif v["kind"] == "benign-or-noverdict":
            if r.returncode == 1 or "VIOLATION" in out:
                return v, "FAIL", "deep rewrite: a VIOLATION was printed on behaviour-preserving code", out
            return v, "ok", "silent" if r.returncode == 0 else "no verdict", out
        else:
            if r.returncode != 0:
                return v, "FAIL", f"benign variant: expected exit 0, got {r.returncode}", out
            return v, "ok", "silent", out
    finally:
        shutil.rmtree(scratch, ignore_errors=True)


def run_for(prop, root="/repo", jobs=16, verbose=True, only=None, want_info=False):
    variants = load(prop)
    if only:
        variants = [v for v in variants if v["id"] in only]
    if not variants:
        if verbose:
            print(f"selftest {prop}: no variants")
        return (0, {"variants": 0}) if want_info else 0
    bad = 0
    skipped = 0
    # Memo of variant verdicts.  The key covers everything a verdict depends on: every file of the analyser, the variant itself
    # (its JSON entry and, for patch variants, the patch text) and every source file of the repository under test.  Only "ok"
    # outcomes are remembered; anything else is always recomputed.  Any change to the analyser, a variant or the repository
    # empties the memo.  SA_SELFTEST_NOCACHE=1 ignores it.
    import hashlib

    def _digest_tree(base, pats):
        h = hashlib.sha1()
        for pat in pats:
            for f in sorted(Path(base).glob(pat)):
                if f.is_file() and "__pycache__" not in f.parts:
                    h.update(str(f.relative_to(base)).encode())
                    h.update(f.read_bytes())
        return h.hexdigest()

    # analyser files this property's check can execute: the engines, the shared rule modules, its own rule module and the rule
    # modules that one imports
    import re as _re

    mods = {f"rules/{prop.lower()}.py", "rules/shared.py", "rules/keys.py", "rules/__init__.py"}
    frontier = [HERE / "rules" / f"{prop.lower()}.py"]
    while frontier:
        f_ = frontier.pop()
        if not f_.exists():
            continue
        for m_ in _re.findall(r"from \.(c\d\d) import|from \. import (c\d\d)|import_module\([\"']sa\.rules\.(c\d\d)", f_.read_text()):
            nm = next(x for x in m_ if x)
            rel = f"rules/{nm}.py"
            if rel not in mods:
                mods.add(rel)
                frontier.append(HERE / rel)
    sa_d = _digest_tree(HERE, ["*.py", "*.json", *sorted(mods)])
    repo_d = _digest_tree(root, ["src/**/*.py", "pyproject.toml"])
    cache_f = VERIF / "selftest" / "cache" / f"{prop}.json"
    try:
        cache = json.loads(cache_f.read_text()) if not os.environ.get("SA_SELFTEST_NOCACHE") else {}
    except Exception:
        cache = {}
    if cache.get("_sa") != sa_d or cache.get("_repo") != repo_d:
        cache = {"_sa": sa_d, "_repo": repo_d}

    def _vkey(v):
        h = hashlib.sha1(json.dumps(v, sort_keys=True).encode())
        if v.get("patch") and (VERIF / v["patch"]).exists():
            h.update((VERIF / v["patch"]).read_bytes())
        return h.hexdigest()

    def _one(v):
        k = _vkey(v)
        hit = cache.get(k)
        if hit is not None:
            return v, "ok", hit + " [memo]", ""
        res = run_variant(prop, v, root)
        if res[1] == "ok":
            cache[k] = res[2]
        return res

    with ThreadPoolExecutor(max_workers=max(1, jobs)) as ex:
        results = list(ex.map(_one, variants))
    if not only:
        try:
            cache_f.parent.mkdir(parents=True, exist_ok=True)
            cache_f.write_text(json.dumps(cache, indent=0, sort_keys=True) + "\n")
        except Exception:
            pass
    for v, status, msg, out in results:
        if status == "FAIL":
            bad += 1
            print(f"selftest {prop} {v['id']} [{v['kind']}]: FAIL — {msg}")
            print("   | " + "\n   | ".join(out.strip().splitlines()[-12:]))
        elif status == "skipped":
            skipped += 1
            print(f"selftest {prop} {v['id']} [{v['kind']}]: skipped — {msg}")
        elif verbose:
            print(f"selftest {prop} {v['id']} [{v['kind']}]: ok ({msg})")
    n = len(results)
    print(f"selftest {prop}: {n - bad - skipped}/{n} ok, {skipped} skipped, {bad} failed")
    info = {
        "variants": n,
        "breaking_detected": sum(1 for v, s_, m, o in results if v["kind"] == "break" and s_ == "ok"),
        "benign_silent": sum(1 for v, s_, m, o in results if v["kind"] == "benign" and s_ == "ok"),
        "deep_rewrites_no_false_alarm": sum(1 for v, s_, m, o in results if v["kind"] == "benign-or-noverdict" and s_ == "ok"),
        "verdicts_from_memo": sum(1 for v, s_, m, o in results if m.endswith("[memo]")),
        "memo_key": "sha1(analyser files) + sha1(repository sources) + sha1(variant): recomputed on any change",
        "skipped": [v["id"] for v, s_, m, o in results if s_ == "skipped"],
        "failed": [v["id"] for v, s_, m, o in results if s_ == "FAIL"],
        "ids": [f"{v['id']}[{v['kind']}{':' + v['rule'] if v.get('rule') else ''}]" for v, s_, m, o in results],
    }
    return ((1 if bad else 0), info) if want_info else (1 if bad else 0)


if __name__ == "__main__":
    props = sys.argv[1:] or sorted(p.stem for p in VARIANTS.glob("*.json"))
    rc = 0
    for p in props:
        rc |= run_for(p)
    sys.exit(rc)
