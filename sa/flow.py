"""E2 `flow`: structured control flow of one function as an explicit set of paths.

A path is a list of events.  Loops are unrolled a bounded number of times (the bound is
a parameter: rules that need an *inductive* loop argument use the symbolic engine's
loop-invariant mode instead; rules of the form "every X is followed by Y" are decided
over the unrollings 0, 1, 2 — sufficient because the statement kinds are structured and
every simple cycle is traversed at least once).
"""

from __future__ import annotations

import ast
from dataclasses import dataclass, field

from .model import AnalysisError, norm

MAX_PATHS = 20000


@dataclass
class Ev:
    kind: str  # stmt | cond | iter | return | raise | break | continue | exc | with | endwith | implicit_return
    node: ast.AST
    val: object = None

    def __repr__(self):
        t = norm(self.node)[:60] if self.node is not None else ""
        return f"{self.kind}[{self.val}]:{t}" if self.val is not None else f"{self.kind}:{t}"


@dataclass
class Path:
    events: list = field(default_factory=list)
    status: str = "fall"  # fall | return | raise | break | continue
    truncated: bool = False

    def extended(self, evs, status=None):
        return Path(self.events + list(evs), status or self.status, self.truncated)

    def describe(self, limit=12):
        out = []
        for e in self.events:
            if e.kind == "cond":
                out.append(f"{'T' if e.val else 'F'}({norm(e.node)[:50]})@{e.node.lineno}")
            elif e.kind in ("return", "raise", "exc"):
                out.append(f"{e.kind}@{e.node.lineno}")
            elif e.kind == "iter":
                out.append(f"for[{e.val}]@{e.node.lineno}")
        return " -> ".join(out[-limit:])


class PathEnum:
    def __init__(self, loop_iters=(0, 1), max_paths=MAX_PATHS, exc_edges=True, per_loop=None):
        self.default_iters = tuple(loop_iters)
        self.loop_iters = tuple(loop_iters)
        self.per_loop = per_loop  # optional callable(loop node) -> tuple of iteration counts | None
        self.max_paths = max_paths
        self.exc_edges = exc_edges

    # ------------------------------------------------------------------ API

    def function_paths(self, fnode) -> list[Path]:
        paths = self.block(fnode.body)
        out = []
        for p in paths:
            if p.status == "fall":
                p = p.extended([Ev("implicit_return", fnode)], "return")
            if p.status in ("break", "continue"):
                raise AnalysisError(f"stray {p.status} in {fnode.name}")
            out.append(p)
        return out

    def block(self, stmts) -> list[Path]:
        paths = [Path()]
        for s in stmts:
            nxt = []
            live = [p for p in paths if p.status == "fall"]
            done = [p for p in paths if p.status != "fall"]
            if not live:
                break
            sub = self.stmt(s)
            for p in live:
                for q in sub:
                    nxt.append(Path(p.events + q.events, q.status, p.truncated or q.truncated))
            paths = done + nxt
            if len(paths) > self.max_paths:
                raise AnalysisError(f"path cap {self.max_paths} exceeded at line {s.lineno}")
        return paths

    # ------------------------------------------------------------------ statements

    def stmt(self, s) -> list[Path]:
        if isinstance(s, ast.If):
            t = [Path([Ev("cond", s.test, True)] + p.events, p.status, p.truncated) for p in self.block(s.body)]
            f = [Path([Ev("cond", s.test, False)] + p.events, p.status, p.truncated) for p in self.block(s.orelse)]
            return t + f
        if isinstance(s, ast.While):
            return self.loop(s, is_for=False)
        if isinstance(s, ast.For | ast.AsyncFor):
            return self.loop(s, is_for=True)
        if isinstance(s, ast.Return):
            return [Path([Ev("return", s)], "return")]
        if isinstance(s, ast.Raise):
            return [Path([Ev("raise", s)], "raise")]
        if isinstance(s, ast.Break):
            return [Path([Ev("break", s)], "break")]
        if isinstance(s, ast.Continue):
            return [Path([Ev("continue", s)], "continue")]
        if isinstance(s, ast.With | ast.AsyncWith):
            body = self.block(s.body)
            out = []
            for p in body:
                evs = [Ev("with", s)] + p.events + [Ev("endwith", s)]
                out.append(Path(evs, p.status, p.truncated))
            return out
        if isinstance(s, ast.Try):
            return self.try_(s)
        if isinstance(s, ast.Match):
            raise AnalysisError(f"match statement at line {s.lineno} is outside the analysed fragment")
        if hasattr(ast, "TryStar") and isinstance(s, ast.TryStar):
            raise AnalysisError(f"try* at line {s.lineno} is outside the analysed fragment")
        return [Path([Ev("stmt", s)])]

    def loop(self, s, is_for) -> list[Path]:
        const_true = (not is_for) and isinstance(s.test, ast.Constant) and bool(s.test.value)
        iters = self.default_iters
        if self.per_loop is not None:
            custom = self.per_loop(s)
            if custom is not None:
                iters = tuple(custom)
        max_it = max(iters)
        results = []

        def enter(k):
            return Ev("iter", s, ("next", k)) if is_for else Ev("cond", s.test, True)

        def leave(k):
            return Ev("iter", s, ("done", k)) if is_for else Ev("cond", s.test, False)

        # state: list of partial paths currently at loop head after k iterations
        heads = [Path()]
        for k in range(max_it + 1):
            # exit normally after k iterations
            if not const_true and (k in iters or k == max_it):
                for h in heads:
                    tail = self.block(s.orelse) if s.orelse else [Path()]
                    for t in tail:
                        results.append(Path(h.events + [leave(k)] + t.events, t.status, h.truncated or t.truncated))
            if k == max_it:
                # paths still looping after the bound are dropped (bounded unrolling)
                break
            body = self.block(s.body)
            nxt = []
            for h in heads:
                for b in body:
                    evs = h.events + [enter(k)] + b.events
                    if b.status in ("fall", "continue"):
                        nxt.append(Path(evs, "fall", h.truncated or b.truncated))
                    elif b.status == "break":
                        results.append(Path(evs, "fall", h.truncated or b.truncated))
                    else:
                        results.append(Path(evs, b.status, h.truncated or b.truncated))
            heads = nxt
            if len(heads) + len(results) > self.max_paths:
                raise AnalysisError(f"path cap exceeded in loop at line {s.lineno}")
            if not heads:
                break
        return results

    def try_(self, s) -> list[Path]:
        body = self.block(s.body)
        out = []
        handlers = s.handlers
        for p in body:
            if p.status == "raise" and handlers:
                # explicit raise inside try: goes to every handler (types not resolved)
                for h in handlers:
                    for hp in self.block(h.body):
                        out.append(Path(p.events + [Ev("exc", h, "explicit")] + hp.events, hp.status, p.truncated or hp.truncated))
                continue
            if p.status == "fall" and s.orelse:
                for ep in self.block(s.orelse):
                    out.append(Path(p.events + ep.events, ep.status, p.truncated or ep.truncated))
            else:
                out.append(p)
        if self.exc_edges:
            for h in handlers:
                for i, st in enumerate(s.body):
                    for pre in self.block(s.body[:i]):
                        if pre.status != "fall":
                            continue
                        for hp in self.block(h.body):
                            out.append(
                                Path(
                                    pre.events + [Ev("exc", h, st)] + hp.events,
                                    hp.status,
                                    pre.truncated or hp.truncated,
                                )
                            )
        if s.finalbody:
            fin = self.block(s.finalbody)
            res = []
            for p in out:
                for f in fin:
                    status = f.status if f.status != "fall" else p.status
                    res.append(Path(p.events + f.events, status, p.truncated or f.truncated))
            out = res
        return out


# ---------------------------------------------------------------------- utilities


def stmt_events(path: Path):
    """All AST nodes 'executed' on a path: statements and tested conditions."""
    for e in path.events:
        if e.kind in ("stmt", "cond", "return", "raise", "with"):
            yield e


def calls_on_path(path: Path):
    """(event index, Call node) in evaluation order (approximately source order)."""
    from .model import walk_shallow

    for i, e in enumerate(path.events):
        if e.kind in ("stmt", "return", "raise"):
            nodes = [e.node]
        elif e.kind == "cond":
            nodes = [e.node]
        elif e.kind == "with":
            nodes = [it.context_expr for it in e.node.items]
        elif e.kind == "iter" and e.val[0] == "next" and e.val[1] == 0:
            nodes = [e.node.iter]
        else:
            continue
        for root in nodes:
            found = [n for n in [root, *walk_shallow(root)] if isinstance(n, ast.Call)]
            found.sort(key=lambda n: (n.end_lineno, n.end_col_offset))
            for c in found:
                yield i, c


def cond_facts(test, truth: bool):
    """Atomic facts implied by a branch condition: list of (expr, truth).
    `a and b` true => a, b ; `a or b` false => not a, not b ; `not a` flips."""
    out = []
    if isinstance(test, ast.BoolOp):
        if isinstance(test.op, ast.And) and truth:
            for v in test.values:
                out.extend(cond_facts(v, True))
            return out
        if isinstance(test.op, ast.Or) and not truth:
            for v in test.values:
                out.extend(cond_facts(v, False))
            return out
        return [(test, truth)]
    if isinstance(test, ast.UnaryOp) and isinstance(test.op, ast.Not):
        return cond_facts(test.operand, not truth)
    if isinstance(test, ast.NamedExpr):
        return [(test, truth), *cond_facts(test.value, truth)]
    # emptiness written with len():  len(x) != 0 / len(x) > 0 / len(x) >= 1 / 0 < len(x)  is the truthiness of a sized x
    # (lists, tuples, dicts, sets, strings, bytes: everything len() accepts here is falsy exactly when empty)
    if isinstance(test, ast.Compare) and len(test.ops) == 1:
        l, op, r = test.left, test.ops[0], test.comparators[0]

        def is_len(e):
            return isinstance(e, ast.Call) and isinstance(e.func, ast.Name) and e.func.id == "len" and len(e.args) == 1 and not e.keywords

        def const(e):
            return e.value if isinstance(e, ast.Constant) and isinstance(e.value, int) and not isinstance(e.value, bool) else None

        nonempty = None
        if is_len(l) and const(r) is not None:
            k = const(r)
            nonempty = {(ast.NotEq, 0): True, (ast.Gt, 0): True, (ast.GtE, 1): True, (ast.Eq, 0): False, (ast.Lt, 1): False, (ast.LtE, 0): False}.get((type(op), k))
            x = l.args[0]
        elif is_len(r) and const(l) is not None:
            k = const(l)
            nonempty = {(ast.NotEq, 0): True, (ast.Lt, 0): True, (ast.LtE, 1): True, (ast.Eq, 0): False, (ast.Gt, 1): False, (ast.GtE, 0): False}.get((type(op), k))
            x = r.args[0]
        if nonempty is not None:
            return [(test, truth), (x, nonempty if truth else not nonempty)]
    if isinstance(test, ast.Call) and isinstance(test.func, ast.Name) and test.func.id == "len" and len(test.args) == 1 and not test.keywords:
        return [(test, truth), (test.args[0], truth)]
    return [(test, truth)]
