"""E10: a small interprocedural taint tracker for *value* sources (pid, time, random, environment ...).

Question answered: can the value produced by a source call reach the *content* of something the tools write (or the name of an
output), or does it stay inside temporary-file names, diagnostics and error messages?

The tracker follows the value through expressions, locals, module globals, returns (to every resolved call site), parameters
of resolved repo callees, loop targets and with-items, and through the control dependence of branches on a tainted test.
Outcomes:
  sink    -- the value is handed to a writer (``.write``, ``print``, a dumper ...): a positive finding
  escape  -- the value goes somewhere the tracker does not model (object state, an unresolved call, a container that is
             handed on): no verdict
Nothing of either kind: the value provably stays within neutral uses (path operations that only *name* a file, logging,
exception messages).
"""
from __future__ import annotations

import ast

from .model import Func, Repo, dotted, norm, walk_shallow

# method calls on a tainted *receiver* whose result still carries the value
DERIVE_METHODS = {
    "with_name", "with_suffix", "with_stem", "joinpath", "resolve", "absolute", "expanduser", "format", "join", "encode", "decode",
    "strip", "lstrip", "rstrip", "lower", "upper", "zfill", "replace_", "removesuffix", "removeprefix", "split", "rsplit", "as_posix", "relative_to",
    "hexdigest", "hex", "to_bytes", "__str__", "__repr__", "__format__", "__add__", "__mod__", "copy", "get", "items", "values", "keys",
}
DERIVE_ATTRS = {"parent", "name", "stem", "suffix", "parts", "st_mtime", "st_size", "st_mtime_ns", "real", "imag"}
# method calls on a tainted receiver (a path naming a scratch file) that only act on the file system / give a fresh handle
NEUTRAL_METHODS = {"open", "exists", "is_file", "is_dir", "unlink", "touch", "mkdir", "rmdir", "replace", "rename", "stat", "lstat", "chmod", "samefile", "close", "startswith", "endswith"}
# free functions taking the value as a *name* of something on disk, or as a diagnostic
NEUTRAL_FUNCS_PREFIX = ("logging.", "log.", "logger.", "warnings.")
NEUTRAL_FUNCS = {"os.replace", "os.rename", "os.unlink", "os.remove", "os.path.exists", "os.stat", "os.chmod", "os.kill", "os.close", "shutil.move", "shutil.rmtree", "open", "io.open", "os.open", "os.fsync", "isinstance", "len", "bool", "click.echo_via_pager", "os.makedirs", "os.mkdir"}
DERIVE_FUNCS = {"str", "int", "float", "repr", "format", "bytes", "tuple", "list", "Path", "pathlib.Path", "PurePath", "os.path.join", "os.fspath", "os.path.dirname", "os.path.basename", "abs", "hex", "oct", "round", "min", "max", "sorted", "dict", "set", "frozenset", "hash", "divmod", "sum"}
PURE_BUILTINS = {"id", "hash", "len", "str", "int", "float", "repr", "isinstance", "issubclass", "type", "bool", "tuple", "list", "dict", "set", "frozenset", "sorted", "min", "max", "sum", "abs", "any", "all", "enumerate", "zip", "range", "reversed", "getattr", "hasattr", "format", "bytes", "ord", "chr", "round", "divmod", "iter", "next", "map", "filter"}
SINK_METHODS = {"write", "writelines", "write_text", "write_bytes", "writerow", "writerows", "send", "sendall"}
SINK_FUNCS = {"print", "click.echo", "yaml.dump", "yaml.safe_dump", "json.dump", "json.dumps", "pickle.dump", "sys.stdout.write", "sys.stderr.write"}


class Flow:
    def __init__(self):
        self.sinks: list[tuple[str, str]] = []  # (description, location)
        self.escapes: list[tuple[str, str]] = []
        self.neutral: list[str] = []
        self.places = 0


def track(repo: Repo, f: Func | None, source: ast.AST, module=None, max_places: int = 400) -> Flow:
    """Follow the value of expression `source` (inside function f, or at module level of `module` when f is None)."""
    out = Flow()
    seen: set = set()
    work: list = []

    def loc(fn, node):
        if fn is not None:
            return fn.loc(node)
        return f"{module.relpath}:{getattr(node, 'lineno', 0)}"

    def push(place):
        if place not in seen:
            seen.add(place)
            work.append(place)

    def globals_declared(fn):
        return {n for g in walk_shallow(fn.node) if isinstance(g, ast.Global) for n in g.names} if fn is not None else set()

    def taint_target(fn, mod, t, node):
        if isinstance(t, ast.Name):
            if fn is None or t.id in globals_declared(fn):
                push(("global", mod.name, t.id))
            else:
                push(("local", fn.qualname, t.id))
        elif isinstance(t, ast.Tuple | ast.List):
            for e in t.elts:
                taint_target(fn, mod, e.value if isinstance(e, ast.Starred) else e, node)
        elif isinstance(t, ast.Subscript):
            root = t.value
            while isinstance(root, ast.Subscript):
                root = root.value
            if isinstance(root, ast.Name):
                taint_target(fn, mod, root, node)
            else:
                out.escapes.append((f"stored into '{norm(t)[:50]}'", loc(fn, node)))
        elif isinstance(t, ast.Attribute):
            owner = repo.infer_class(t.value, fn) if fn is not None else None
            if owner is None:
                out.escapes.append((f"stored into object state '{norm(t)[:50]}' of an object whose class is not known", loc(fn, node)))
            else:
                push(("field", owner.name, t.attr))
        else:
            out.escapes.append((f"stored into '{norm(t)[:50]}'", loc(fn, node)))

    def control(fn, mod, stmt_blocks, test_node):
        """a branch decided by a tainted test: what the branch does becomes value-dependent"""
        for blk in stmt_blocks:
            for st in blk:
                for n in [st, *walk_shallow(st)]:
                    if isinstance(n, ast.Assign | ast.AnnAssign | ast.AugAssign):
                        tg = n.targets if isinstance(n, ast.Assign) else [n.target]
                        for t in tg:
                            taint_target(fn, mod, t, n)
                    elif isinstance(n, ast.NamedExpr):
                        taint_target(fn, mod, n.target, n)
                    elif isinstance(n, ast.Return | ast.Yield | ast.YieldFrom):
                        if fn is not None:
                            push(("return", fn.qualname))
                    elif isinstance(n, ast.Call):
                        d = dotted(n.func) or ""
                        if d.startswith(NEUTRAL_FUNCS_PREFIX) or d in NEUTRAL_FUNCS or d in DERIVE_FUNCS:
                            continue
                        if isinstance(n.func, ast.Name) and n.func.id in PURE_BUILTINS:
                            continue
                        if isinstance(n.func, ast.Attribute) and n.func.attr in (NEUTRAL_METHODS | DERIVE_METHODS):
                            continue
                        par = getattr(n, "_parent", None)
                        if isinstance(par, ast.Raise):
                            continue
                        if isinstance(n.func, ast.Name) and n.func.id[:1].isupper() and isinstance(par, ast.Raise | ast.Call):
                            continue
                        if isinstance(n.func, ast.Attribute) and n.func.attr in SINK_METHODS or d in SINK_FUNCS:
                            out.escapes.append((f"'{norm(n)[:50]}' executes only for some values of the source", loc(fn, n)))
                        else:
                            out.escapes.append((f"call '{norm(n)[:50]}' executes only for some values of the source", loc(fn, n)))

    def use(fn, mod, node):
        """node is an expression whose value is tainted: climb to see what consumes it"""
        cur = node
        while True:
            par = getattr(cur, "_parent", None)
            if par is None:
                return
            # ---- expressions that carry the value on
            if isinstance(par, ast.JoinedStr | ast.FormattedValue | ast.BinOp | ast.UnaryOp | ast.Tuple | ast.List | ast.Set | ast.Starred | ast.BoolOp | ast.Compare | ast.Await):
                cur = par
                continue
            if isinstance(par, ast.Dict):
                cur = par
                continue
            if isinstance(par, ast.Subscript):
                cur = par
                continue
            if isinstance(par, ast.Slice):
                cur = par
                continue
            if isinstance(par, ast.IfExp):
                if cur is par.test:
                    cur = par  # value selection depends on it
                else:
                    cur = par
                continue
            if isinstance(par, ast.keyword):
                cur = par
                continue
            if isinstance(par, ast.Attribute):
                gp = getattr(par, "_parent", None)
                if isinstance(gp, ast.Call) and gp.func is par:
                    at = par.attr
                    if at in NEUTRAL_METHODS:
                        out.neutral.append(f"{norm(gp)[:40]}")
                        return
                    if at in SINK_METHODS:
                        # the tainted thing is the *receiver* (a handle opened on a scratch name): data is what matters
                        out.neutral.append(f"{norm(gp)[:40]}")
                        return
                    if at in DERIVE_METHODS or at.startswith("with_"):
                        cur = gp
                        continue
                    # a repo method called on a tainted receiver
                    out.escapes.append((f"method '{at}' called on the value", loc(fn, gp)))
                    return
                if par.attr in DERIVE_ATTRS:
                    cur = par
                    continue
                cur = par
                continue
            if isinstance(par, ast.Call):
                d = dotted(par.func) or ""
                if cur is par.func:
                    cur = par
                    continue
                if d.startswith(NEUTRAL_FUNCS_PREFIX) or d in NEUTRAL_FUNCS:
                    out.neutral.append(norm(par)[:40])
                    return
                if isinstance(par.func, ast.Attribute) and par.func.attr in SINK_METHODS or d in SINK_FUNCS:
                    out.sinks.append((f"'{norm(par)[:70]}' writes the value", loc(fn, par)))
                    return
                if d in DERIVE_FUNCS or (isinstance(par.func, ast.Attribute) and par.func.attr in DERIVE_METHODS | {"format", "join"}):
                    cur = par
                    continue
                gp = getattr(par, "_parent", None)
                if isinstance(gp, ast.Raise) or (isinstance(par.func, ast.Name) and par.func.id.endswith(("Error", "Exception"))):
                    out.neutral.append("exception message")
                    return
                # a resolved repo callee: the parameter becomes tainted
                targets = []
                if fn is not None:
                    try:
                        targets, _, _ = repo.resolve_call(par, fn)
                    except Exception:
                        targets = []
                    if not targets:
                        try:
                            tc = repo.resolve_callee_static(par, fn)
                        except Exception:
                            tc = None
                        from .model import Class as _Class

                        if isinstance(tc, _Class):
                            ini = repo.find_method(tc, "__init__")
                            if ini is not None:
                                targets = [ini]
                            else:
                                out.neutral.append(f"{tc.name}() without __init__")
                                return
                if targets:
                    from .util import arg_for_param

                    hit = False
                    for tg in targets:
                        for pn in tg.params():
                            try:
                                a = arg_for_param(par, tg, pn, bound_self=True) if tg.node.name == "__init__" and not (isinstance(par.func, ast.Attribute) and par.func.attr == "__init__") else arg_for_param(par, tg, pn)
                            except Exception:
                                a = None
                            cur_v = cur.value if isinstance(cur, ast.keyword) else cur
                            if a is not None and (a is cur_v or any(x is cur_v for x in ast.walk(a))):
                                push(("local", tg.qualname, pn))
                                hit = True
                    if hit:
                        return
                out.escapes.append((f"passed to '{norm(par.func)[:40]}', which is not followed", loc(fn, par)))
                return
            if isinstance(par, ast.comprehension):
                if cur is par.iter:
                    # elements carry the value: the comprehension variable
                    for t in ast.walk(par.target):
                        if isinstance(t, ast.Name):
                            # comprehension scope: treat as the comprehension's value
                            pass
                    cur = getattr(par, "_parent", None) or par
                    continue
                cur = getattr(par, "_parent", None) or par  # a filter: the result depends on it
                continue
            if isinstance(par, ast.ListComp | ast.SetComp | ast.GeneratorExp | ast.DictComp):
                cur = par
                continue
            if isinstance(par, ast.Lambda):
                out.escapes.append(("captured in a lambda", loc(fn, par)))
                return
            # ---- statements
            if isinstance(par, ast.Assign):
                for t in par.targets:
                    taint_target(fn, mod, t, par)
                return
            if isinstance(par, ast.AnnAssign | ast.AugAssign):
                taint_target(fn, mod, par.target, par)
                return
            if isinstance(par, ast.NamedExpr):
                taint_target(fn, mod, par.target, par)
                cur = par
                continue
            if isinstance(par, ast.Return | ast.Yield | ast.YieldFrom):
                if fn is not None:
                    push(("return", fn.qualname))
                return
            if isinstance(par, ast.Expr | ast.Raise | ast.Assert | ast.Delete):
                out.neutral.append(type(par).__name__.lower())
                return
            if isinstance(par, ast.If | ast.While):
                if cur is par.test:
                    control(fn, mod, [par.body, par.orelse], par.test)
                return
            if isinstance(par, ast.For):
                if cur is par.iter:
                    taint_target(fn, mod, par.target, par)
                return
            if isinstance(par, ast.withitem):
                if par.optional_vars is not None:
                    taint_target(fn, mod, par.optional_vars, par)
                return
            if isinstance(par, ast.With):
                return
            if isinstance(par, ast.Match):
                out.escapes.append(("match on the value", loc(fn, par)))
                return
            out.escapes.append((f"used in '{type(par).__name__}'", loc(fn, par)))
            return

    mod0 = f.module if f is not None else module
    use(f, mod0, source)
    while work:
        out.places += 1
        if out.places > max_places:
            out.escapes.append(("taint spread over too many places", ""))
            break
        place = work.pop()
        if place[0] == "local":
            fn = repo.functions.get(place[1])
            if fn is None:
                out.escapes.append((f"function {place[1]} not found", ""))
                continue
            for n in walk_shallow(fn.node):
                if isinstance(n, ast.Name) and n.id == place[2] and isinstance(n.ctx, ast.Load):
                    use(fn, fn.module, n)
            # closures: nested functions reading the name
            for g in repo.functions.values():
                if getattr(g, "parent", None) is fn:
                    if place[2] not in g.params() and not any(isinstance(x, ast.Name) and x.id == place[2] and isinstance(x.ctx, ast.Store) for x in walk_shallow(g.node)):
                        for n in walk_shallow(g.node):
                            if isinstance(n, ast.Name) and n.id == place[2] and isinstance(n.ctx, ast.Load):
                                use(g, g.module, n)
        elif place[0] == "global":
            m = repo.modules.get(place[1])
            if m is None:
                continue
            nm = place[2]
            for g in m.functions.values():
                shadow = nm in g.params() or (any(isinstance(x, ast.Name) and x.id == nm and isinstance(x.ctx, ast.Store) for x in walk_shallow(g.node)) and nm not in {n for gl in walk_shallow(g.node) if isinstance(gl, ast.Global) for n in gl.names})
                if shadow:
                    continue
                for n in walk_shallow(g.node):
                    if isinstance(n, ast.Name) and n.id == nm and isinstance(n.ctx, ast.Load):
                        use(g, m, n)
            # other modules importing the name
            for m2 in repo.modules.values():
                if m2 is not m and m2.imports.get(nm) == f"{m.name}.{nm}":
                    out.escapes.append((f"global '{nm}' is imported by {m2.name}", m2.relpath))
        elif place[0] == "field":
            cname, attr = place[1], place[2]
            C = repo.classes.get(cname) or next((c for c in repo.classes.values() if c.name == cname), None)
            if C is None:
                out.escapes.append((f"class {cname} not found", ""))
                continue
            family = set(repo.mro(C)) | set(repo.all_subclasses(C))
            # which classes of the package have a field / property of that name at all?
            definers = set()
            for g in repo.functions.values():
                if g.cls is None:
                    continue
                if g.name == attr and g.is_property:
                    definers.add(g.cls)
                for n in walk_shallow(g.node):
                    if isinstance(n, ast.Attribute) and n.attr == attr and isinstance(n.ctx, ast.Store) and isinstance(n.value, ast.Name) and n.value.id == "self":
                        definers.add(g.cls)
            unambiguous = definers <= family and attr not in DERIVE_ATTRS
            for g in repo.functions.values():
                for n in walk_shallow(g.node):
                    if isinstance(n, ast.Attribute) and n.attr == attr and isinstance(n.ctx, ast.Load):
                        k = repo.infer_class(n.value, g)
                        if k is not None:
                            if k in family:
                                use(g, g.module, n)
                        elif unambiguous:
                            use(g, g.module, n)
                        else:
                            out.escapes.append((f"'.{attr}' is read from an object whose class is not known ({norm(n)[:40]}); the tainted field is {cname}.{attr}", g.loc(n)))
        elif place[0] == "return":
            fn = repo.functions.get(place[1])
            if fn is None:
                continue
            sites = repo.callers_of(fn)
            if fn.is_property:
                readers = repo.property_readers(fn)
                for g, attr in readers:
                    use(g, g.module, attr)
                if not readers and not sites:
                    out.escapes.append((f"property {fn.short} has no resolved reader", fn.loc()))
                continue
            if not sites:
                out.escapes.append((f"{fn.short} returns the value but no call site was resolved", fn.loc()))
            for g, c in sites:
                use(g, g.module, c)
    return out
