"""E8 `report`: obligations ledger, evidence JSON, replay files, known-findings matching
and exit codes."""

from __future__ import annotations

import json
import os
import time
from pathlib import Path

from .model import AnalysisError

VERIF = Path(__file__).resolve().parent.parent
KNOWN_FINDINGS = VERIF / "known_findings.json"


def _norm_text(s) -> str:
    return " ".join(str(s).split())


class Finding:
    def __init__(self, prop, rule, construct, detail, loc, witness=None, path=None):
        self.prop = prop
        self.rule = rule
        self.construct = construct
        self.detail = _norm_text(detail)
        self.loc = loc
        self.witness = witness
        self.path = path

    def key(self):
        return (self.prop, self.rule, self.construct, self.detail)

    def as_dict(self):
        return {
            "property": self.prop,
            "rule": self.rule,
            "construct": self.construct,
            "detail": self.detail,
            "loc": self.loc,
            "witness": self.witness,
            "path": self.path,
        }


class Ledger:
    """Collects obligations for one property on one tree."""

    def __init__(self, prop, tier="quick", root="/repo"):
        self.prop = prop
        self.tier = tier
        self.root = str(root)
        self.obligations = []  # (rule, instance, status, detail, loc)
        self.findings: list[Finding] = []
        self.samples = []
        self.assumptions = []
        self.trusted = []
        self.extra = {}
        self.rule_docs = {}
        self.floors = []
        self.floor_failures = []
        self.exhaustive = None
        self.t0 = time.time()
        self._seen = set()

    # ---- recording
    def rule(self, rid, text):
        self.rule_docs[rid] = text

    def ok(self, rule, instance, detail="", loc=""):
        self.obligations.append((rule, str(instance), "ok", _norm_text(detail), loc))
        if len(self.samples) < 40 and (rule, "ok") not in self._seen:
            self._seen.add((rule, "ok"))
            self.samples.append({"rule": rule, "instance": str(instance), "loc": loc, "status": "discharged", "detail": _norm_text(detail)[:300]})

    @staticmethod
    def _opaque_computation(detail: str) -> bool:
        """Does the text of a would-be refutation mention the result of a computation the interpreter did not follow?
        `call:m.end#2`, `call:fh.tell#1`, `call:self._index.get#3` are modelled symbols (methods of non-repository objects,
        reads of program state); `call:list#4`, `call:takewhile#2`, `call:self._helper#1`, `Unknown(...)` are not."""
        import re as _re

        if "Unknown(" in detail or "iter@" in detail:
            return True
        for name in _re.findall(r"call:([A-Za-z_][\w\.]*)#\d+", detail):
            parts = name.split(".")
            if len(parts) == 1:
                return True  # a bare function: builtin / itertools / module-level helper that was not followed
            if parts[-1] in Ledger.REPO_FUNC_NAMES:
                return True  # a method of the repository that was not followed
        return False

    REPO_FUNC_NAMES: set = set()

    def fail(self, rule, construct, detail, loc="", witness=None, path=None):
        if self._opaque_computation(detail):
            # the values compared involve the result of a computation the interpreter does not model (an itertools call, a
            # generator helper, ...): a difference between such forms proves nothing.  Reads of mutable program state
            # (`self.<dict>.get(...)`) are different: their value really can be anything, so a mismatch stands.
            from .model import AnalysisError

            raise AnalysisError(f"{self.prop}.{rule} {construct}: compared values depend on an un-modelled construct ({detail[:160]})")
        f = Finding(self.prop, rule, str(construct), detail, loc, witness, path)
        if f.key() in {x.key() for x in self.findings}:
            return f
        self.findings.append(f)
        self.obligations.append((rule, str(construct), "refuted", f.detail, loc))
        self.samples.append({"rule": rule, "instance": str(construct), "loc": loc, "status": "refuted", "detail": f.detail[:300], "witness": witness})
        return f

    NOT_UNDERSTOOD = ("not found", "not recognised", "not understood")

    def check(self, cond, rule, instance, detail_ok="", detail_fail="", loc="", witness=None):
        if cond:
            self.ok(rule, instance, detail_ok, loc)
        else:
            msg = detail_fail or detail_ok
            if any(msg.rstrip().endswith(k) for k in self.NOT_UNDERSTOOD):
                # the rule did not find the construct it reasons about: that is "no verdict", not a refutation
                from .model import AnalysisError

                raise AnalysisError(f"{self.prop}.{rule} {instance}: {msg}")
            self.fail(rule, instance, msg, loc, witness)
        return bool(cond)

    def floor(self, rule, what, count, floor):
        """Vacuity guard: fewer instances than confirmed by hand is an analysis error."""
        self.floors.append({"rule": rule, "what": what, "count": count, "floor": floor})
        if count < floor:
            self.floor_failures.append(f"{self.prop}.{rule}: only {count} {what} found, floor is {floor} — anchor vanished or rule no longer matches")

    def assume(self, text):
        if text not in self.assumptions:
            self.assumptions.append(text)

    def trust(self, text):
        if text not in self.trusted:
            self.trusted.append(text)

    # ---- results
    def counts(self):
        n = len(self.obligations)
        d = sum(1 for o in self.obligations if o[2] == "ok")
        distinct = len({(o[0], o[1]) for o in self.obligations})
        return n, d, distinct


def load_known():
    if not KNOWN_FINDINGS.exists():
        return []
    try:
        data = json.loads(KNOWN_FINDINGS.read_text())
    except Exception as e:
        raise AnalysisError(f"known_findings.json unreadable: {e}") from e
    return data.get("findings", [])


def match_known(f: Finding, known):
    for k in known:
        if k.get("status") != "known":
            continue  # "fixed" entries suppress nothing
        if k.get("property") != f.prop or k.get("rule") != f.rule:
            continue
        if k.get("construct") != f.construct:
            continue
        if "detail" in k and _norm_text(k["detail"]) != f.detail:
            continue
        return k
    return None


def write_evidence(ledger: Ledger, level, meta, violations, path: Path, repo_stats=None, explanation="", checker_cmd=""):
    n, d, distinct = ledger.counts()
    rules_txt = "; ".join(f"{k}: {v}" for k, v in sorted(ledger.rule_docs.items()))
    cov = {
        "obligations": n,
        "discharged": d,
        "evaluations": max(n, 1),
        "distinct_nontrivial": distinct,
        "rule": (
            "one obligation per rule instance discovered in the current source tree (call site, path, table entry, "
            "order region, codec column); distinct = distinct (rule, construct) pairs that matched a real construct. "
            + rules_txt
        ),
        "samples": ledger.samples[:60] or [{"note": "no instance"}],
        "explanation": explanation or meta.get("explanation", ""),
        "checker_cmd": checker_cmd,
        "trusted_base": ledger.trusted or ["CPython ast module", "the analyser in /verif/sa (engines E1-E8)"],
        "floors": ledger.floors,
        "known_findings_reported": ledger.extra.get("known", []),
        "analysed": repo_stats or {},
        "root": ledger.root,
    }
    if ledger.exhaustive is not None:
        cov["exhaustive"] = bool(ledger.exhaustive)
    for k, v in ledger.extra.items():
        if k not in cov:
            cov[k] = v
    ev = {
        "property_id": ledger.prop,
        "tier": ledger.tier,
        "seed": int(os.environ.get("VERIF_SEED", "0") or 0),
        "level": level,
        "coverage": cov,
        "assumptions": ledger.assumptions,
        "wall_s": round(time.time() - ledger.t0, 3),
        "violations": violations,
    }
    path.parent.mkdir(parents=True, exist_ok=True)
    tmp = path.with_suffix(f".tmp{os.getpid()}")
    tmp.write_text(json.dumps(ev, indent=1, default=str) + "\n")
    os.replace(tmp, path)
    return ev
