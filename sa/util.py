"""Small AST utilities shared by the rule modules."""

from __future__ import annotations

import ast
import itertools

from .flow import PathEnum, cond_facts
from .model import AnalysisError, Func, Repo, dotted, is_name, norm, walk_shallow


def arg_for_param(call: ast.Call, callee: Func, pname: str, bound_self=None):
    """The actual-argument expression bound to parameter `pname` of `callee` at `call`
    (None when the default is used).  `bound_self`: whether the first parameter is bound
    implicitly (method call through an instance)."""
    a = callee.node.args
    names = [x.arg for x in (*a.posonlyargs, *a.args)]
    if bound_self is None:
        bound_self = callee.cls is not None and not callee.is_static and callee.parent is None
    if bound_self and names:
        names = names[1:]
    for k in call.keywords:
        if k.arg == pname:
            return k.value
    if pname in names:
        i = names.index(pname)
        pos = [x for x in call.args]
        if any(isinstance(x, ast.Starred) for x in pos[: i + 1]):
            raise AnalysisError(f"starred argument at {norm(call)}")
        if i < len(pos):
            return pos[i]
    return None


def param_default(callee: Func, pname: str):
    a = callee.node.args
    names = [x.arg for x in (*a.posonlyargs, *a.args)]
    defaults = dict(zip(names[len(names) - len(a.defaults):], a.defaults))
    for k, d in zip(a.kwonlyargs, a.kw_defaults):
        if d is not None:
            defaults[k.arg] = d
    return defaults.get(pname)


def strset(expr, env: dict, func=None, depth=0) -> set:
    """Finite set of constant values an expression may take, given a set-valued
    environment for names.  Raises AnalysisError when the expression leaves the
    fragment (so a rule cannot silently pass)."""
    if isinstance(expr, ast.Constant):
        return {expr.value}
    if isinstance(expr, ast.Name):
        if expr.id in env:
            return set(env[expr.id])
        if func is not None and depth < 4 and expr.id not in func.params():
            defs = local_defs(func, expr.id)
            if defs:
                out = set()
                for d in defs:
                    out |= strset(d, env, func, depth + 1)
                return out
        raise AnalysisError(f"value of '{expr.id}' is not a known constant set")
    if isinstance(expr, ast.BinOp) and isinstance(expr.op, ast.Add):
        return {a + b for a in strset(expr.left, env, func, depth) for b in strset(expr.right, env, func, depth)}
    if isinstance(expr, ast.IfExp):
        t = truth_set(expr.test, env, func)
        out = set()
        if True in t:
            out |= strset(expr.body, env, func, depth)
        if False in t:
            out |= strset(expr.orelse, env, func, depth)
        return out
    if isinstance(expr, ast.JoinedStr):
        parts = [set([v.value]) if isinstance(v, ast.Constant) else {str(x) for x in strset(v.value, env, func, depth)} for v in expr.values]
        return {"".join(p) for p in itertools.product(*parts)}
    if isinstance(expr, ast.BoolOp):
        # a or b / a and b in value position
        out = set()
        vals = [strset(v, env, func, depth) for v in expr.values]
        if isinstance(expr.op, ast.Or):
            for vs in vals[:-1]:
                out |= {v for v in vs if v}
            return out | vals[-1]
        for vs in vals[:-1]:
            out |= {v for v in vs if not v}
        return out | vals[-1]
    raise AnalysisError(f"cannot fold '{norm(expr)}' to a finite set of constants")


def truth_set(test, env, func=None) -> set:
    """{True}, {False} or {True, False}."""
    try:
        vals = strset(test, env, func)
        return {bool(v) for v in vals}
    except AnalysisError:
        pass
    if isinstance(test, ast.UnaryOp) and isinstance(test.op, ast.Not):
        return {not v for v in truth_set(test.operand, env, func)}
    if isinstance(test, ast.Compare) and len(test.ops) == 1:
        try:
            ls, rs = strset(test.left, env, func), strset(test.comparators[0], env, func)
        except AnalysisError:
            return {True, False}
        op = test.ops[0]
        out = set()
        for l in ls:
            for r in rs:
                if isinstance(op, ast.Eq):
                    out.add(l == r)
                elif isinstance(op, ast.NotEq):
                    out.add(l != r)
                elif isinstance(op, ast.Is):
                    out.add(l is r)
                elif isinstance(op, ast.IsNot):
                    out.add(l is not r)
                else:
                    return {True, False}
        return out
    return {True, False}


def names_in(node) -> set:
    return {n.id for n in ast.walk(node) if isinstance(n, ast.Name)}


def attr_calls(root, attr=None):
    """Call nodes `<recv>.<attr>(...)` below root (shallow)."""
    for n in [root, *walk_shallow(root)]:
        if isinstance(n, ast.Call) and isinstance(n.func, ast.Attribute):
            if attr is None or n.func.attr == attr or (isinstance(attr, tuple | set) and n.func.attr in attr):
                yield n


def name_calls(root, name):
    for n in [root, *walk_shallow(root)]:
        if isinstance(n, ast.Call) and dotted(n.func) == name:
            yield n


def enclosing(node, kinds):
    n = getattr(node, "_parent", None)
    while n is not None:
        if isinstance(n, kinds):
            return n
        n = getattr(n, "_parent", None)
    return None


def enclosing_stmt(node):
    n = node
    while n is not None and not isinstance(n, ast.stmt):
        n = getattr(n, "_parent", None)
    return n


def ancestors(node):
    n = getattr(node, "_parent", None)
    while n is not None:
        yield n
        n = getattr(n, "_parent", None)


def contains(outer, inner) -> bool:
    return outer is inner or any(a is outer for a in ancestors(inner))


def local_defs(func: Func, name: str):
    """All value expressions assigned to local `name` in func (shallow)."""
    out = []
    for n in walk_shallow(func.node):
        if isinstance(n, ast.Assign):
            for t in n.targets:
                if is_name(t, name):
                    out.append(n.value)
                elif isinstance(t, ast.Tuple) and isinstance(n.value, ast.Tuple) and len(t.elts) == len(n.value.elts):
                    for te, ve in zip(t.elts, n.value.elts):
                        if is_name(te, name):
                            out.append(ve)
        elif isinstance(n, ast.AnnAssign) and is_name(n.target, name) and n.value is not None:
            out.append(n.value)
        elif isinstance(n, ast.NamedExpr) and is_name(n.target, name):
            out.append(n.value)
    return out


def single_def(func: Func, name: str):
    ds = local_defs(func, name)
    return ds[0] if len(ds) == 1 else None


def resolve_local(func: Func, expr, depth=3):
    """Follow single-definition local aliases: `x = self.rows` ; use of x -> self.rows."""
    while depth > 0 and isinstance(expr, ast.Name):
        if expr.id in func.params():
            return expr
        d = single_def(func, expr.id)
        if d is None:
            return expr
        expr = d
        depth -= 1
    return expr


def paths(func: Func, loop_iters=(0, 1), exc_edges=True):
    return PathEnum(loop_iters, exc_edges=exc_edges).function_paths(func.node)


def path_nodes(path):
    """Every AST node evaluated on a path (statements, conditions, with-items, loop
    iterables), in path order, paired with the event index."""
    for i, e in enumerate(path.events):
        if e.kind in ("stmt", "return", "raise", "cond"):
            yield i, e.node
        elif e.kind == "with":
            for it in e.node.items:
                yield i, it.context_expr
        elif e.kind == "iter" and e.val[0] == "next":
            if e.val[1] == 0:
                yield i, e.node.iter
        elif e.kind == "iter" and e.val == ("done", 0):
            yield i, e.node.iter


def path_calls(path, pred):
    """[(event index, call node)] for calls on the path satisfying pred, in order."""
    out = []
    for i, root in path_nodes(path):
        found = [n for n in [root, *walk_shallow(root)] if isinstance(n, ast.Call) and pred(n)]
        found.sort(key=lambda n: (n.end_lineno, n.end_col_offset))
        out.extend((i, c) for c in found)
    return out


def resolve_on_path(path, upto: int, expr, depth: int = 4):
    """expr with every local Name replaced by the value last assigned to it on this path before event `upto`
    (plain `name = value` statements only; a name that is also augmented / unpacked / a loop target later than its last plain
    assignment is left alone).  Returns a new expression; the original is untouched."""
    import copy

    if depth <= 0:
        return expr

    def last_def(name):
        val = None
        for e in path.events[:upto]:
            if e.kind == "stmt" and isinstance(e.node, ast.Assign) and len(e.node.targets) == 1 and isinstance(e.node.targets[0], ast.Name) and e.node.targets[0].id == name:
                val = e.node.value
            elif e.kind == "stmt" and any(isinstance(t, ast.Name) and t.id == name and isinstance(t.ctx, ast.Store) for t in ast.walk(e.node)):
                val = None
            elif e.kind == "iter" and e.val[0] == "next" and any(isinstance(t, ast.Name) and t.id == name for t in ast.walk(e.node.target)):
                val = None
            elif e.kind == "cond" and any(isinstance(t, ast.NamedExpr) and t.target.id == name for t in ast.walk(e.node)):
                val = None
        return val

    class _Sub(ast.NodeTransformer):
        def visit_Name(self, n):
            if isinstance(n.ctx, ast.Load):
                v = last_def(n.id)
                if v is not None and not any(isinstance(x, ast.Name) and x.id == n.id for x in ast.walk(v)):
                    return resolve_on_path(path, upto, v, depth - 1)
            return n

    new = _Sub().visit(copy.deepcopy(expr))
    return ast.fix_missing_locations(new)


def is_method_call(call, attr, recv_pred=None):
    return (
        isinstance(call, ast.Call)
        and isinstance(call.func, ast.Attribute)
        and call.func.attr == attr
        and (recv_pred is None or recv_pred(call.func.value))
    )


def cond_truths(path):
    """All atomic (expr, truth) facts along a path with their event index."""
    for i, e in enumerate(path.events):
        if e.kind == "cond":
            for t, v in cond_facts(e.node, e.val):
                yield i, t, v


def decorator_calls(func: Func):
    return [d for d in func.node.decorator_list if isinstance(d, ast.Call)]


def kw(call: ast.Call, name, default=None):
    for k in call.keywords:
        if k.arg == name:
            return k.value
    return default


def pos(node) -> int:
    """Position of a node in the pre-order traversal of its enclosing function (or module): a structural order that, unlike
    line numbers, survives inlining (inlined statements all carry the call site's line)."""
    root = node
    while getattr(root, "_parent", None) is not None and not isinstance(root, ast.FunctionDef | ast.AsyncFunctionDef | ast.Module):
        root = root._parent
    idx = getattr(root, "_pos_index", None)
    if idx is None or id(node) not in idx:
        idx = {}
        k = 0
        stack = [root]
        while stack:
            n = stack.pop()
            idx[id(n)] = k
            k += 1
            stack.extend(reversed(list(ast.iter_child_nodes(n))))
        try:
            root._pos_index = idx
        except Exception:
            pass
    return idx.get(id(node), -1)


def end_pos(node) -> int:
    """largest pre-order position inside `node`"""
    return max(pos(x) for x in ast.walk(node))
