"""E7 `finite`: path-sensitive constant propagation under a finite set of input
valuations.  A valuation binds access paths (`scffld.tag`, `fragment.tags`, `self.target_tags`)
to constants; along each syntactic path branch conditions are folded (infeasible paths are
dropped), constant assignments update the valuation, and a rule inspects the final
valuation / the value of an expression at a given statement.  Used to model-check two or
three *extracted* expressions against each other exhaustively over a small domain."""

from __future__ import annotations

import ast

from .flow import PathEnum, cond_facts
from .fold import Folder, NotConstant
from .model import AnalysisError, dotted, norm, walk_shallow


class _Unknown:
    def __repr__(self):
        return "UNKNOWN"


UNKNOWN = _Unknown()


class Opaque:
    """Result of a call that is not folded; distinct per call site + arguments."""

    def __init__(self, text):
        self.text = text

    def __repr__(self):
        return f"<{self.text}>"

    def __eq__(self, o):
        return isinstance(o, Opaque) and o.text == self.text

    def __hash__(self):
        return hash(self.text)

    def __bool__(self):
        # the truth value of an unfolded call is not known: a condition on it is undecided, never "taken"
        raise NotConstant(self.text)


class _F(Folder):
    def f_Name(self, n):
        if n.id in self.env:
            v = self.env[n.id]
            if v is UNKNOWN:
                raise NotConstant(n.id)
            return v
        return super().f_Name(n)

    def f_Attribute(self, n):
        d = dotted(n)
        if d and d in self.env:
            v = self.env[d]
            if v is UNKNOWN:
                raise NotConstant(d)
            return v
        # attribute of a record held in env (dict of fields)
        try:
            base = self.fold(n.value)
        except NotConstant:
            raise NotConstant(d or "attr")
        if isinstance(base, dict) and n.attr in base:
            return base[n.attr]
        raise NotConstant(d or "attr")

    def f_NamedExpr(self, n):
        v = self.fold(n.value)
        self.env[n.target.id] = v
        return v

    def f_Call(self, n):
        key = norm(n)
        if key in self.env and self.env[key] is not UNKNOWN:
            return self.env[key]
        try:
            return super().f_Call(n)
        except NotConstant:
            if self.opaque_calls:
                args = []
                for a in n.args:
                    try:
                        args.append(repr(self.fold(a)))
                    except NotConstant:
                        args.append(norm(a))
                return Opaque(f"{norm(n.func)}({', '.join(args)})")
            raise

    opaque_calls = False


_MC_CACHE = {}


def module_consts(mod) -> dict:
    """Foldable module-level assignments (NAME = constant expression) of a repo module."""
    key = id(mod)
    if key not in _MC_CACHE:
        out = {}
        for name, val in getattr(mod, "assigns", {}).items():
            try:
                out[name] = Folder(dict(out)).fold(val)
            except (NotConstant, Exception):
                pass
        _MC_CACHE[key] = out
    return _MC_CACHE[key]


def fold_env(expr, env, opaque_calls=False):
    f = _F(env)
    f.opaque_calls = opaque_calls
    return f.fold(expr)


def run_paths(stmts, env, loop_iters=(0, 1), stop_at=None, opaque_calls=True, max_paths=5000):
    """Enumerate feasible paths through `stmts` under valuation env.
    -> list of dict(path=Path, env=final env, unknown_conds=[...], stopped=bool, stores=[(target text, value)])
    stop_at: predicate(node) -> bool; the path is cut *before* executing the first event whose
    node satisfies it (env is then the valuation at that point)."""
    pe = PathEnum(loop_iters, exc_edges=False)
    out = []
    seen_prefix = set()
    # module-level constants of the analysed function's module are visible (locals/params shadow them)
    fobj = next((getattr(s_, "_func", None) for s_ in stmts if getattr(s_, "_func", None) is not None), None)
    if fobj is not None:
        base = dict(module_consts(fobj.module))
        # constants of the function's own class are visible as self.NAME / cls.NAME / ClassName.NAME
        cls_ = getattr(fobj, "cls", None)
        if cls_ is not None:
            for nm, val in getattr(cls_, "attrs", {}).items():
                try:
                    cv = Folder(dict(base)).fold(val)
                except Exception:
                    continue
                for pre in ("self", "cls", cls_.name):
                    base[f"{pre}.{nm}"] = cv
        if base:
            env = {**{k: v for k, v in base.items() if k not in env}, **env}
    for p in pe.block(stmts):
        e = dict(env)
        feasible = True
        unknown = []
        stores = []
        stopped = None
        for ev in p.events:
            if stop_at is not None and ev.kind in ("stmt", "cond", "return") and stop_at(ev.node):
                stopped = ev.node
                break
            if ev.kind == "cond":
                try:
                    f = _F(e)
                    f.opaque_calls = opaque_calls
                    v = bool(f.fold(ev.node))
                    e.update(f.env)  # walrus bindings
                    if v != ev.val:
                        feasible = False
                        break
                except NotConstant:
                    unknown.append((ev.node, ev.val))
                    # still bind walrus targets to UNKNOWN
                    for w in ast.walk(ev.node):
                        if isinstance(w, ast.NamedExpr):
                            e[w.target.id] = UNKNOWN
            elif ev.kind == "stmt":
                n = ev.node
                if isinstance(n, ast.Assign | ast.AnnAssign):
                    targets = n.targets if isinstance(n, ast.Assign) else [n.target]
                    if isinstance(n, ast.AnnAssign) and n.value is None:
                        continue
                    try:
                        f = _F(e)
                        f.opaque_calls = opaque_calls
                        v = f.fold(n.value)
                    except NotConstant:
                        v = UNKNOWN
                    for t in targets:
                        d = dotted(t)
                        if d:
                            e[d] = v
                            stores.append((d, v, n))
                        elif isinstance(t, ast.Subscript):
                            stores.append((norm(t), v, n))
                        elif isinstance(t, ast.Tuple):
                            vals = None
                            if isinstance(n.value, ast.Tuple) and len(n.value.elts) == len(t.elts):
                                vals = []
                                for ve in n.value.elts:
                                    try:
                                        f2 = _F(e)
                                        f2.opaque_calls = opaque_calls
                                        vals.append(f2.fold(ve))
                                    except NotConstant:
                                        vals.append(UNKNOWN)
                            elif v is not UNKNOWN and isinstance(v, tuple | list) and len(v) == len(t.elts):
                                vals = list(v)
                            for k_, el in enumerate(t.elts):
                                dd = dotted(el)
                                if dd:
                                    e[dd] = vals[k_] if vals is not None else UNKNOWN
                                    stores.append((dd, e[dd], n))
                elif isinstance(n, ast.AugAssign):
                    d = dotted(n.target)
                    if d:
                        e[d] = UNKNOWN
                elif isinstance(n, ast.Expr):
                    stores.append(("<expr>", None, n))
            elif ev.kind == "iter" and ev.val[0] == "next":
                for el in ast.walk(ev.node.target):
                    if isinstance(el, ast.Name) and el.id not in e:
                        e[el.id] = UNKNOWN
        if feasible and stopped is not None:
            key = tuple((id(ev.node), ev.kind, repr(ev.val)) for ev in p.events[: next(i for i, ev in enumerate(p.events) if ev.node is stopped or any(x is stopped for x in [ev.node]))])
            if key in seen_prefix:
                continue
            seen_prefix.add(key)
        if feasible:
            out.append({"path": p, "env": e, "unknown_conds": unknown, "stopped": stopped, "stores": stores})
        if len(out) > max_paths:
            raise AnalysisError("finite: path cap exceeded")
    return out
