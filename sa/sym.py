"""E4 core: symbolic values (polynomial/affine normal forms over atoms), boolean
conditions, and a path-wise abstract interpreter for the Python fragment the repository
uses.  Nothing is executed concretely and no solver is called: the interpreter maps each
syntactic path of a function to a *normal form* (final heap, return value, effects,
path condition) that rules compare with specifications.

Unsupported constructs evaluate to `Unknown`; a rule that needs such a value reports the
obligation as inconclusive (AnalysisError -> exit 2), never as discharged.
"""

from __future__ import annotations

import ast
from fractions import Fraction

from .flow import Ev, Path, PathEnum
from .model import AnalysisError, Class, Func, Repo, dotted, norm, walk_shallow

# --------------------------------------------------------------------------- Lin


def _akey(a):
    return repr(a)


class Lin:
    """Polynomial with rational coefficients over atoms (strings or opaque tuples).
    Affine when every monomial has degree <= 1."""

    __slots__ = ("t", "c", "_k")

    def __init__(self, t=None, c=0):
        self.t = {k: Fraction(v) for k, v in (t or {}).items() if v != 0}
        self.c = Fraction(c)
        self._k = None

    @staticmethod
    def atom(a):
        return Lin({a: 1})

    @staticmethod
    def const(c):
        return Lin({}, c)

    def key(self):
        if self._k is None:
            self._k = (tuple(sorted(((_akey(k), v) for k, v in self.t.items()))), self.c)
        return self._k

    def __eq__(self, o):
        return isinstance(o, Lin) and self.key() == o.key()

    def __hash__(self):
        return hash(self.key())

    def __add__(self, o):
        o = as_lin(o)
        t = dict(self.t)
        for k, v in o.t.items():
            t[k] = t.get(k, 0) + v
        return Lin(t, self.c + o.c)

    def __neg__(self):
        return Lin({k: -v for k, v in self.t.items()}, -self.c)

    def __sub__(self, o):
        return self + (-as_lin(o))

    def scale(self, k):
        k = Fraction(k)
        return Lin({a: v * k for a, v in self.t.items()}, self.c * k)

    def __mul__(self, o):
        o = as_lin(o)
        if o.is_const():
            return self.scale(o.c)
        if self.is_const():
            return o.scale(self.c)
        out = Lin.const(self.c * o.c) + Lin(dict(o.t)).scale(self.c) + Lin(dict(self.t)).scale(o.c)
        for a, va in self.t.items():
            for b, vb in o.t.items():
                out = out + Lin({_mono(a, b): va * vb})
        return out

    def is_const(self):
        return not self.t

    def is_zero(self):
        return not self.t and self.c == 0

    def atoms(self):
        return list(self.t)

    def coeff(self, a):
        return self.t.get(a, Fraction(0))

    def subst(self, mapping):
        """Replace atoms by Lins."""
        out = Lin.const(self.c)
        for a, v in self.t.items():
            if a in mapping:
                out = out + as_lin(mapping[a]).scale(v)
            elif isinstance(a, tuple) and a and a[0] == "mono":
                prod = Lin.const(1)
                for x in a[1]:
                    prod = prod * (as_lin(mapping[x]) if x in mapping else Lin.atom(x))
                out = out + prod.scale(v)
            else:
                out = out + Lin({a: v})
        return out

    def __repr__(self):
        parts = []
        for k, v in sorted(self.t.items(), key=lambda kv: _akey(kv[0])):
            name = k if isinstance(k, str) else _fmt_atom(k)
            if v == 1:
                parts.append(f"+{name}")
            elif v == -1:
                parts.append(f"-{name}")
            else:
                parts.append(f"{'+' if v > 0 else ''}{v}*{name}")
        if self.c != 0 or not parts:
            parts.append(f"{'+' if self.c >= 0 else ''}{self.c}")
        s = "".join(parts)
        return s[1:] if s.startswith("+") else s


def _mono(a, b):
    xs = []
    for x in (a, b):
        if isinstance(x, tuple) and x and x[0] == "mono":
            xs.extend(x[1])
        else:
            xs.append(x)
    return ("mono", tuple(sorted(xs, key=_akey)))


def _fmt_atom(a):
    if isinstance(a, tuple):
        if a[0] == "mono":
            return "*".join(x if isinstance(x, str) else _fmt_atom(x) for x in a[1])
        return f"{a[0]}({', '.join(map(repr, a[1:]))})"
    return str(a)


def as_lin(v):
    if isinstance(v, Lin):
        return v
    if isinstance(v, bool):
        return Lin.const(int(v))
    if isinstance(v, int | Fraction):
        return Lin.const(v)
    if isinstance(v, Sym):
        return Lin.atom(v.name)
    if isinstance(v, Const) and isinstance(v.v, int) and not isinstance(v.v, bool):
        return Lin.const(v.v)
    raise NotNumeric(v)


class NotNumeric(Exception):
    pass


def opaque(kind, *args):
    """Opaque numeric atom, e.g. max(a,b); commutative kinds are argument-sorted."""
    if kind in ("max", "min"):
        args = tuple(sorted(args, key=lambda x: repr(x)))
    return Lin.atom((kind, *args))


def _subst_atom(lin: "Lin", atom, repl: "Lin") -> "Lin":
    """replace every occurrence of the opaque `atom` (also inside the arguments of other opaque atoms) by `repl`"""
    out = Lin.const(lin.c)
    for k, c in lin.t.items():
        if k == atom:
            out = out + repl.scale(c)
        elif isinstance(k, tuple) and len(k) >= 2 and isinstance(k[0], str) and any(isinstance(a, Lin) for a in k[1:]):
            new_args = [(_subst_atom(a, atom, repl) if isinstance(a, Lin) else a) for a in k[1:]]
            if k[0] in ("min", "max") and all(isinstance(a, Lin) for a in new_args):
                # simplify when the arguments now differ by a constant
                d = new_args[0] - new_args[1]
                if d.is_const():
                    pick = new_args[0] if ((d.c <= 0) == (k[0] == "min")) else new_args[1]
                    out = out + pick.scale(c)
                    continue
            out = out + opaque(k[0], *new_args).scale(c)
        else:
            out = out + Lin({k: c})
    return out


def _minmax_atoms(lin: "Lin"):
    for k in lin.t:
        if isinstance(k, tuple) and k and k[0] in ("min", "max") and len(k) == 3 and all(isinstance(a, Lin) for a in k[1:]):
            yield k
        if isinstance(k, tuple):
            for a in k[1:]:
                if isinstance(a, Lin):
                    yield from _minmax_atoms(a)


def _eval_lin(lin: "Lin", asg: dict):
    """integer value of lin under an assignment of its base atoms (None when an atom has no value / division by zero)"""
    from fractions import Fraction

    tot = Fraction(lin.c)
    for k, c in lin.t.items():
        if isinstance(k, str):
            if k not in asg:
                return None
            v = asg[k]
        elif isinstance(k, tuple) and k and k[0] == "mono":
            v = 1
            for f_ in k[1]:
                fv = asg.get(f_) if isinstance(f_, str) else _eval_lin(Lin({f_: 1}), asg)
                if fv is None:
                    return None
                v *= fv
        elif isinstance(k, tuple) and k and isinstance(k[0], str):
            args = [(_eval_lin(a, asg) if isinstance(a, Lin) else None) for a in k[1:]]
            if any(a is None for a in args):
                return None
            if k[0] == "min":
                v = min(args)
            elif k[0] == "max":
                v = max(args)
            elif k[0] == "fdiv":
                if args[1] == 0:
                    return None
                v = args[0] // args[1]
            elif k[0] == "mod":
                if args[1] == 0:
                    return None
                v = args[0] % args[1]
            elif k[0] == "abs":
                v = abs(args[0])
            else:
                return None
        else:
            return None
        tot += Fraction(c) * v
    return tot


def _base_atoms(lin: "Lin", out=None):
    out = set() if out is None else out
    for k in lin.t:
        if isinstance(k, str):
            out.add(k)
        elif isinstance(k, tuple) and k and k[0] == "mono":
            for f_ in k[1]:
                if isinstance(f_, str):
                    out.add(f_)
                else:
                    _base_atoms(Lin({f_: 1}), out)
        elif isinstance(k, tuple):
            for a in k[1:]:
                if isinstance(a, Lin):
                    _base_atoms(a, out)
    return out


def lin_equiv(a: "Lin", b: "Lin", domain=None, constraints=()):
    """Are two integer forms with min/max atoms equal for all values of their atoms?
    -> (True, None)   proved by case analysis on every min/max (each leaf an affine identity)
       (False, asg)   a concrete assignment of the atoms (within `domain`, satisfying `constraints`: Lins meaning <= 0)
                      on which they differ
       (None, None)   neither proved nor refuted
    domain: {atom: iterable of ints}; atoms not listed range over 0..6."""
    import itertools as _it

    def prove(x, y, depth=0):
        d = x - y
        if d.is_zero():
            return True
        ats = list(dict.fromkeys(_minmax_atoms(d)))
        if not ats or depth > 6:
            return False
        at = ats[0]
        p, q = at[1], at[2]
        lo, hi = (p, q) if at[0] == "min" else (q, p)  # value when p <= q / when q <= p
        # both cases must agree (the constraint of the case is not used: an affine identity holds regardless)
        return prove(_subst_atom(x, at, lo), _subst_atom(y, at, lo), depth + 1) and prove(_subst_atom(x, at, hi), _subst_atom(y, at, hi), depth + 1)

    if (a - b).is_zero():
        return True, None
    # sound but incomplete proof: require equality in every syntactic case; then a complete search on a small grid
    try:
        if prove(a, b):
            return True, None
    except Exception:
        pass
    atoms = sorted(_base_atoms(a) | _base_atoms(b))
    if len(atoms) > 5:
        return None, None
    dom = {x: list((domain or {}).get(x, range(0, 7))) for x in atoms}
    differs = None
    n_ok = 0
    for vals in _it.product(*[dom[x] for x in atoms]):
        asg = dict(zip(atoms, vals))
        if any((_eval_lin(c_, asg) is None) or _eval_lin(c_, asg) > 0 for c_ in constraints):
            continue
        va, vb = _eval_lin(a, asg), _eval_lin(b, asg)
        if va is None or vb is None:
            continue
        if va != vb:
            differs = asg
            break
        n_ok += 1
    if differs is not None:
        return False, differs
    return (None, None) if n_ok == 0 else ("grid", None)


# --------------------------------------------------------------------------- values


class Sym:
    """Symbolic object or number identified by an access path."""

    __slots__ = ("name", "cls", "exact")

    def __init__(self, name, cls: Class | None = None, exact=False):
        self.name = name
        self.cls = cls
        self.exact = exact  # class known exactly (constructed here)

    def __repr__(self):
        return f"${self.name}" + (f":{self.cls.name}" if self.cls else "")

    def __eq__(self, o):
        return isinstance(o, Sym) and o.name == self.name

    def __hash__(self):
        return hash(("Sym", self.name))


class Const:
    __slots__ = ("v",)

    def __init__(self, v):
        self.v = v

    def __repr__(self):
        return f"Const({self.v!r})"

    def __eq__(self, o):
        return isinstance(o, Const) and type(o.v) is type(self.v) and o.v == self.v

    def __hash__(self):
        return hash(("Const", repr(self.v)))


class Tup:
    __slots__ = ("items", "kind")

    def __init__(self, items, kind="tuple"):
        self.items = list(items)
        self.kind = kind

    def __repr__(self):
        return f"{self.kind}{self.items!r}"

    def __eq__(self, o):
        return isinstance(o, Tup) and o.items == self.items

    def __hash__(self):
        return hash(("Tup", tuple(map(repr, self.items))))


class Unknown:
    __slots__ = ("why",)

    def __init__(self, why=""):
        self.why = why

    def __repr__(self):
        return f"Unknown({self.why})"


class FuncRef:
    __slots__ = ("func", "bound")

    def __init__(self, func, bound=None):
        self.func = func
        self.bound = bound

    def __repr__(self):
        return f"FuncRef({self.func.short})"


# --------------------------------------------------------------------------- booleans


class B:
    """Boolean condition in normal form.
    kinds: le(lin) [lin <= 0] · eq(lin) [lin == 0] · and/or(list) · not(b) · const(bool) ·
    atom(text) [opaque]"""

    __slots__ = ("kind", "a")

    def __init__(self, kind, a):
        self.kind = kind
        self.a = a

    def __repr__(self):
        if self.kind == "le":
            return f"({self.a} <= 0)"
        if self.kind == "eq":
            return f"({self.a} == 0)"
        if self.kind == "not":
            return f"!{self.a}"
        if self.kind in ("and", "or"):
            return "(" + f" {self.kind} ".join(map(repr, self.a)) + ")"
        if self.kind == "const":
            return str(self.a)
        return f"<{self.a}>"

    def key(self):
        if self.kind in ("le", "eq"):
            return (self.kind, self.a.key())
        if self.kind == "not":
            return ("not", self.a.key())
        if self.kind in ("and", "or"):
            return (self.kind, tuple(x.key() for x in self.a))
        return (self.kind, self.a)

    def __eq__(self, o):
        return isinstance(o, B) and self.key() == o.key()

    def __hash__(self):
        return hash(self.key())


TRUE = B("const", True)
FALSE = B("const", False)


def b_not(b: B) -> B:
    if b.kind == "const":
        return B("const", not b.a)
    if b.kind == "not":
        return b.a
    if b.kind == "le":
        # not (l <= 0)  <=>  l >= 1  <=>  1 - l <= 0   (integers)
        return B("le", Lin.const(1) - b.a)
    if b.kind == "and":
        return b_or([b_not(x) for x in b.a])
    if b.kind == "or":
        return b_and([b_not(x) for x in b.a])
    return B("not", b)


def b_and(xs):
    out = []
    for x in xs:
        if x.kind == "const":
            if not x.a:
                return FALSE
            continue
        if x.kind == "and":
            out.extend(x.a)
        else:
            out.append(x)
    if not out:
        return TRUE
    return out[0] if len(out) == 1 else B("and", out)


def b_or(xs):
    out = []
    for x in xs:
        if x.kind == "const":
            if x.a:
                return TRUE
            continue
        if x.kind == "or":
            out.extend(x.a)
        else:
            out.append(x)
    if not out:
        return FALSE
    return out[0] if len(out) == 1 else B("or", out)


def _eq_sign(d: Lin) -> Lin:
    """eq(l) and eq(-l) are the same fact: fix the sign by the first term in key order."""
    if d.t:
        k = sorted(d.t, key=_akey)[0]
        return d if d.t[k] > 0 else -d
    return d if d.c >= 0 else -d


def eq0(l: Lin) -> B:
    """The fact l == 0 in canonical sign."""
    return B("eq", _eq_sign(l))


def cmp_lin(op, a: Lin, b: Lin) -> B:
    d = a - b
    if op == "==":
        r = B("eq", _eq_sign(d))
    elif op == "!=":
        r = b_not(B("eq", _eq_sign(d)))
    elif op == "<=":
        r = B("le", d)
    elif op == "<":
        r = B("le", d + 1)
    elif op == ">=":
        r = B("le", -d)
    elif op == ">":
        r = B("le", Lin.const(1) - d)
    else:
        raise AnalysisError(f"comparison {op}")
    # constant folding
    if r.kind == "le" and r.a.is_const():
        return B("const", r.a.c <= 0)
    if r.kind == "eq" and r.a.is_const():
        return B("const", r.a.c == 0)
    if r.kind == "not" and r.a.kind == "eq" and r.a.a.is_const():
        return B("const", r.a.a.c != 0)
    return r


_LIST_MUTATORS = {"append", "extend", "insert", "pop", "remove", "clear", "sort", "reverse"}
_CMP = {ast.Eq: "==", ast.NotEq: "!=", ast.Lt: "<", ast.LtE: "<=", ast.Gt: ">", ast.GtE: ">="}


# --------------------------------------------------------------------------- state


class State:
    def __init__(self):
        self.env = {}
        self.heap = {}
        self.pc = []  # list of B known true
        self.effects = []  # (kind, node, payload)
        self.ret = None
        self.status = "run"
        self.notes = []
        self.fresh = [0]
        self.path = None
        self.call_cache = {}

    def clone(self):
        s = State()
        s.env = {k: (v.clone() if isinstance(v, GhostList) else v) for k, v in self.env.items()}
        s.heap = {k: (v.clone() if isinstance(v, GhostList) else v) for k, v in self.heap.items()}
        s.pc = list(self.pc)
        s.effects = list(self.effects)
        s.ret = self.ret
        s.status = self.status
        s.notes = list(self.notes)
        s.fresh = self.fresh
        s.path = self.path
        s.call_cache = dict(self.call_cache)
        return s

    def new_name(self, base):
        self.fresh[0] += 1
        return f"{base}#{self.fresh[0]}"


class GhostList:
    """Symbolic list tracked through its *length sum* (Σ x.length over elements), its
    element count, and canonical names for elements: `name@i` is the element at original
    index i from the front, `name@-i` the i-th from the back.  `front`/`back` count pops."""

    def __init__(self, name, total: Lin | None = None, count: Lin | None = None):
        self.name = name
        self.total = total if total is not None else Lin.atom(f"ΣL({name})")
        self.count = count if count is not None else Lin.atom(f"len({name})")
        self.front = 0
        self.back = 0
        self.alias = {}  # canonical element name -> value known to be that element (identity facts / stores)
        self.log = []  # structural operations in order

    def clone(self):
        g = GhostList(self.name, self.total, self.count)
        g.front, g.back = self.front, self.back
        g.alias = dict(self.alias)
        g.log = list(self.log)
        return g

    def elem_name(self, i):
        """Canonical name of self[i] for i >= 0 (from front) or i < 0 (from back)."""
        return f"{self.name}@{self.front + i}" if i >= 0 else f"{self.name}@-{self.back - i}"

    def elem(self, i):
        nm = self.elem_name(i)
        return self.alias.get(nm, Sym(nm))

    @property
    def first(self):
        return self.elem(0)

    @property
    def last(self):
        return self.elem(-1)

    def __repr__(self):
        return f"GhostList({self.name}, ΣL={self.total}, n={self.count}, front={self.front}, back={self.back})"


# --------------------------------------------------------------------------- interpreter


class SymExec:
    """Path-wise symbolic interpreter.

    Customisation points (override in rule-specific subclasses or pass callables):
      * attr_hook(state, obj, attr, node) -> value | NotImplemented
      * call_hook(state, node, fval, args, kwargs) -> value | NotImplemented
      * inline(func) -> bool      whether a resolved repo callee is inlined
    """

    def __init__(self, repo: Repo, loop_iters=(0, 1, 2), max_depth=4, exc_edges=False, per_loop=None):
        self.repo = repo
        self.loop_iters = loop_iters
        self.per_loop = per_loop
        self.max_depth = max_depth
        self.exc_edges = exc_edges
        self.unknown_log = []

    # ------------------------------------------------------------------ hooks

    def attr_hook(self, st, obj, attr, node):
        return NotImplemented

    def call_hook(self, st, node, fval, args, kwargs, func):
        return NotImplemented

    def inline(self, func: Func) -> bool:
        return True

    def length_of(self, st, v):
        """L(v): symbolic `.length` of a row-like value."""
        return self.get_attr(st, v, "length", None, None)

    # ------------------------------------------------------------------ running

    def paths_of(self, func: Func):
        return PathEnum(self.loop_iters, exc_edges=self.exc_edges, per_loop=self.per_loop).function_paths(func.node)

    FOLLOWED: set = set()  # qualnames of repository functions some symbolic run has interpreted (per process)

    def run_function(self, func: Func, st: State, args: dict, depth=0, keep_raise=False):
        """Run every path of `func` from state `st` with parameter bindings `args`.
        -> list of final States (status return/raise)."""
        SymExec.FOLLOWED.add(func.qualname)
        out = []
        saved_env = st.env
        for p in self.paths_of(func):
            s = st.clone()
            s.env = dict(args)
            s.env["__func__"] = func
            s.path = p
            res = self.run_events(p.events, s, func, depth)
            for r in res:
                if r.status == "run":
                    r.status = "return"
                if r.status == "raise" and not keep_raise:
                    continue
                if r.status == "infeasible":
                    continue
                out.append(r)
        for r in out:
            r.callee_env = r.env
            # every final state gets its OWN copy of the caller's frame (sharing one dict between the forks of a
            # multi-path callee let later assignments of one fork leak into the others)
            r.env = {k: (v.clone() if isinstance(v, GhostList) else v) for k, v in saved_env.items()}
        return out

    def run_block(self, stmts, st: State, func: Func, depth=0, loop_iters=None):
        """Run a statement list from `st` (cloned per path).  -> list of States whose
        `.status` is run (fell through) / return / raise / break / continue."""
        pe = PathEnum(loop_iters or self.loop_iters, exc_edges=self.exc_edges, per_loop=self.per_loop)
        out = []
        for p in pe.block(stmts):
            s = st.clone()
            s.path = p
            for r in self.run_events(p.events, s, func, depth):
                if r.status == "infeasible":
                    continue
                if r.status == "run" and p.status in ("break", "continue"):
                    r.status = p.status
                out.append(r)
        return out

    def run_events(self, events, st: State, func: Func, depth):
        states = [st]
        for ev in events:
            nxt = []
            for s in states:
                if s.status != "run":
                    nxt.append(s)
                    continue
                nxt.extend(self.event(ev, s, func, depth))
            states = nxt
        return states

    def event(self, ev: Ev, st: State, func: Func, depth):
        k = ev.kind
        first_iter = k == "iter" and ev.val[0] == "next" and ev.val[1] == 0
        if first_iter or (k in ("stmt", "cond", "return") and not (k == "stmt" and isinstance(ev.node, ast.Expr) and isinstance(ev.node.value, ast.Call))):
            root = ev.node.iter if first_iter else ev.node if k != "return" else ev.node.value
            if root is not None and not isinstance(root, ast.FunctionDef | ast.ClassDef):
                forks = self.prefork(root, st, func, depth)
                if forks is not None:
                    out = []
                    for s2 in forks:
                        out.extend(self.event(ev, s2, func, depth))
                    return out
                res = self._event(ev, st, func, depth)
                if st.call_cache:
                    ids = {id(c) for c in ast.walk(root) if isinstance(c, ast.Call)}
                    for r in res:
                        for i in ids:
                            r.call_cache.pop(i, None)
                return res
        return self._event(ev, st, func, depth)

    _npaths_cache = {}

    def _n_paths(self, f: Func) -> int:
        key = (id(self.repo), f.qualname, self.loop_iters)
        if key not in SymExec._npaths_cache:
            try:
                SymExec._npaths_cache[key] = len([p for p in self.paths_of(f) if p.status == "return"])
            except AnalysisError:
                SymExec._npaths_cache[key] = 1
        return SymExec._npaths_cache[key]

    def prefork(self, root, st: State, func: Func, depth):
        """A call (in expression position) of a multi-path repo callee forks the state: the callee is run
        on every path and its return value is cached for the enclosing statement.  -> list of states | None"""
        if depth >= self.max_depth:
            return None
        calls = [c for c in ast.walk(root) if isinstance(c, ast.Call) and id(c) not in st.call_cache]
        calls.sort(key=lambda c: (c.end_lineno, c.end_col_offset))
        for c in calls:
            if not isinstance(c.func, ast.Attribute | ast.Name):
                continue
            if any(isinstance(a, ast.Lambda | ast.GeneratorExp | ast.ListComp) and any(x is c for x in ast.walk(a)) for a in ast.walk(root) if a is not c):
                continue  # inside a lambda / comprehension: not evaluated here
            try:
                if self._callee_class(c, st, func) is not None:
                    continue
                targets, _, precise = self.resolve(c, st, func)
            except AnalysisError:
                continue
            if len(targets) != 1 or not precise:
                continue
            t = targets[0]
            is_gen = any(isinstance(x, ast.Yield) for x in walk_shallow(t.node))
            if any(isinstance(x, ast.YieldFrom) for x in walk_shallow(t.node)):
                continue
            if not self.inline(t) or t.is_property or (self._n_paths(t) < 2 and not is_gen):
                continue
            b = self.bind_args(c, t, st, func, depth)
            if b is None:
                continue
            n_eff = len(st.effects)
            finals = self.run_function(t, st, b, depth + 1)
            if len(finals) > 64:
                continue
            out = []
            for r in finals:
                r.status = "run"
                r.call_cache = dict(st.call_cache)
                if is_gen:
                    # a generator helper: its value is the sequence of what it yields on this path (consumed eagerly —
                    # sound for helpers without side effects, which is what the rules using this assume and check)
                    ys = [e for e in r.effects[n_eff:] if e[0] == "yield"]
                    r.effects = r.effects[:n_eff] + [e for e in r.effects[n_eff:] if e[0] != "yield"]
                    r.call_cache[id(c)] = Tup([e[2] for e in ys], "list")
                    r.ret = st.ret
                    r.path = st.path
                    out.append(r)
                    continue
                r.call_cache[id(c)] = r.ret if r.ret is not None else Const(None)
                r.ret = st.ret
                r.path = st.path
                out.append(r)
            if not out:
                s2 = st.clone()
                s2.status = "infeasible"
                return [s2]
            return out
        return None

    def _event(self, ev: Ev, st: State, func: Func, depth):
        k = ev.kind
        if k == "stmt":
            return self.stmt(ev.node, st, func, depth)
        if k == "cond":
            v = self.truth(self.eval(ev.node, st, func, depth))
            b = v if ev.val else b_not(v)
            if b.kind == "const" and not b.a:
                st.status = "infeasible"
                return [st]
            if self.contradicts(st, b):
                st.status = "infeasible"
                return [st]
            if b.kind == "and":
                for x in b.a:
                    if self.contradicts(st, x):
                        st.status = "infeasible"
                        return [st]
                st.pc.extend(b.a)
            elif b.kind != "const":
                st.pc.append(b)
            self.learn(st, ev.node, ev.val, func, depth)
            self.learn_atoms(st, b)
            return [st]
        if k == "return" or k == "implicit_return":
            if k == "return" and ev.node.value is not None:
                st.ret = self.eval(ev.node.value, st, func, depth)
            else:
                st.ret = Const(None)
            st.status = "return"
            return [st]
        if k == "raise":
            st.status = "raise"
            st.effects.append(("raise", ev.node, None))
            return [st]
        if k == "iter":
            what, n = ev.val
            node = ev.node
            if what == "next":
                itv = self.eval(node.iter, st, func, depth) if n == 0 else st.env.get(("iter", id(node)))
                st.env[("iter", id(node))] = itv
                if isinstance(itv, Tup) and not any(isinstance(x, Star) for x in itv.items) and n >= len(itv.items):
                    st.status = "infeasible"  # a sequence of known length has no (n+1)-th element
                    return [st]
                elem = self.iter_element(st, node, itv, n, func, depth)
                self.assign(node.target, elem, st, func, depth)
            else:
                if n == 0:
                    itv = self.eval(node.iter, st, func, depth)
                    st.env[("iter", id(node))] = itv
                itv = st.env.get(("iter", id(node)))
                if isinstance(itv, Tup) and not any(isinstance(x, Star) for x in itv.items) and n != len(itv.items):
                    st.status = "infeasible"  # the loop ends exactly when the known sequence is exhausted
                    return [st]
                self.iter_done(st, node, st.env.get(("iter", id(node))), n)
            return [st]
        if k in ("with", "endwith"):
            if k == "with":
                for it in ev.node.items:
                    v = self.eval(it.context_expr, st, func, depth)
                    if it.optional_vars is not None:
                        self.assign(it.optional_vars, v, st, func, depth)
            return [st]
        if k in ("break", "continue"):
            return [st]
        if k == "exc":
            st.effects.append(("exc", ev.node, ev.val))
            return [st]
        raise AnalysisError(f"event kind {k}")

    # ------------------------------------------------------------------ facts

    def contradicts(self, st, b: B) -> bool:
        """Cheap feasibility: b contradicts a fact already on the path condition."""
        nb = b_not(b)
        for f in st.pc:
            if f == nb:
                return True
            # le facts: l1 <= 0 and l2 <= 0 with l1 + l2 = positive const => contradiction
            if f.kind == "le" and b.kind == "le":
                s = f.a + b.a
                if s.is_const() and s.c > 0:
                    return True
            if f.kind == "eq" and b.kind == "le":
                for sign in (1, -1):
                    s = b.a + f.a.scale(sign)
                    if s.is_const() and s.c > 0:
                        return True
            if f.kind == "le" and b.kind == "eq":
                for sign in (1, -1):
                    s = f.a + b.a.scale(sign)
                    if s.is_const() and s.c > 0:
                        return True
        # unit propagation through disjunctions: (d1 or d2 ...) with every disjunct refuted by the other facts
        def refuted(d, facts):
            nd = b_not(d)
            return any(f == nd for f in facts)

        if b.kind == "or" and all(refuted(d, st.pc) for d in b.a):
            return True
        for f in st.pc:
            if f.kind == "or" and all(refuted(d, [*st.pc, *(b.a if b.kind == "and" else [b])]) for d in f.a):
                return True
        # two facts together (transitivity through one intermediate): l1 <= 0, l2 <= 0, b <= 0 with l1+l2+b = const > 0
        if b.kind == "le":
            les = [f for f in st.pc if f.kind == "le"]
            if len(les) <= 12:
                for i, f1 in enumerate(les):
                    for f2 in les[i + 1:]:
                        s = f1.a + f2.a + b.a
                        if s.is_const() and s.c > 0:
                            return True
        return False

    # ------------------------------------------------------------------ statements

    def stmt(self, node, st: State, func, depth):
        if isinstance(node, ast.Assign):
            v = self.eval(node.value, st, func, depth)
            for t in node.targets:
                self.assign(t, v, st, func, depth)
            return [st]
        if isinstance(node, ast.AnnAssign):
            if node.value is not None:
                self.assign(node.target, self.eval(node.value, st, func, depth), st, func, depth)
            return [st]
        if isinstance(node, ast.AugAssign):
            cur = self.eval(_as_load(node.target), st, func, depth)
            rhs = self.eval(node.value, st, func, depth)
            if isinstance(node.op, ast.Add) and isinstance(cur, Tup) and cur.kind == "list" and isinstance(rhs, Sym):
                v = Tup([*cur.items, Star(rhs)], "list")  # list += iterable  ==  list.extend(iterable)
            else:
                v = self.binop(node.op, cur, rhs, st)
            self.assign(node.target, v, st, func, depth)
            return [st]
        if isinstance(node, ast.Expr):
            if isinstance(node.value, ast.Call):
                return self.call_stmt(node.value, st, func, depth)
            self.eval(node.value, st, func, depth)
            return [st]
        if isinstance(node, ast.FunctionDef | ast.ClassDef | ast.Pass | ast.Import | ast.ImportFrom | ast.Nonlocal | ast.Global):
            return [st]
        if isinstance(node, ast.Assert):
            return [st]
        if isinstance(node, ast.Delete):
            for t in node.targets:
                self.delete(t, st, func, depth)
            return [st]
        raise AnalysisError(f"statement {type(node).__name__} at line {node.lineno} is outside the analysed fragment")

    def delete(self, target, st, func, depth):
        if isinstance(target, ast.Subscript) and not isinstance(target.slice, ast.Slice):
            lst = self.eval(target.value, st, func, depth)
            idx = self.eval(target.slice, st, func, depth)
            if isinstance(lst, GhostList):
                self.ghost_call(st, target, lst, "pop", [idx])
                return
        elif isinstance(target, ast.Subscript):
            lst = self.eval(target.value, st, func, depth)
            if isinstance(lst, GhostList):
                self.ghost_call(st, target, lst, "delslice", [])
                return
        st.effects.append(("del", target, None))

    def call_stmt(self, call, st, func, depth):
        """A call used as a statement: inline multi-path repo callees by forking."""
        targets, ext, precise = self.resolve(call, st, func)
        if len(targets) == 1 and self.inline(targets[0]) and depth < self.max_depth:
            callee = targets[0]
            args = self.bind_args(call, callee, st, func, depth)
            if args is not None:
                finals = self.run_function(callee, st, args, depth + 1, keep_raise=True)
                out = []
                for r in finals:
                    if r.status == "return":
                        r.status = "run"
                        r.ret = None
                    out.append(r)
                if out:
                    return out
                st.status = "infeasible"
                return [st]
        self.eval(call, st, func, depth)
        return [st]

    # ------------------------------------------------------------------ assignment

    def assign(self, target, v, st: State, func, depth):
        if isinstance(target, ast.Name):
            st.env[target.id] = v
            return
        if isinstance(target, ast.Tuple | ast.List):
            if isinstance(v, Tup) and len(v.items) == len(target.elts):
                for t, x in zip(target.elts, v.items):
                    self.assign(t, x, st, func, depth)
            else:
                for i, t in enumerate(target.elts):
                    if isinstance(v, Sym):
                        self.assign(t, Sym(f"{v.name}[{i}]"), st, func, depth)
                    else:
                        self.assign(t, Unknown("unpack"), st, func, depth)
            return
        if isinstance(target, ast.Attribute):
            obj = self.eval(target.value, st, func, depth)
            self.set_attr(st, obj, target.attr, v, target, func, depth)
            return
        if isinstance(target, ast.Subscript):
            obj = self.eval(target.value, st, func, depth)
            idx = self.eval(target.slice, st, func, depth) if not isinstance(target.slice, ast.Slice) else Unknown("slice")
            self.set_item(st, obj, idx, v, target)
            return
        if isinstance(target, ast.Starred):
            self.assign(target.value, Unknown("starred"), st, func, depth)
            return
        raise AnalysisError(f"assignment target {type(target).__name__}")

    def set_attr(self, st, obj, attr, v, node, func=None, depth=0):
        if isinstance(obj, Sym):
            # property setter?
            if obj.cls is not None:
                setter = self.repo.find_method(obj.cls, attr + ".setter")
                if setter is not None and depth < self.max_depth:
                    a = setter.params()
                    finals = self.run_function(setter, st, {a[0]: obj, a[1]: v}, depth + 1)
                    if len(finals) == 1:
                        st.heap = finals[0].heap
                        st.effects = finals[0].effects
                        return
            st.heap[(obj.name, attr)] = v
            st.effects.append(("setattr", node, (obj.name, attr, v)))
        else:
            st.effects.append(("setattr?", node, (obj, attr, v)))

    def set_item(self, st, obj, idx, v, node):
        if isinstance(obj, GhostList):
            i = int(idx.c) if isinstance(idx, Lin) and idx.is_const() else None
            g = obj
            if i not in (0, -1):
                st.effects.append(("list-store-unknown", node, (obj.name, idx)))
                g.total = Lin.atom(st.new_name(f"ΣL({obj.name})?"))
                g.log.append(("store?", i, None, v, node))
                return
            nm = g.elem_name(i)
            old = g.alias.get(nm, Sym(nm))
            g.total = g.total - self._len(st, old) + self._len(st, v)
            # identity facts: every canonical name known to denote the same object now denotes v
            for k2, val in list(g.alias.items()):
                if val == old:
                    g.alias[k2] = v
            g.alias[nm] = v
            g.log.append(("store", i, old, v, node))
            st.effects.append(("list-store", node, (obj.name, i, old, v)))
            return
        st.effects.append(("setitem", node, (obj, idx, v)))

    def _len(self, st, v):
        try:
            return as_lin(self.length_of(st, v))
        except NotNumeric:
            return Lin.atom(st.new_name("L?"))

    # ------------------------------------------------------------------ expressions

    def eval(self, node, st: State, func, depth=0):
        m = getattr(self, "e_" + type(node).__name__, None)
        if m is None:
            self.unknown_log.append((type(node).__name__, getattr(node, "lineno", 0)))
            return Unknown(type(node).__name__)
        return m(node, st, func, depth)

    def e_Constant(self, n, st, func, depth):
        v = n.value
        if isinstance(v, bool):
            return B("const", v)
        if isinstance(v, int):
            return Lin.const(v)
        return Const(v)

    def e_Name(self, n, st, func, depth):
        if n.id in st.env:
            return st.env[n.id]
        if n.id in ("True", "False"):
            return B("const", n.id == "True")
        if n.id == "None":
            return Const(None)
        # enclosing-scope variables of nested functions and module-level names
        tgt = self.repo.resolve_dotted(func.module, n.id) if func else n.id
        if isinstance(tgt, Class):
            return Const(("class", tgt.qualname))
        if isinstance(tgt, Func):
            return FuncRef(tgt)
        p = func
        while p is not None:
            if n.id in p.nested:
                return FuncRef(p.nested[n.id])
            p = p.parent
        if func and n.id in func.module.assigns:
            from .fold import try_fold

            c = try_fold(func.module.assigns[n.id], default=None)
            if c is not None:
                return _from_py(c)
        return Sym(n.id)

    def e_Attribute(self, n, st, func, depth):
        obj = self.eval(n.value, st, func, depth)
        return self.get_attr(st, obj, n.attr, n, func, depth)

    def get_attr(self, st, obj, attr, node, func, depth=0):
        r = self.attr_hook(st, obj, attr, node)
        if r is not NotImplemented:
            return r
        if isinstance(obj, Sym):
            key = (obj.name, attr)
            if key in st.heap:
                return st.heap[key]
            if obj.cls is not None:
                m = self.repo.find_method(obj.cls, attr)
                if m is not None and m.is_property and depth < self.max_depth:
                    finals = self.run_function(m, st, {m.params()[0]: obj}, depth + 1)
                    if len(finals) == 1 and finals[0].ret is not None:
                        return finals[0].ret
                    SymExec.FOLLOWED.discard(m.qualname)  # interpreted, but the result was not usable: treated as opaque
                    return Sym(f"{obj.name}.{attr}")
                if m is not None and not m.is_property:
                    return FuncRef(m, obj)
                ca = self.repo.find_class_attr(obj.cls, attr)
                if ca is not None:
                    from .fold import try_fold

                    c = try_fold(ca, default=None)
                    if c is not None:
                        return _from_py(c)
            return Sym(f"{obj.name}.{attr}")
        if isinstance(obj, Const) and isinstance(obj.v, tuple) and obj.v and obj.v[0] == "class":
            cls = self.repo.classes.get(obj.v[1])
            if cls:
                m = self.repo.find_method(cls, attr)
                if m:
                    return FuncRef(m)
                ca = self.repo.find_class_attr(cls, attr)
                if ca is not None:
                    from .fold import try_fold

                    c = try_fold(ca, default=None)
                    if c is not None:
                        return _from_py(c)
            return Sym(f"{obj.v[1]}.{attr}")
        if isinstance(obj, GhostList | Tup | Const | Lin | Unknown | FuncRef):
            return FuncRef(None, (obj, attr)) if not isinstance(obj, Unknown) else Unknown(f"attr {attr} of unknown")
        return Unknown(f"attr {attr}")

    def e_BinOp(self, n, st, func, depth):
        return self.binop(n.op, self.eval(n.left, st, func, depth), self.eval(n.right, st, func, depth), st)

    def binop(self, op, a, b, st):
        try:
            if isinstance(op, ast.Add):
                if isinstance(a, Tup) and isinstance(b, Tup):
                    return Tup(a.items + b.items, a.kind)
                if isinstance(a, Const) and isinstance(b, Const) and isinstance(a.v, str | bytes) and type(a.v) is type(b.v):
                    return Const(a.v + b.v)
                return as_lin(a) + as_lin(b)
            if isinstance(op, ast.Sub):
                return as_lin(a) - as_lin(b)
            if isinstance(op, ast.Mult):
                if isinstance(a, Const) and isinstance(a.v, str | bytes):
                    return Sym(st.new_name("repeat")) if True else None
                return as_lin(a) * as_lin(b)
            if isinstance(op, ast.FloorDiv):
                la, lb = as_lin(a), as_lin(b)
                if la.is_const() and lb.is_const() and lb.c != 0:
                    return Lin.const(la.c // lb.c)
                return opaque("fdiv", la, lb)
            if isinstance(op, ast.Mod):
                la, lb = as_lin(a), as_lin(b)
                if la.is_const() and lb.is_const() and lb.c != 0:
                    return Lin.const(la.c % lb.c)
                return opaque("mod", la, lb)
            if isinstance(op, ast.Div):
                return opaque("div", as_lin(a), as_lin(b))
        except NotNumeric:
            pass
        return Unknown(f"binop {type(op).__name__} on {a!r}, {b!r}")

    def e_UnaryOp(self, n, st, func, depth):
        v = self.eval(n.operand, st, func, depth)
        if isinstance(n.op, ast.USub):
            try:
                return -as_lin(v)
            except NotNumeric:
                return Unknown("neg")
        if isinstance(n.op, ast.Not):
            return b_not(self.truth(v))
        if isinstance(n.op, ast.UAdd):
            return v
        return Unknown("unary")

    def e_BoolOp(self, n, st, func, depth):
        vals = [self.truth(self.eval(v, st, func, depth)) for v in n.values]
        return b_and(vals) if isinstance(n.op, ast.And) else b_or(vals)

    def e_Compare(self, n, st, func, depth):
        left = self.eval(n.left, st, func, depth)
        res = []
        for op, c in zip(n.ops, n.comparators):
            right = self.eval(c, st, func, depth)
            res.append(self.compare(op, left, right, n, st))
            left = right
        return b_and(res)

    def compare(self, op, a, b, node, st=None):
        t = type(op)
        if t in _CMP:
            try:
                return cmp_lin(_CMP[t], as_lin(a), as_lin(b))
            except NotNumeric:
                pass
            if t in (ast.Eq, ast.NotEq):
                r = self.same(a, b)
                if r is not None:
                    return B("const", r if t is ast.Eq else not r)
                at = B("atom", f"{a!r} == {b!r}")
                return at if t is ast.Eq else b_not(at)
        if t in (ast.Is, ast.IsNot):
            r = self.same(a, b, identity=True, st=st)
            if r is not None:
                return B("const", r if t is ast.Is else not r)
            at = B("atom", f"{_ord2(a, b)[0]!r} is {_ord2(a, b)[1]!r}")
            for x, y in ((a, b), (b, a)):
                if isinstance(x, Sym) and "@" in x.name and not (isinstance(y, Sym) and "@" in y.name):
                    if not hasattr(self, "is_atoms"):
                        self.is_atoms = {}
                    self.is_atoms[at.a] = (x.name, y)
            return at if t is ast.Is else b_not(at)
        if t in (ast.In, ast.NotIn):
            if isinstance(b, Tup) and all(isinstance(x, Lin | Const) for x in b.items) and isinstance(a, Lin | Const):
                try:
                    alts = [cmp_lin("==", as_lin(a), as_lin(x)) for x in b.items]
                    r = b_or(alts)
                    return r if t is ast.In else b_not(r)
                except NotNumeric:
                    if isinstance(a, Const):
                        r = any(a == x for x in b.items)
                        return B("const", r if t is ast.In else not r)
            at = B("atom", f"{a!r} in {b!r}")
            return at if t is ast.In else b_not(at)
        return B("atom", f"cmp:{norm(node)}")

    def same(self, a, b, identity=False, st=None):
        """True/False when decidable, else None."""
        if isinstance(a, Const) and isinstance(b, Const):
            return a == b
        if isinstance(a, Sym) and isinstance(b, Sym) and a.name == b.name:
            return True
        if identity and isinstance(a, Sym) and isinstance(b, Sym) and a.exact and b.exact and a.name != b.name:
            return False  # two distinct constructed/declared objects
        if isinstance(a, Sym) and isinstance(b, Const) and b.v is None and a.exact:
            return False
        if isinstance(b, Sym) and isinstance(a, Const) and a.v is None and b.exact:
            return False
        if isinstance(a, Lin) and isinstance(b, Const) and b.v is None:
            return False
        if isinstance(b, Lin) and isinstance(a, Const) and a.v is None:
            return False
        if isinstance(a, Lin) and isinstance(b, Lin):
            d = a - b
            if d.is_const():
                return d.c == 0
        if isinstance(a, Tup) and isinstance(b, Tup) and not identity:
            if len(a.items) != len(b.items):
                return False
            rs = [self.same(x, y) for x, y in zip(a.items, b.items)]
            if all(r is True for r in rs):
                return True
            if any(r is False for r in rs):
                return False
        return None

    def e_IfExp(self, n, st, func, depth):
        c = self.truth(self.eval(n.test, st, func, depth))
        if c.kind == "const":
            return self.eval(n.body if c.a else n.orelse, st, func, depth)
        for f in st.pc:
            if f == c:
                return self.eval(n.body, st, func, depth)
            if f == b_not(c):
                return self.eval(n.orelse, st, func, depth)
        a = self.eval(n.body, st, func, depth)
        b = self.eval(n.orelse, st, func, depth)
        try:
            return opaque("ite", c, as_lin(a), as_lin(b))
        except NotNumeric:
            return Ite(c, a, b)

    def e_Tuple(self, n, st, func, depth):
        return Tup(self._elts(n.elts, st, func, depth), "tuple")

    def e_List(self, n, st, func, depth):
        return Tup(self._elts(n.elts, st, func, depth), "list")

    def _elts(self, elts, st, func, depth):
        out = []
        for e in elts:
            if isinstance(e, ast.Starred):
                v = self.eval(e.value, st, func, depth)
                if isinstance(v, Tup):
                    out.extend(v.items)
                else:
                    out.append(Star(v))
            else:
                out.append(self.eval(e, st, func, depth))
        return out

    def e_JoinedStr(self, n, st, func, depth):
        parts = []
        for v in n.values:
            if isinstance(v, ast.Constant):
                parts.append(Const(v.value))
            else:
                val = self.eval(v.value, st, func, depth)
                if isinstance(val, Const) and isinstance(val.v, str) and not v.format_spec and v.conversion == -1:
                    parts.append(Const(val.v))  # {NAME} of a constant string is that string
                else:
                    parts.append(Fmt(val, norm(v.format_spec) if v.format_spec else "", v.conversion))
        merged = []
        for p_ in parts:
            if merged and isinstance(p_, Const) and isinstance(merged[-1], Const) and isinstance(p_.v, str) and isinstance(merged[-1].v, str):
                merged[-1] = Const(merged[-1].v + p_.v)
            else:
                merged.append(p_)
        parts = merged
        if all(isinstance(p, Const) for p in parts):
            return Const("".join(p.v for p in parts))
        return Tup(parts, "fstr")

    def e_NamedExpr(self, n, st, func, depth):
        v = self.eval(n.value, st, func, depth)
        self.assign(n.target, v, st, func, depth)
        return v

    def e_Subscript(self, n, st, func, depth):
        obj = self.eval(n.value, st, func, depth)
        if isinstance(n.slice, ast.Slice):
            lo = self.eval(n.slice.lower, st, func, depth) if n.slice.lower else None
            hi = self.eval(n.slice.upper, st, func, depth) if n.slice.upper else None
            stp = self.eval(n.slice.step, st, func, depth) if n.slice.step else None
            return self.get_slice(st, obj, lo, hi, stp, n)
        idx = self.eval(n.slice, st, func, depth)
        return self.get_item(st, obj, idx, n)

    def get_item(self, st, obj, idx, node):
        if isinstance(obj, Tup) and isinstance(idx, Lin) and idx.is_const():
            i = int(idx.c)
            if -len(obj.items) <= i < len(obj.items) and not any(isinstance(x, Star) for x in obj.items):
                return obj.items[i]
        if isinstance(obj, Const) and isinstance(obj.v, tuple | str | dict | list) and isinstance(idx, Lin | Const):
            try:
                k = int(idx.c) if isinstance(idx, Lin) and idx.is_const() else idx.v
                return _from_py(obj.v[k])
            except Exception:
                pass
        if isinstance(obj, GhostList) and isinstance(idx, Lin) and idx.is_const():
            return obj.elem(int(idx.c))
        if isinstance(obj, GhostList) and isinstance(idx, Lin):
            # len(rows) - k  ==  the k-th row from the back
            try:
                d = idx - as_lin(obj.count)
                if d.is_const() and d.c < 0:
                    return obj.elem(int(d.c))
            except NotNumeric:
                pass
        if isinstance(obj, Sym):
            return Sym(f"{obj.name}[{_short(idx)}]")
        if isinstance(obj, Tup | Const) and isinstance(idx, Sym | Lin | Str):
            return Lookup(obj, idx)
        return Unknown(f"subscript {norm(node)}")

    def get_slice(self, st, obj, lo, hi, step, node):
        return Slice(obj, lo, hi, step)

    def e_Call(self, n, st, func, depth):
        if id(n) in st.call_cache:
            return st.call_cache[id(n)]
        fval = self.eval(n.func, st, func, depth) if not isinstance(n.func, ast.Name) or n.func.id in st.env else None
        args = []
        for a in n.args:
            if isinstance(a, ast.Starred):
                v = self.eval(a.value, st, func, depth)
                if isinstance(v, Tup):
                    args.extend(v.items)
                else:
                    args.append(Star(v))
            else:
                args.append(self.eval(a, st, func, depth))
        kwargs = {k.arg: self.eval(k.value, st, func, depth) for k in n.keywords}
        r = self.call_hook(st, n, fval, args, kwargs, func)
        if r is not NotImplemented:
            return r
        return self.call_default(st, n, fval, args, kwargs, func, depth)

    def call_default(self, st, n, fval, args, kwargs, func, depth):
        name = dotted(n.func)
        # builtins with a symbolic meaning
        if name in ("int", "float") and len(args) == 1:
            return args[0] if isinstance(args[0], Lin | Sym) else args[0]
        if name == "str" and len(args) == 1:
            return Str(args[0])
        if name == "bool" and len(args) == 1:
            return self.truth(args[0])
        if name in ("max", "min") and len(args) == 2:
            try:
                a, b = as_lin(args[0]), as_lin(args[1])
                d = a - b
                if d.is_const():
                    return (a if d.c >= 0 else b) if name == "max" else (b if d.c >= 0 else a)
                return opaque(name, a, b)
            except NotNumeric:
                return Unknown(name)
        if name == "abs" and len(args) == 1:
            try:
                return opaque("abs", as_lin(args[0]))
            except NotNumeric:
                return Unknown("abs")
        if name == "len" and len(args) == 1:
            v = args[0]
            if isinstance(v, Tup) and not any(isinstance(x, Star) for x in v.items):
                return Lin.const(len(v.items))
            if isinstance(v, GhostList):
                return v.count
            if isinstance(v, Sym):
                return Lin.atom(f"len({v.name})")
            if isinstance(v, Const) and hasattr(v.v, "__len__"):
                return Lin.const(len(v.v))
            return Lin.atom(st.new_name("len?"))
        if name == "isinstance" and len(args) == 2:
            return self.isinstance_(st, args[0], args[1], n)
        if name in ("tuple", "list") and len(args) == 1 and isinstance(args[0], Tup):
            return Tup(args[0].items, name)
        if name == "reversed" and len(args) == 1 and isinstance(args[0], Tup) and not any(isinstance(x, Star) for x in args[0].items):
            return Tup(list(reversed(args[0].items)), "list")
        if name == "enumerate":
            return Enum(args[0], args[1] if len(args) > 1 else kwargs.get("start", Lin.const(0)))
        if name == "range":
            return Range(args)
        if isinstance(n.func, ast.Attribute) and n.func.attr in _LIST_MUTATORS | {"copy"}:
            recv0 = self.eval(n.func.value, st, func, depth)
            if isinstance(recv0, GhostList):
                return self.ghost_call(st, n, recv0, n.func.attr, args)
        if isinstance(n.func, ast.Attribute) and n.func.attr == "join" and len(args) == 1:
            sep = self.eval(n.func.value, st, func, depth)
            if isinstance(sep, Const) and isinstance(sep.v, str | bytes):
                return Join(sep.v, args[0])
        # in-place mutation of a literal list bound to a name/attribute
        if isinstance(n.func, ast.Attribute) and n.func.attr in _LIST_MUTATORS and isinstance(n.func.value, ast.Name | ast.Attribute):
            recv = self.eval(n.func.value, st, func, depth)
            if isinstance(recv, Tup) and recv.kind == "list":
                if n.func.attr == "append" and len(args) == 1:
                    new = Tup(recv.items + [args[0]], "list")
                elif n.func.attr == "extend" and len(args) == 1 and isinstance(args[0], Tup):
                    new = Tup(recv.items + args[0].items, "list")
                elif n.func.attr == "extend" and len(args) == 1 and isinstance(args[0], Sym):
                    new = Tup(recv.items + [Star(args[0])], "list")
                else:
                    new = Sym(st.new_name(norm(n.func.value)))
                self.assign(n.func.value, new, st, func, depth)
                st.effects.append(("list-mut", n, (norm(n.func.value), n.func.attr, args)))
                return Const(None)
        # repo callee
        kls = self._callee_class(n, st, func)
        if isinstance(kls, Class):
            return self.construct(st, n, kls, args, kwargs, func, depth)
        targets, ext, precise = self.resolve(n, st, func, fval)
        if len(targets) == 1 and self.inline(targets[0]) and depth < self.max_depth:
            callee = targets[0]
            b = self.bind_args(n, callee, st, func, depth, evaluated=(args, kwargs), fval=fval)
            if b is not None:
                finals = self.run_function(callee, st, b, depth + 1)
                if len(finals) == 1:
                    st.heap = finals[0].heap
                    st.effects = finals[0].effects
                    st.pc = finals[0].pc
                    return finals[0].ret
        st.effects.append(("call", n, (name or norm(n.func), args, kwargs, [t.qualname for t in targets])))
        return Sym(st.new_name(f"call:{name or norm(n.func)}"))

    def _callee_class(self, n, st, func):
        tgt = self.repo.resolve_callee_static(n, func)
        if isinstance(tgt, Class):
            return tgt
        # x.__class__(...)
        if isinstance(n.func, ast.Attribute) and n.func.attr == "__class__":
            v = self.eval(n.func.value, st, func)
            if isinstance(v, Sym) and v.cls is not None:
                return v.cls
        return None

    def construct(self, st, n, cls: Class, args, kwargs, func, depth):
        obj = Sym(st.new_name(f"new:{cls.name}"), cls, exact=True)
        init = self.repo.find_method(cls, "__init__")
        if init is None:
            return obj
        b = self._bind(init, [obj, *args], kwargs)
        if b is None or depth >= self.max_depth:
            st.effects.append(("call", n, (f"{cls.name}.__init__", args, kwargs, [init.qualname])))
            return obj
        finals = self.run_function(init, st, b, depth + 1)
        if len(finals) == 1:
            st.heap = finals[0].heap
            st.effects = finals[0].effects + [("construct", n, (cls.name, obj.name))]
            return obj
        st.effects.append(("construct?", n, (cls.name, obj.name, len(finals))))
        return obj

    def resolve(self, call, st, func, fval=None):
        if isinstance(fval, FuncRef) and fval.func is not None:
            return [fval.func], None, True
        if isinstance(call.func, ast.Attribute):
            recv = None
            try:
                recv = self.eval(call.func.value, st, func)
            except AnalysisError:
                recv = None
            if isinstance(recv, Sym) and recv.cls is not None:
                m = self.repo.find_method(recv.cls, call.func.attr)
                if m is not None:
                    return [m], None, True
                return [], f"{recv.cls.name}.{call.func.attr}", True
        return self.repo.resolve_call(call, func)

    def bind_args(self, call, callee: Func, st, func, depth, evaluated=None, fval=None):
        if evaluated is None:
            args = [self.eval(a, st, func, depth) for a in call.args if not isinstance(a, ast.Starred)]
            if any(isinstance(a, ast.Starred) for a in call.args):
                return None
            kwargs = {k.arg: self.eval(k.value, st, func, depth) for k in call.keywords}
        else:
            args, kwargs = evaluated
        pre = []
        if callee.cls is not None and not callee.is_static and callee.parent is None:
            if isinstance(fval, FuncRef) and fval.bound is not None:
                pre = [fval.bound]
            elif isinstance(call.func, ast.Attribute):
                recv = self.eval(call.func.value, st, func, depth)
                if isinstance(recv, Const) and isinstance(recv.v, tuple) and recv.v[0] == "class":
                    pre = []  # Class.method(obj, ...) form
                else:
                    pre = [recv]
        return self._bind(callee, [*pre, *args], kwargs)

    def _bind(self, callee: Func, args, kwargs):
        a = callee.node.args
        names = [x.arg for x in (*a.posonlyargs, *a.args)]
        if any(isinstance(x, Star) for x in args):
            return None
        if len(args) > len(names) and a.vararg is None:
            return None
        out = {}
        for nme, v in zip(names, args):
            out[nme] = v
        if a.vararg is not None:
            out[a.vararg.arg] = Tup(args[len(names):])
        defaults = dict(zip(names[len(names) - len(a.defaults):], a.defaults))
        for k, d in zip(a.kwonlyargs, a.kw_defaults):
            if d is not None:
                defaults[k.arg] = d
        allnames = names + [k.arg for k in a.kwonlyargs]
        for k, v in kwargs.items():
            if k in allnames:
                out[k] = v
            elif a.kwarg is None:
                return None
        for nme in allnames:
            if nme not in out:
                if nme in defaults:
                    d = defaults[nme]
                    st0 = State()
                    out[nme] = self.eval(d, st0, callee, 0)
                else:
                    return None
        return out

    def ghost_call(self, st, n, g: GhostList, attr, args):
        if attr == "pop":
            i = -1
            if args:
                i = int(args[0].c) if isinstance(args[0], Lin) and args[0].is_const() else None
            if i in (0, -1):
                el = g.elem(i)
                g.total = g.total - self._len(st, el)
                g.count = g.count - 1
                if i == 0:
                    g.front += 1
                else:
                    g.back += 1
                g.log.append(("pop", i, el, None, n))
                st.effects.append(("list-pop", n, (g.name, i, el)))
                return el
        if attr == "pop" and args and isinstance(args[0], Lin) and args[0].is_const():
            g.log.append(("pop-nonterminal", int(args[0].c), None, None, n))
        else:
            g.log.append((attr + "?", None, None, None, n))
        st.effects.append(("list-op-unknown", n, (g.name, attr, args)))
        g.total = Lin.atom(st.new_name(f"ΣL({g.name})?"))
        g.count = Lin.atom(st.new_name(f"len({g.name})?"))
        return Unknown(f"list.{attr}")

    def learn_atoms(self, st, b: B):
        """Identity facts carried by a boolean *value* (e.g. through a local `at_end = self.rows[-1] is x`):
        a positive atom '<list>@k is <v>' recorded by compare() makes that element an alias of v."""
        reg = getattr(self, "is_atoms", None)
        if not reg:
            return
        for f in (b.a if b.kind == "and" else [b]):
            if f.kind == "atom" and f.a in reg:
                elem, other = reg[f.a]
                gname = elem.rsplit("@", 1)[0]
                for v in [*st.heap.values(), *st.env.values()]:
                    if isinstance(v, GhostList) and v.name == gname and elem not in v.alias:
                        v.alias[elem] = other

    def learn(self, st, test, truth, func, depth):
        """Identity facts: `<ghost>[0|-1] is x` true  =>  that element *is* x."""
        from .flow import cond_facts

        for t, v in cond_facts(test, truth):
            if not v or not isinstance(t, ast.Compare) or len(t.ops) != 1 or not isinstance(t.ops[0], ast.Is):
                continue
            for a, b in ((t.left, t.comparators[0]), (t.comparators[0], t.left)):
                if isinstance(a, ast.Subscript) and not isinstance(a.slice, ast.Slice):
                    lst = self.eval(a.value, st, func, depth)
                    idx = self.eval(a.slice, st, func, depth)
                    if isinstance(lst, GhostList) and isinstance(idx, Lin) and idx.is_const() and int(idx.c) in (0, -1):
                        other = self.eval(b, st, func, depth)
                        lst.alias[lst.elem_name(int(idx.c))] = other

    def isinstance_(self, st, v, clsv, node):
        names = []
        items = clsv.items if isinstance(clsv, Tup) else [clsv]
        for c in items:
            if isinstance(c, Const) and isinstance(c.v, tuple) and c.v[0] == "class":
                names.append(c.v[1])
            else:
                return B("atom", f"isinstance:{norm(node)}")
        if isinstance(v, Sym) and v.cls is not None and v.exact:
            mro = {c.qualname for c in self.repo.mro(v.cls)}
            return B("const", any(nm in mro for nm in names))
        if isinstance(v, Sym):
            if v.cls is not None:
                mro = {c.qualname for c in self.repo.mro(v.cls)}
                if any(nm in mro for nm in names):
                    return TRUE
            return B("atom", f"isinstance({v.name}, {'|'.join(sorted(n.split('.')[-1] for n in names))})")
        if isinstance(v, Lin | Const | Tup):
            return FALSE
        return B("atom", f"isinstance:{norm(node)}")

    def e_Yield(self, n, st, func, depth):
        v = self.eval(n.value, st, func, depth) if n.value is not None else Const(None)
        st.effects.append(("yield", n, v))
        return Const(None)

    def e_YieldFrom(self, n, st, func, depth):
        v = self.eval(n.value, st, func, depth)
        st.effects.append(("yield-from", n, v))
        return Const(None)

    def e_Lambda(self, n, st, func, depth):
        return Unknown("lambda")

    def e_GeneratorExp(self, n, st, func, depth):
        return Comp(n, dict(st.env))

    e_ListComp = e_GeneratorExp
    e_SetComp = e_GeneratorExp
    e_DictComp = e_GeneratorExp

    def e_Dict(self, n, st, func, depth):
        from .fold import try_fold

        c = try_fold(n, default=None)
        return Const(c) if c is not None else Sym(st.new_name("dict"))

    def e_Set(self, n, st, func, depth):
        return Sym(st.new_name("set"))

    def e_Starred(self, n, st, func, depth):
        return Star(self.eval(n.value, st, func, depth))

    # ------------------------------------------------------------------ iteration

    def iter_element(self, st, node, itv, n, func, depth):
        if isinstance(itv, Enum):
            inner = self.iter_element_of(st, node, itv.inner, n)
            try:
                return Tup([as_lin(itv.start) + as_lin(self.iter_index(st, node, n)), inner])
            except NotNumeric:
                return Tup([Unknown("enum idx"), inner])
        return self.iter_element_of(st, node, itv, n)

    def iter_index(self, st, node, n):
        """Symbolic 0-based index of iteration n of loop `node`: k, k+1, ... with one
        symbol per loop so that consecutive iterations are related."""
        return Lin.const(n)

    def iter_element_of(self, st, node, itv, n):
        if isinstance(itv, Tup) and not any(isinstance(x, Star) for x in itv.items):
            if n < len(itv.items):
                return itv.items[n]
        if isinstance(itv, Range):
            return itv.element(self.iter_index(st, node, n))
        if isinstance(itv, GhostList):
            return itv.elem(n)
        if isinstance(itv, Slice) and isinstance(itv.obj, GhostList):
            g = itv.obj
            lo = int(itv.lo.c) if isinstance(itv.lo, Lin) and itv.lo.is_const() else (None if itv.lo is None else "?")
            stp = int(itv.step.c) if isinstance(itv.step, Lin) and itv.step.is_const() else (1 if itv.step is None else "?")
            if stp == 1 and isinstance(lo, int) and lo >= 0 and itv.hi is None:
                return g.elem(lo + n)
            if stp == 1 and lo is None and itv.hi is None:
                return g.elem(n)
            if stp == -1 and isinstance(lo, int) and lo < 0 and itv.hi is None:
                return g.elem(lo - n)
            if stp == -1 and lo is None and itv.hi is None:
                return g.elem(-1 - n)
            return Unknown("slice iteration")
        base = itv.name if isinstance(itv, Sym | GhostList) else f"iter@{node.lineno}"
        return Sym(f"{base}[{n}]")

    def iter_done(self, st, node, itv, n):
        pass

    # ------------------------------------------------------------------ truthiness

    def truth(self, v) -> B:
        if isinstance(v, B):
            return v
        if isinstance(v, Lin):
            if v.is_const():
                return B("const", v.c != 0)
            return b_not(B("eq", _eq_sign(v)))
        if isinstance(v, Const):
            return B("const", bool(v.v))
        if isinstance(v, Tup) and not any(isinstance(x, Star) for x in v.items):
            return B("const", bool(v.items))
        if isinstance(v, GhostList):
            return b_not(B("eq", _eq_sign(v.count)))
        if isinstance(v, Sym):
            if v.exact:
                return TRUE
            return B("atom", f"truthy({v.name})")
        if isinstance(v, Ite):
            return B("atom", f"truthy({v!r})")
        return B("atom", f"truthy(?{id(v)})")


# --------------------------------------------------------------------------- small value kinds


class Star:
    def __init__(self, v):
        self.v = v

    def __repr__(self):
        return f"*{self.v!r}"


class Str:
    """str(x) of a symbolic value."""

    def __init__(self, v):
        self.v = v

    def __repr__(self):
        return f"str({self.v!r})"

    def __eq__(self, o):
        return isinstance(o, Str) and repr(o.v) == repr(self.v)

    def __hash__(self):
        return hash(repr(self))


class Lookup:
    """table[idx] with a constant table and a symbolic index."""

    def __init__(self, table, idx):
        self.table, self.idx = table, idx

    def __repr__(self):
        return f"{self.table!r}[{self.idx!r}]"


class Join:
    """sep.join(items)"""

    def __init__(self, sep, items):
        self.sep, self.items = sep, items

    def __repr__(self):
        return f"{self.sep!r}.join({self.items!r})"


class Fmt:
    def __init__(self, v, spec, conv):
        self.v, self.spec, self.conv = v, spec, conv

    def __repr__(self):
        return f"{{{self.v!r}{':' + self.spec if self.spec else ''}}}"


class Ite:
    def __init__(self, c, a, b):
        self.c, self.a, self.b = c, a, b

    def __repr__(self):
        return f"ite({self.c!r}, {self.a!r}, {self.b!r})"


class Slice:
    def __init__(self, obj, lo, hi, step):
        self.obj, self.lo, self.hi, self.step = obj, lo, hi, step

    def __repr__(self):
        return f"{self.obj!r}[{self.lo!r}:{self.hi!r}:{self.step!r}]"


class Enum:
    def __init__(self, inner, start):
        self.inner, self.start = inner, start


class Range:
    def __init__(self, args):
        self.args = args

    def bounds(self):
        a = self.args
        if len(a) == 1:
            return Lin.const(0), a[0], Lin.const(1)
        if len(a) == 2:
            return a[0], a[1], Lin.const(1)
        return a[0], a[1], a[2]

    def element(self, k: Lin):
        lo, hi, step = self.bounds()
        try:
            return as_lin(lo) + as_lin(step) * k
        except NotNumeric:
            return Unknown("range element")

    def __repr__(self):
        return f"range{tuple(self.args)!r}"


class Comp:
    def __init__(self, node, env):
        self.node, self.env = node, env

    def __repr__(self):
        return f"comp({norm(self.node)[:40]})"


def _from_py(c):
    if isinstance(c, bool):
        return B("const", c)
    if isinstance(c, int):
        return Lin.const(c)
    if isinstance(c, tuple):
        return Tup([_from_py(x) for x in c], "tuple")
    if isinstance(c, list):
        return Tup([_from_py(x) for x in c], "list")
    return Const(c)


def _as_load(t):
    import copy

    n = copy.copy(t)
    n.ctx = ast.Load()
    return n


def _short(v):
    if isinstance(v, Lin):
        return repr(v)
    if isinstance(v, Const):
        return repr(v.v)
    if isinstance(v, Sym):
        return v.name
    return "?"


def _ord2(a, b):
    return (a, b) if repr(a) <= repr(b) else (b, a)


def deep_subst(v, mapping):
    """Substitute atoms by Lins everywhere (inside opaque atoms and conditions too)."""
    if isinstance(v, Lin):
        out = Lin.const(v.c)
        for a, c in v.t.items():
            if a in mapping:
                out = out + as_lin(mapping[a]).scale(c)
            elif isinstance(a, tuple) and a and a[0] != "mono":
                na = (a[0], *[deep_subst(x, mapping) if isinstance(x, Lin | B) else x for x in a[1:]])
                if a[0] in ("max", "min"):
                    na = (a[0], *sorted(na[1:], key=repr))
                out = out + Lin({na: c})
            elif isinstance(a, tuple):
                out = out + Lin({a: c}).subst(mapping)
            else:
                out = out + Lin({a: c})
        return out
    if isinstance(v, B):
        if v.kind in ("le", "eq"):
            r = B(v.kind, deep_subst(v.a, mapping))
            if r.a.is_const():
                return B("const", (r.a.c <= 0) if v.kind == "le" else (r.a.c == 0))
            return r
        if v.kind == "not":
            return b_not(deep_subst(v.a, mapping))
        if v.kind == "and":
            return b_and([deep_subst(x, mapping) for x in v.a])
        if v.kind == "or":
            return b_or([deep_subst(x, mapping) for x in v.a])
        return v
    return v


def sym_self(func: Func, name="self") -> Sym:
    return Sym(name, func.cls)
