"""E3 `fold`: constant folding of literal tables, string-set propagation and regex
language queries.  No repository code is executed: only Python builtins are applied to
constants that were read out of the syntax tree."""

from __future__ import annotations

import ast
import itertools
import re
import string

from .model import AnalysisError, dotted

try:  # Python >= 3.11
    import re._parser as sre_parse
    import re._constants as sre_c
except ImportError:  # pragma: no cover
    import sre_parse
    import sre_constants as sre_c


class NotConstant(Exception):
    pass


_STRING_CONSTS = {
    "string.ascii_lowercase": string.ascii_lowercase,
    "string.ascii_uppercase": string.ascii_uppercase,
    "string.ascii_letters": string.ascii_letters,
    "string.digits": string.digits,
}

_SAFE_METHODS = {
    str: {"lower", "upper", "translate", "join", "startswith", "endswith", "strip", "rstrip", "lstrip", "replace", "split", "rsplit", "splitlines", "partition", "rpartition", "encode", "format", "title", "capitalize", "removeprefix", "removesuffix", "find", "rfind", "index", "count", "isdigit", "isalpha", "isspace", "zfill", "casefold", "swapcase", "expandtabs"},
    bytes: {"lower", "upper", "translate", "join", "decode", "strip", "rstrip", "lstrip", "startswith", "endswith", "count", "find", "rfind", "index", "isalpha", "isdigit", "isspace", "replace", "split", "rsplit", "splitlines", "partition", "rpartition", "removeprefix", "removesuffix", "expandtabs", "swapcase"},
    dict: {"get", "keys", "values", "items"},
    tuple: {"index", "count"},
    list: {"index", "count"},
}


class Folder:
    """Evaluate an expression over an environment of known constants."""

    def __init__(self, env=None, resolver=None):
        self.env = dict(env or {})
        self.resolver = resolver  # callable(name:str) -> value or raises NotConstant

    def fold(self, node):
        m = getattr(self, "f_" + type(node).__name__, None)
        if m is None:
            raise NotConstant(type(node).__name__)
        try:
            return m(node)
        except NotConstant:
            raise
        except AnalysisError:
            raise
        except Exception as e:  # a builtin rejected the constant (e.g. int('IIII'))
            raise NotConstant(f"{type(e).__name__}: {e}") from e

    def f_Constant(self, n):
        return n.value

    def f_Tuple(self, n):
        return tuple(self._seq(n.elts))

    def f_List(self, n):
        return list(self._seq(n.elts))

    def f_Set(self, n):
        return set(self._seq(n.elts))

    def _seq(self, elts):
        out = []
        for e in elts:
            if isinstance(e, ast.Starred):
                out.extend(self.fold(e.value))
            else:
                out.append(self.fold(e))
        return out

    def f_Dict(self, n):
        d = {}
        for k, v in zip(n.keys, n.values):
            if k is None:
                d.update(self.fold(v))
            else:
                d[self.fold(k)] = self.fold(v)
        return d

    def f_Name(self, n):
        if n.id in self.env:
            return self.env[n.id]
        if n.id in ("True", "False", "None"):
            return {"True": True, "False": False, "None": None}[n.id]
        if self.resolver:
            return self.resolver(n.id)
        raise NotConstant(n.id)

    def f_Attribute(self, n):
        d = dotted(n)
        if d in _STRING_CONSTS:
            return _STRING_CONSTS[d]
        if d and d in self.env:
            return self.env[d]
        if d and self.resolver:
            try:
                return self.resolver(d)
            except NotConstant:
                pass
        raise NotConstant(d or "attribute")

    def f_BinOp(self, n):
        a, b = self.fold(n.left), self.fold(n.right)
        ops = {
            ast.Add: lambda: a + b,
            ast.Sub: lambda: a - b,
            ast.Mult: lambda: a * b,
            ast.Mod: lambda: a % b,
            ast.FloorDiv: lambda: a // b,
            ast.BitOr: lambda: a | b,
            ast.BitAnd: lambda: a & b,
        }
        f = ops.get(type(n.op))
        if f is None:
            raise NotConstant("binop")
        if isinstance(a, float) or isinstance(b, float):
            if not isinstance(n.op, ast.Add | ast.Sub | ast.Mult | ast.Mod | ast.FloorDiv):
                raise NotConstant("binop")
        return f()

    def f_UnaryOp(self, n):
        v = self.fold(n.operand)
        if isinstance(n.op, ast.USub):
            return -v
        if isinstance(n.op, ast.Not):
            return not v
        if isinstance(n.op, ast.UAdd):
            return +v
        raise NotConstant("unary")

    def f_BoolOp(self, n):
        if isinstance(n.op, ast.And):
            v = True
            for x in n.values:
                v = self.fold(x)
                if not v:
                    return v
            return v
        v = False
        for x in n.values:
            v = self.fold(x)
            if v:
                return v
        return v

    def f_Compare(self, n):
        left = self.fold(n.left)
        for op, c in zip(n.ops, n.comparators):
            right = self.fold(c)
            r = {
                ast.Eq: lambda: left == right,
                ast.NotEq: lambda: left != right,
                ast.Lt: lambda: left < right,
                ast.LtE: lambda: left <= right,
                ast.Gt: lambda: left > right,
                ast.GtE: lambda: left >= right,
                ast.In: lambda: left in right,
                ast.NotIn: lambda: left not in right,
                ast.Is: lambda: left is right,
                ast.IsNot: lambda: left is not right,
            }[type(op)]()
            if not r:
                return False
            left = right
        return True

    def f_IfExp(self, n):
        return self.fold(n.body) if self.fold(n.test) else self.fold(n.orelse)

    def f_JoinedStr(self, n):
        out = []
        for v in n.values:
            if isinstance(v, ast.Constant):
                out.append(str(v.value))
            else:
                val = self.fold(v.value)
                spec = self.fold(v.format_spec) if v.format_spec else ""
                if v.conversion == ord("r"):
                    val = repr(val)
                elif v.conversion == ord("s"):
                    val = str(val)
                out.append(format(val, spec))
        return "".join(out)

    def f_Subscript(self, n):
        v = self.fold(n.value)
        if isinstance(n.slice, ast.Slice):
            lo = self.fold(n.slice.lower) if n.slice.lower else None
            hi = self.fold(n.slice.upper) if n.slice.upper else None
            st = self.fold(n.slice.step) if n.slice.step else None
            return v[lo:hi:st]
        return v[self.fold(n.slice)]

    def f_Call(self, n):
        d = dotted(n.func)
        args = [self.fold(a) for a in n.args]
        kwargs = {k.arg: self.fold(k.value) for k in n.keywords}
        if d == "str.maketrans":
            return str.maketrans(*args)
        if d == "bytes.maketrans":
            return bytes.maketrans(*args)
        if d == "next" and args and isinstance(args[0], list | tuple):
            if args[0]:
                return args[0][0]
            if len(args) > 1:
                return args[1]
            raise NotConstant("next() on an empty sequence without default")
        if d in ("any", "all", "sum") and len(args) >= 1 and isinstance(args[0], list | tuple | set):
            return {"any": any, "all": all, "sum": sum}[d](*args)
        if d in ("MappingProxyType", "types.MappingProxyType") and len(args) == 1 and isinstance(args[0], dict):
            return dict(args[0])  # read-only view: same mapping for folding purposes
        if d in ("str", "int", "len", "tuple", "list", "set", "frozenset", "dict", "sorted", "min", "max", "bool", "ord", "chr", "range", "bytes", "abs"):
            f = {"str": str, "int": int, "len": len, "tuple": tuple, "list": list, "set": set, "frozenset": frozenset, "dict": dict, "sorted": sorted, "min": min, "max": max, "bool": bool, "ord": ord, "chr": chr, "range": range, "bytes": bytes, "abs": abs}[d]
            return f(*args, **kwargs)
        # pure functions of the standard library applied to constants: regex matching (the result is a Match object or None,
        # itself only consulted through .group/.start/.end/.span/.groups)
        if d in ("re.match", "re.search", "re.fullmatch") and 2 <= len(args) <= 3 and isinstance(args[0], str | bytes) and type(args[0]) is type(args[1]) and all(isinstance(a_, int) for a_ in args[2:]):
            import re as _re

            try:
                return getattr(_re, d[3:])(*args)
            except _re.error as e_:
                raise NotConstant(f"regex error {e_}") from e_
        if isinstance(n.func, ast.Attribute):
            recv = self.fold(n.func.value)
            import re as _re

            if isinstance(recv, _re.Match) and n.func.attr in ("group", "groups", "start", "end", "span", "groupdict"):
                return getattr(recv, n.func.attr)(*args, **kwargs)
            for t, names in _SAFE_METHODS.items():
                if isinstance(recv, t) and n.func.attr in names:
                    return getattr(recv, n.func.attr)(*args, **kwargs)
        raise NotConstant(f"call {d}")

    def f_DictComp(self, n):
        out = {}
        for env in self._comp_envs(n.generators):
            sub = Folder({**self.env, **env}, self.resolver)
            out[sub.fold(n.key)] = sub.fold(n.value)
        return out

    def f_GeneratorExp(self, n):
        # folded eagerly to a list: only consumed by next()/any()/all()/sum()/tuple()/list()/join in foldable contexts
        return [Folder({**self.env, **e}, self.resolver).fold(n.elt) for e in self._comp_envs(n.generators)]

    def f_ListComp(self, n):
        return [Folder({**self.env, **e}, self.resolver).fold(n.elt) for e in self._comp_envs(n.generators)]

    def f_SetComp(self, n):
        return {Folder({**self.env, **e}, self.resolver).fold(n.elt) for e in self._comp_envs(n.generators)}

    def _comp_envs(self, gens, env=None):
        env = env or {}
        if not gens:
            yield dict(env)
            return
        g = gens[0]
        it = Folder({**self.env, **env}, self.resolver).fold(g.iter)
        for item in it:
            e2 = dict(env)
            _bind(g.target, item, e2)
            sub = Folder({**self.env, **e2}, self.resolver)
            if all(sub.fold(c) for c in g.ifs):
                yield from self._comp_envs(gens[1:], e2)


def _bind(target, value, env):
    if isinstance(target, ast.Name):
        env[target.id] = value
    elif isinstance(target, ast.Tuple | ast.List):
        vals = list(value)
        if len(vals) != len(target.elts):
            raise NotConstant("unpack")
        for t, v in zip(target.elts, vals):
            _bind(t, v, env)
    else:
        raise NotConstant("bind")


def try_fold(node, env=None, resolver=None, default=NotConstant):
    try:
        return Folder(env, resolver).fold(node)
    except NotConstant:
        if default is NotConstant:
            raise
        return default
    except Exception as e:  # folding applied a builtin to a bad constant
        if default is NotConstant:
            raise NotConstant(str(e)) from e
        return default


# ---------------------------------------------------------------------- regex


class Rx:
    """A parsed regular expression with a few language queries."""

    def __init__(self, pattern, flags=0):
        self.pattern = pattern
        self.is_bytes = isinstance(pattern, bytes)
        try:
            self.tree = sre_parse.parse(pattern, flags)
        except Exception as e:
            raise AnalysisError(f"cannot parse regex {pattern!r}: {e}") from e
        self.flags = self.tree.state.flags | flags

    # -- structural access
    def items(self):
        return list(self.tree)

    def groups(self):
        return self.tree.state.groups - 1

    def top_alternatives_of_group(self, gid=1):
        """Alternatives (each a list of items) of capture group `gid`."""
        for op, av in self._walk(self.tree):
            if op is sre_c.SUBPATTERN and av[0] == gid:
                body = av[3]
                if len(body) == 1 and body[0][0] is sre_c.BRANCH:
                    return [list(x) for x in body[0][1][1]]
                return [list(body)]
        raise AnalysisError(f"group {gid} not found in {self.pattern!r}")

    def _walk(self, seq):
        for op, av in seq:
            yield op, av
            if op is sre_c.SUBPATTERN:
                yield from self._walk(av[3])
            elif op is sre_c.BRANCH:
                for alt in av[1]:
                    yield from self._walk(alt)
            elif op in (sre_c.MAX_REPEAT, sre_c.MIN_REPEAT):
                yield from self._walk(av[2])


def charset(item, universe) -> frozenset:
    """Characters matched by a single-character item (LITERAL / IN / ANY / CATEGORY)."""
    op, av = item
    if op is sre_c.LITERAL:
        return frozenset([av])
    if op is sre_c.NOT_LITERAL:
        return frozenset(universe) - {av}
    if op is sre_c.ANY:
        return frozenset(universe) - {10}
    if op is sre_c.IN:
        neg = False
        s = set()
        for o, a in av:
            if o is sre_c.NEGATE:
                neg = True
            elif o is sre_c.LITERAL:
                s.add(a)
            elif o is sre_c.RANGE:
                s.update(range(a[0], a[1] + 1))
            elif o is sre_c.CATEGORY:
                s.update(_category(a, universe))
            else:
                raise AnalysisError(f"regex class item {o}")
        return frozenset(universe) - s if neg else frozenset(s)
    if op is sre_c.CATEGORY:
        return frozenset(_category(av, universe))
    raise AnalysisError(f"not a single-character regex item: {op}")


def _category(cat, universe):
    tests = {
        sre_c.CATEGORY_DIGIT: lambda c: chr(c).isdigit(),
        sre_c.CATEGORY_NOT_DIGIT: lambda c: not chr(c).isdigit(),
        sre_c.CATEGORY_SPACE: lambda c: chr(c).isspace(),
        sre_c.CATEGORY_NOT_SPACE: lambda c: not chr(c).isspace(),
        sre_c.CATEGORY_WORD: lambda c: chr(c).isalnum() or chr(c) == "_",
        sre_c.CATEGORY_NOT_WORD: lambda c: not (chr(c).isalnum() or chr(c) == "_"),
    }
    if cat not in tests:
        raise AnalysisError(f"regex category {cat}")
    return {c for c in universe if tests[cat](c)}


ASCII = range(0, 128)


def enumerate_language(items, max_len, universe=ASCII, rep_cap=None):
    """All strings (as tuples of code points) of length <= max_len in the language of
    the item sequence.  Returns (set, infinite?) where infinite? tells whether an
    unbounded repeat was met (the set then holds the members up to max_len)."""
    infinite = [False]

    def seq_lang(seq):
        langs = [item_lang(it) for it in seq]
        out = {()}
        for lang in langs:
            nxt = set()
            for a in out:
                for b in lang:
                    if len(a) + len(b) <= max_len:
                        nxt.add(a + b)
            out = nxt
        return out

    def item_lang(item):
        op, av = item
        if op in (sre_c.LITERAL, sre_c.NOT_LITERAL, sre_c.ANY, sre_c.IN, sre_c.CATEGORY):
            return {(c,) for c in charset(item, universe)}
        if op is sre_c.SUBPATTERN:
            return seq_lang(av[3])
        if op is sre_c.BRANCH:
            out = set()
            for alt in av[1]:
                out |= seq_lang(alt)
            return out
        if op in (sre_c.MAX_REPEAT, sre_c.MIN_REPEAT, getattr(sre_c, "POSSESSIVE_REPEAT", None)):
            lo, hi, sub = av
            base = seq_lang(sub)
            if hi is sre_c.MAXREPEAT or hi > max_len:
                if hi is sre_c.MAXREPEAT and any(base - {()}):
                    infinite[0] = True
                hi = max_len
            out = set()
            cur = {()}
            for k in range(0, hi + 1):
                if k >= lo:
                    out |= cur
                nxt = set()
                for a in cur:
                    for b in base:
                        if len(a) + len(b) <= max_len:
                            nxt.add(a + b)
                if not nxt:
                    break
                cur = nxt
            return out
        if op is sre_c.AT:
            return {()}
        raise AnalysisError(f"regex construct {op} is outside the analysed fragment")

    lang = seq_lang(list(items))
    return lang, infinite[0]


def to_text(cps, is_bytes=False):
    return bytes(cps) if is_bytes else "".join(map(chr, cps))
