"""C19 — overlap QC reports exactly the overlapping contig pairs.

 R0 the constructor guarantees start <= end (precondition of the interval semantics)
 R1 overlaps / overlap_length / abuts / gap_between == interval mathematics on every order region
 R2 algebra: symmetry; exactly one of overlap / abut / positive gap; abut <=> gap == 0
 R3 all-against-all scan visits every unordered pair of fragments exactly once
 R4 a pair is recorded iff the overlap predicate holds     R5 each recorded pair is reported once
"""

from __future__ import annotations

import ast

from ..model import AnalysisError, Func, Repo, dotted, is_name, norm, walk_shallow
from ..report import Ledger
from ..sym import B, Const, Lin, Range, State, Sym, SymExec, as_lin, cmp_lin, NotNumeric
from ..util import paths, arg_for_param
from ..zones import Region, Summary, Undecided, enumerate_regions, max_spread

PROP = "C19"
LEVEL = "proof"
EXPLANATION = (
    "The four interval predicates of Fragment are symbolically summarised per path (property accessors inlined) and "
    "compared with the interval-arithmetic specification on EVERY order region of the four endpoints (weak orders "
    "consistent with start<=end, adjacent blocks at distance 1..K or >=K+1, same/different contig name): in a region "
    "every comparison is decided and every result is an affine normal form, so equality of normal forms is equality "
    "for all integer inputs of the region. Symmetry, mutual exclusion (overlap / abut / positive gap) and abut<=>gap=0 "
    "are decided on the same regions. The all-against-all scan, the recording condition and the reporter are decided "
    "structurally (loop-range normal forms, path enumeration). Exhaustive over the region space."
)
LEVEL_NOTE = (
    "Trusted base: the analyser (E4 symbolic summaries, E5 region procedure) and the specification expressions "
    "written in sa/rules/c19.py (interval intersection, adjacency, gap). Assumes integer coordinates (enforced by int() "
    "in the constructor) and CPython semantics of min/max/comparison."
)


def summarise(repo: Repo, f: Func, a: Sym, b: Sym) -> Summary:
    ex = SymExec(repo, loop_iters=(0, 1))
    st = State()
    p = f.params()
    finals = ex.run_function(f, st, {p[0]: a, p[1]: b})
    cases = []
    for r in finals:
        cases.append((r.pc, r.ret, r.path.describe() if r.path else ""))
    if not cases:
        raise AnalysisError(f"{f.short}: no returning path")
    return Summary(f.short, cases)


def endpoint_atoms(repo: Repo, frag_cls, obj: Sym):
    ex = SymExec(repo)
    st = State()
    out = {}
    for attr in ("start", "end", "name"):
        v = ex.get_attr(st, obj, attr, None, None)
        try:
            l = as_lin(v)
        except NotNumeric:
            raise AnalysisError(f"Fragment.{attr} does not reduce to a field: {v!r}")
        if len(l.t) != 1 or l.c != 0 or list(l.t.values())[0] != 1:
            raise AnalysisError(f"Fragment.{attr} is not a plain field read: {l}")
        out[attr] = list(l.t)[0]
    return out


# ------------------------------------------------------------------ specification (trusted)


def spec(region: Region, A, Bv, same):
    """Interval mathematics on closed integer intervals [s1,e1], [s2,e2] — the trusted
    specification.  Values are region-normalised Lins."""
    s1, e1, s2, e2 = (region.pos[A["start"]], region.pos[A["end"]], region.pos[Bv["start"]], region.pos[Bv["end"]])

    def le(x, y):
        return region.decide_le(x - y)

    lo = s1 if le(s2, s1) else s2  # max of starts
    hi = e1 if le(e1, e2) else e2  # min of ends
    intersect = le(lo, hi)
    out = {}
    out["overlaps"] = ("bool", bool(same and intersect))
    out["overlap_length"] = ("int", (hi - lo + Lin.const(1)).key()) if (same and intersect) else ("const", None)
    adjacent = region.decide_eq(e1 + Lin.const(1) - s2) or region.decide_eq(e2 + Lin.const(1) - s1)
    out["abuts"] = ("bool", bool(same and adjacent))
    out["gap_between"] = ("int", (lo - hi - Lin.const(1)).key()) if (same and not intersect) else ("const", None)
    return out


def run(repo: Repo, L: Ledger, tier: str):
    L.rule("R0", "Fragment constructor rejects start > end")
    L.rule("R1", "predicate == interval specification on every order region")
    L.rule("R2", "symmetry; exactly one of overlap/abut/positive gap; abut <=> gap == 0")
    L.rule("R3", "scan enumerates each unordered pair of all fragments exactly once")
    L.rule("R4", "pair recorded iff overlaps()")
    L.rule("R5", "each recorded pair reported once")

    frag = repo.cls("Fragment")
    a, b = Sym("a", frag), Sym("b", frag)
    A, Bv = endpoint_atoms(repo, frag, a), endpoint_atoms(repo, frag, b)

    # ---- R0
    init = repo.find_method(frag, "__init__")
    ex = SymExec(repo, loop_iters=(0, 1))
    st = State()
    obj = Sym("a", frag)
    params = init.params()
    args = {params[0]: obj}
    for p in params[1:]:
        args[p] = Sym(f"arg_{p}")
    args.setdefault("tags", Const(()))
    finals = ex.run_function(init, st, args)
    want = None
    ok0 = bool(finals)
    for r in finals:
        s_v, e_v = r.heap.get(("a", A["start"].split(".")[-1])), r.heap.get(("a", A["end"].split(".")[-1]))
        if s_v is None or e_v is None:
            ok0 = False
            break
        want = cmp_lin("<=", as_lin(s_v), as_lin(e_v))
        if want not in r.pc:
            ok0 = False
    L.check(ok0, "R0", "Fragment.__init__", "every non-raising constructor path has start <= end on its path condition", "a constructor path accepts start > end: the interval predicates are then no longer interval mathematics", init.loc())

    # ---- R1/R2 over regions
    preds = {}
    for name in ("overlaps", "overlap_length", "abuts", "gap_between"):
        f = repo.find_method(frag, name)
        if f is None:
            raise AnalysisError(f"anchor Fragment.{name} vanished")
        preds[name] = (f, summarise(repo, f, a, b), summarise(repo, f, b, a))
    K = max(2, max_spread([s for _, s, _ in preds.values()]) + 1)
    if tier == "thorough":
        K += 1
    variables = [A["start"], A["end"], Bv["start"], Bv["end"]]
    cons = [(A["start"], A["end"]), (Bv["start"], Bv["end"])]
    n_regions = 0
    failures = {}
    for region in enumerate_regions(variables, cons, K, {"same": (True, False)}):
        same = region.flags["same"]
        region.flags[A["name"]] = 0
        region.flags[Bv["name"]] = 0 if same else 1
        n_regions += 1
        try:
            sp = spec(region, A, Bv, same)
            got = {}
            for name, (f, s_ab, s_ba) in preds.items():
                v, info = s_ab.eval(region)
                got[name] = v
                if v != sp[name]:
                    failures.setdefault(("R1", name), []).append((region, v, sp[name], info))
                v2, _ = s_ba.eval(region)
                if v2 != v:
                    failures.setdefault(("R2", name + ":symmetry"), []).append((region, v, v2, info))
            if same:
                gap = got["gap_between"]
                pos_gap = gap[0] == "int" and _positive(region, gap)
                zero_gap = gap[0] == "int" and gap[1] == Lin.const(0).key()
                trio = [got["overlaps"] == ("bool", True), got["abuts"] == ("bool", True), pos_gap]
                if sum(trio) != 1:
                    failures.setdefault(("R2", "exactly-one"), []).append((region, trio, "exactly one of overlap/abut/positive gap", ""))
                if (got["abuts"] == ("bool", True)) != zero_gap:
                    failures.setdefault(("R2", "abut<=>gap0"), []).append((region, got["abuts"], gap, ""))
                ol = got["overlap_length"]
                if (got["overlaps"] == ("bool", True)) != (ol[0] == "int"):
                    failures.setdefault(("R2", "overlap<=>length"), []).append((region, got["overlaps"], ol, ""))
        except Undecided as e:
            raise AnalysisError(f"region procedure inconclusive: {e}") from e
    L.extra["regions"] = n_regions
    L.extra["K"] = K
    L.exhaustive = True
    for name, (f, _, _) in preds.items():
        key = ("R1", name)
        if key in failures:
            region, got_v, want_v, info = failures[key][0]
            L.fail("R1", f"Fragment.{name}", f"differs from the interval specification on {len(failures[key])} of {n_regions} order regions; first: {region.describe()} gives {_show(got_v)} but the specification gives {_show(want_v)}", f.loc(), witness=_wit(region, A, Bv), path=info)
        else:
            L.ok("R1", f"Fragment.{name}", f"equal to the specification on all {n_regions} regions (K={K})", f.loc())
        key2 = ("R2", name + ":symmetry")
        if key2 in failures:
            region, v, v2, info = failures[key2][0]
            L.fail("R2", f"Fragment.{name}:symmetry", f"not symmetric on {len(failures[key2])} regions; first: {region.describe()}: f(a,b)={_show(v)} f(b,a)={_show(v2)}", f.loc(), witness=_wit(region, A, Bv))
        else:
            L.ok("R2", f"Fragment.{name}:symmetry", f"f(a,b) == f(b,a) on all {n_regions} regions", f.loc())
    for law in ("exactly-one", "abut<=>gap0", "overlap<=>length"):
        key = ("R2", law)
        if key in failures:
            region, x, y, _ = failures[key][0]
            L.fail("R2", f"Fragment:{law}", f"law fails on {len(failures[key])} regions; first: {region.describe()}: {x} vs {y}", frag.module.relpath, witness=_wit(region, A, Bv))
        else:
            L.ok("R2", f"Fragment:{law}", f"holds on all same-name regions", frag.module.relpath)

    # ---- R3..R5 structural
    _scan_rules(repo, L)


def _positive(region, gap):
    terms, c = gap[1]
    if not terms:
        return c > 0
    return all(v > 0 for _, v in terms) and c >= 0


def _show(v):
    if v[0] == "int":
        terms, c = v[1]
        if not terms:
            return str(c)
        return " + ".join(f"{val}*{a}" for a, val in terms) + f" + {c}"
    return repr(v[1])


def _wit(region, A, Bv):
    w = region.witness()
    nm = "ctg" if region.flags.get("same") else None
    return {
        "a": f"{'ctg'}:{w[A['start']]}-{w[A['end']]}",
        "b": f"{'ctg' if region.flags.get('same') else 'other'}:{w[Bv['start']]}-{w[Bv['end']]}",
        "region": region.describe(),
    }


# ------------------------------------------------------------------ R3..R5


def _scan_rules(repo: Repo, L: Ledger):
    asm = repo.cls("Assembly")
    finder = repo.find_method(asm, "find_overlapping_fragments")
    if finder is None:
        raise AnalysisError("anchor Assembly.find_overlapping_fragments vanished")
    # the scan = the method the finder hands a callback to
    scan = None
    cb = None
    for c in repo.calls_in(finder):
        targets, _, _ = repo.resolve_call(c, finder)
        for t in targets:
            if t.cls is asm and c.args and isinstance(c.args[0], ast.Name) and c.args[0].id in finder.nested:
                scan, cb = t, finder.nested[c.args[0].id]
    if scan is None:
        raise AnalysisError("all-against-all scan (callback style) not found in find_overlapping_fragments")

    # R3a: the flat list holds every fragment of every scaffold
    ok_build, listname, why_build, form_build = _flat_list(scan)
    if ok_build is None:
        raise AnalysisError(f"{scan.short}: how the scan's work list is built is not understood ({why_build})")
    L.check(ok_build, "R3", f"{scan.short}:flatten", "flat list = every fragment of every scaffold (unfiltered)", why_build or "the scan's work list is not built from all fragments of all scaffolds without a filter", scan.loc())
    from .shared import check_row_iter

    check_row_iter(repo, L, "R3", repo.cls("Scaffold"), "fragments", "Fragment", "row", "yields exactly the Fragment rows", "Scaffold.fragments() no longer yields exactly the rows that are Fragments")

    # R3b: pairs.  Form 1: `for a, b in itertools.combinations(<flat list>, 2): cb(a, b)` (library semantics: each
    # unordered pair of positions exactly once)
    comb = _combinations_form(scan, listname)
    if comb is not None:
        okc, whyc = comb
        L.check(okc, "R3", f"{scan.short}:pairs", "itertools.combinations(flat list, 2): every unordered pair exactly once", whyc, scan.loc())
        return _callback_rule(repo, L, cb, finder)
    # Form 2: index loops
    ex = _ScanExec(repo)
    st = State()
    p = scan.params()
    finals = ex.run_function(scan, st, {p[0]: Sym("self", asm), p[1]: Sym("compare_func")})
    calls = ex.captured
    if not calls:
        L.fail("R3", f"{scan.short}:pairs", "no call of the comparison callback found on any path", scan.loc())
    ok_pairs = bool(calls)
    why = ""
    for (node, idx_a, idx_b, ranges, same_list) in calls:
        if not same_list:
            if not all(isinstance(a, ast.Subscript) for a in node.args[:2]):
                raise AnalysisError(f"{scan.short}: the callback's arguments are not drawn from the work list by index or by itertools.combinations — pair enumeration not understood")
            ok_pairs, why = False, "callback arguments are not two elements of the same list"
            break
        from ..util import ancestors as _anc

        encl = [a for a in _anc(node) if isinstance(a, ast.For | ast.While)]
        if len(encl) != 2:
            ok_pairs, why = False, f"the pair loops are nested inside {len(encl) - 2} further loop(s): only pairs within one group are compared, pairs across groups are never examined"
            break
        lst = norm(node.args[0].value) if isinstance(node.args[0], ast.Subscript) else None
        if listname is not None and lst != listname:
            ok_pairs, why = False, f"pairs are drawn from '{lst}', not from the flat list '{listname}' of all fragments"
            break
        if len(ranges) != 2:
            ok_pairs, why = False, f"{len(ranges)} enclosing range loops (expected 2)"
            break
        (lo1, hi1, i1), (lo2, hi2, i2) = ranges
        n = Lin.atom("n")
        form = None
        try:
            if lo1 == Lin.const(0) and (hi1 == n or hi1 == n - 1) and lo2 == i1 + 1 and hi2 == n:
                form = "i<j"
            elif (lo1 == Lin.const(0) or lo1 == Lin.const(1)) and hi1 == n and lo2 == Lin.const(0) and hi2 == i1:
                form = "j<i"
        except Exception:
            form = None
        if form is None:
            ok_pairs, why = False, f"loop ranges outer=[{lo1}, {hi1}) inner=[{lo2}, {hi2}) do not enumerate each unordered pair exactly once"
            break
        if not ({repr(idx_a), repr(idx_b)} == {repr(i1), repr(i2)}):
            ok_pairs, why = False, f"callback receives elements [{idx_a}] and [{idx_b}], not the two loop indices"
            break
    L.check(ok_pairs, "R3", f"{scan.short}:pairs", "outer i in [0,n), inner j in [i+1,n): every unordered pair exactly once", why, scan.loc(), witness={"n": 3, "pairs expected": "(0,1),(0,2),(1,2)"})

    _callback_rule(repo, L, cb, finder)


def _flat_list(scan):
    """-> (ok | None, listname, why, form): the list of (fragment, scaffold) for every fragment of every scaffold."""
    def frag_iter(it, lv):
        return isinstance(it, ast.Call) and isinstance(it.func, ast.Attribute) and it.func.attr == "fragments" and not it.args and is_name(it.func.value, lv)

    body = scan.node.body
    # (a) L = [elt for s in self.scaffolds for x in s.fragments()]
    for n in body:
        if isinstance(n, ast.Assign) and len(n.targets) == 1 and isinstance(n.targets[0], ast.Name) and isinstance(n.value, ast.ListComp):
            gens = n.value.generators
            if len(gens) == 2 and norm(gens[0].iter) == "self.scaffolds" and isinstance(gens[0].target, ast.Name) and frag_iter(gens[1].iter, gens[0].target.id):
                if gens[0].ifs or gens[1].ifs:
                    return False, n.targets[0].id, "the scan's work list is built with a filter: some fragments are never compared", "listcomp"
                return True, n.targets[0].id, "", "listcomp"
    # (a') the same comprehension written in place as the first argument of combinations(...)
    for n in body:
        if isinstance(n, ast.For) and isinstance(n.iter, ast.Call) and (dotted(n.iter.func) or "").split(".")[-1] == "combinations" and n.iter.args and isinstance(n.iter.args[0], ast.ListComp | ast.GeneratorExp):
            gens = n.iter.args[0].generators
            if len(gens) == 2 and norm(gens[0].iter) == "self.scaffolds" and isinstance(gens[0].target, ast.Name) and frag_iter(gens[1].iter, gens[0].target.id):
                if gens[0].ifs or gens[1].ifs:
                    return False, "<inline>", "the scan's work list is built with a filter: some fragments are never compared", "listcomp"
                return True, "<inline>", "", "listcomp"
    # (b) for s in self.scaffolds: L.extend(<gen over s.fragments()>)  |  for x in s.fragments(): L.append(...)
    for bf in body:
        if not (isinstance(bf, ast.For) and norm(bf.iter) == "self.scaffolds" and isinstance(bf.target, ast.Name)):
            continue
        lv = bf.target.id
        if len(bf.body) != 1:
            return False, None, "the loop building the scan's work list does more than collect the fragments (conditional / filtered)", "loop"
        st = bf.body[0]
        if isinstance(st, ast.Expr) and isinstance(st.value, ast.Call) and isinstance(st.value.func, ast.Attribute) and st.value.func.attr == "extend" and isinstance(st.value.func.value, ast.Name):
            g = st.value.args[0] if st.value.args else None
            if isinstance(g, ast.GeneratorExp | ast.ListComp) and len(g.generators) == 1 and frag_iter(g.generators[0].iter, lv):
                if g.generators[0].ifs:
                    return False, st.value.func.value.id, "the scan's work list is built with a filter: some fragments are never compared", "extend"
                return True, st.value.func.value.id, "", "extend"
            return False, st.value.func.value.id, "the scan's work list is not extended with every fragment of the scaffold", "extend"
        if isinstance(st, ast.For) and frag_iter(st.iter, lv):
            if len(st.body) == 1 and isinstance(st.body[0], ast.Expr) and isinstance(st.body[0].value, ast.Call) and isinstance(st.body[0].value.func, ast.Attribute) and st.body[0].value.func.attr == "append" and isinstance(st.body[0].value.func.value, ast.Name):
                return True, st.body[0].value.func.value.id, "", "append"
            return False, None, "the scan's work list is built with a filter: some fragments are never compared", "append"
        return False, None, "the scan's work list is not built from all fragments of all scaffolds without a filter", "loop"
    return None, None, "no loop over self.scaffolds and no comprehension over it", None


def _combinations_form(scan, listname):
    """-> None when the scan does not use itertools.combinations; else (ok, why)"""
    for lp in scan.node.body:
        if not (isinstance(lp, ast.For) and isinstance(lp.iter, ast.Call) and (dotted(lp.iter.func) or "").split(".")[-1] == "combinations"):
            continue
        d = dotted(lp.iter.func)
        if d not in ("itertools.combinations", "combinations"):
            continue
        a = lp.iter.args
        if not (len(a) == 2 and isinstance(a[1], ast.Constant) and a[1].value == 2):
            return False, f"pairs drawn with {norm(lp.iter)}: not the 2-element combinations"
        if listname == "<inline>" and isinstance(a[0], ast.ListComp | ast.GeneratorExp):
            pass
        elif not isinstance(a[0], ast.Name):
            raise AnalysisError(f"{scan.short}: pairs are drawn from '{norm(a[0])[:60]}': how that relates to the list of all fragments is not understood")
        elif a[0].id != listname:
            return False, f"pairs are drawn from '{norm(a[0])}', not from the flat list '{listname}' of all fragments"
        if not (isinstance(lp.target, ast.Tuple) and len(lp.target.elts) == 2 and all(isinstance(e, ast.Name) for e in lp.target.elts)):
            return None
        x, y = (e.id for e in lp.target.elts)
        from .shared import is_noise

        stmts = [s for s in lp.body if not is_noise(s)]
        if len(stmts) == 1 and isinstance(stmts[0], ast.Expr) and isinstance(stmts[0].value, ast.Call) and isinstance(stmts[0].value.func, ast.Name):
            c = stmts[0].value
            if c.func.id == scan.params()[1] and len(c.args) == 2 and {norm(c.args[0]), norm(c.args[1])} == {x, y}:
                return True, ""
        return False, "not every pair of the combinations is handed to the comparison callback (conditional or altered call)"
    return None


def _callback_rule(repo, L, cb, finder):
    # R4: callback records iff overlaps
    frag = repo.cls("Fragment")
    ps = paths(cb, (0, 1), exc_edges=False)
    cp = cb.params()
    ok4 = True
    why4 = ""
    n_rec = 0
    extra_conds = []  # (condition text, truth on the path, did the path record?) for conditions other than the overlap test
    by_pred = {}
    for pth in ps:
        conds = [(e.node, e.val) for e in pth.events if e.kind == "cond"]
        appends = [e.node for e in pth.events if e.kind == "stmt" and isinstance(e.node, ast.Expr) and isinstance(e.node.value, ast.Call) and isinstance(e.node.value.func, ast.Attribute) and e.node.value.func.attr in ("append", "add")]
        pred_true = None
        for t, val in conds:
            c = t
            neg = False
            while isinstance(c, ast.UnaryOp) and isinstance(c.op, ast.Not):
                c, neg = c.operand, not neg
            if isinstance(c, ast.Call) and isinstance(c.func, ast.Attribute) and c.func.attr == "overlaps":
                # locals that merely name (a component of) a callback argument are followed
                from ..util import local_defs as _ld

                refs = set()
                for n in ast.walk(c):
                    if isinstance(n, ast.Name):
                        refs.add(n.id)
                        for d_ in _ld(cb, n.id):
                            refs |= {x.id for x in ast.walk(d_) if isinstance(x, ast.Name)}
                if set(cp[:2]) <= refs:
                    pred_true = (val != neg)
                else:
                    ok4, why4 = False, f"overlap test '{norm(c)}' does not compare the two callback arguments"
            else:
                extra_conds.append((norm(t), val, bool(appends)))
        if pred_true is None and conds == []:
            if appends:
                ok4, why4 = False, "pair recorded unconditionally"
            else:
                ok4, why4 = False, "no overlap test in the callback"
        elif pred_true is None:
            # a path that leaves (or records) on some other condition before the overlap test is reached
            if appends:
                ok4, why4 = False, f"a pair is recorded on a path that never consults overlaps() ({pth.describe()[:80]})"
            else:
                raise AnalysisError(f"{cb.short}: a path leaves the comparison callback on another condition before overlaps() is consulted ({pth.describe()[:80]}): whether pairs are lost is not decided")
        elif pred_true is True:
            n_rec += 1
            if len(appends) != 1:
                ok4, why4 = False, f"{len(appends)} records on the overlapping path"
            else:
                refs = {n.id for n in ast.walk(appends[0]) if isinstance(n, ast.Name)}
                if not set(cp[:2]) <= refs:
                    ok4, why4 = False, "recorded value does not hold both fragments"
        elif pred_true is False and appends:
            ok4, why4 = False, "pair recorded although overlaps() is false"
    if n_rec == 0 and ok4:
        ok4, why4 = False, "no path records a pair"
    L.check(ok4, "R4", f"{cb.short}", "records (v1, v2) exactly when v1.overlaps(v2)", why4, cb.loc())
    # finder returns the recorded list (or None when empty)
    rets = [n for n in walk_shallow(finder.node) if isinstance(n, ast.Return) and n.value is not None]
    rec_names = set()
    for n in walk_shallow(cb.node):
        if isinstance(n, ast.Call) and isinstance(n.func, ast.Attribute) and n.func.attr in ("append", "add") and isinstance(n.func.value, ast.Name):
            rec_names.add(n.func.value.id)
    def _ret_ok(r):
        if {x.id for x in ast.walk(r.value) if isinstance(x, ast.Name)} & rec_names:
            return True
        # `return None` is fine when it is the branch taken for an empty record list
        if isinstance(r.value, ast.Constant) and r.value.value is None:
            par = getattr(r, "_parent", None)
            return isinstance(par, ast.If) and bool({x.id for x in ast.walk(par.test) if isinstance(x, ast.Name)} & rec_names)
        return False

    ok_ret = bool(rets) and all(_ret_ok(r) for r in rets) and any({x.id for x in ast.walk(r.value) if isinstance(x, ast.Name)} & rec_names for r in rets)
    L.check(ok_ret, "R4", f"{finder.short}:return", "returns the recorded list", "find_overlapping_fragments does not return the recorded pairs", finder.loc())

    # R5: reporter
    rep = repo.try_func("report_overlaps", "asm_format")
    proc = repo.try_func("process_fh", "asm_format")
    if rep is None or proc is None:
        raise AnalysisError("anchors asm_format.report_overlaps / process_fh vanished")
    rp = rep.params()
    loops = [n for n in rep.node.body if isinstance(n, ast.For)]
    ok5 = False
    why5 = "reporter does not loop once over the recorded pairs"
    if len(loops) == 1 and is_name(loops[0].iter, rp[-1]):
        lp = loops[0]
        body_paths = __import__("sa.flow", fromlist=["PathEnum"]).PathEnum((0, 1), exc_edges=False).block(lp.body)
        counts = set()
        for bp in body_paths:
            k = 0
            for e in bp.events:
                if e.kind == "stmt":
                    for c in [x for x in [e.node, *walk_shallow(e.node)] if isinstance(x, ast.Call)]:
                        if (dotted(c.func) or "").endswith(("echo", "print", "write", "warning", "info", "error")):
                            k += 1
            counts.add((k, bp.status))
        ok5 = counts == {(1, "fall")}
        why5 = f"loop body emits {sorted(counts)} messages per pair (expected exactly one on every path, no break/continue)"
        if ok5:
            # the message mentions both fragments
            tgt_names = {n.id for n in ast.walk(lp.target) if isinstance(n, ast.Name)}
            bound = set()
            for s in lp.body:
                if isinstance(s, ast.Assign):
                    if {x.id for x in ast.walk(s.value) if isinstance(x, ast.Name)} & tgt_names:
                        for t in s.targets:
                            bound |= {x.id for x in ast.walk(t) if isinstance(x, ast.Name)}
            echo = [c for s in lp.body for c in [s, *walk_shallow(s)] if isinstance(c, ast.Call) and (dotted(c.func) or "").endswith(("echo", "print", "write"))]
            used = {x.id for c in echo for x in ast.walk(c) if isinstance(x, ast.Name)}
            # follow locals of the loop body the message is assembled from
            grew = True
            while grew:
                grew = False
                for s_ in lp.body:
                    if isinstance(s_, ast.Assign | ast.AugAssign):
                        tg = {x.id for t in (s_.targets if isinstance(s_, ast.Assign) else [s_.target]) for x in ast.walk(t) if isinstance(x, ast.Name)}
                        if tg & used:
                            more = {x.id for x in ast.walk(s_.value) if isinstance(x, ast.Name)} - used
                            if more - tg:
                                used |= more
                                grew = True
            ok5 = len(bound & used) >= 2 or bool(tgt_names & used)
            why5 = "the message does not show both fragments of the pair"
    L.check(ok5, "R5", rep.short, "one message per recorded pair showing both fragments", why5, rep.loc())
    if ok5 and len(loops) == 1:
        # each fragment is shown with the scaffold it was recorded with: `f1, s1 = pr[0]; f2, s2 = pr[1]` -- every unpacked name
        # must appear in the message, none twice in place of another
        lp = loops[0]
        unpack = [s_ for s_ in lp.body if isinstance(s_, ast.Assign) and isinstance(s_.targets[0], ast.Tuple) and len(s_.targets[0].elts) == 2 and all(isinstance(e_, ast.Name) for e_ in s_.targets[0].elts) and isinstance(s_.value, ast.Subscript)]
        if len(unpack) == 2:
            names = [e_.id for s_ in unpack for e_ in s_.targets[0].elts]
            echo = [c for s_ in lp.body for c in [s_, *walk_shallow(s_)] if isinstance(c, ast.Call) and (dotted(c.func) or "").endswith(("echo", "print", "write"))]
            cnt = {nm: sum(1 for c in echo for x in ast.walk(c) if isinstance(x, ast.Name) and x.id == nm) for nm in names}
            unused = [nm for nm, k in cnt.items() if k == 0]
            twice = [nm for nm, k in cnt.items() if k > 1]
            if unused and twice:
                L.fail("R5", rep.short + ":attribution", f"the message shows '{twice[0]}' twice and never '{unused[0]}': one fragment of each pair is reported with the other fragment's scaffold (cross-scaffold overlaps read as overlaps inside one scaffold)", rep.loc(echo[0]) if echo else rep.loc())
            else:
                L.ok("R5", rep.short + ":attribution", "each fragment of a pair is shown with its own scaffold", rep.loc())
    # process_fh: report called with the finder's result under the qc flag — decided per path: every path on which the
    # qc flag is true and the scan result is truthy calls the reporter with that result; no path calls it otherwise
    from ..flow import cond_facts as _cf
    from ..util import paths as _paths

    qcp = next((q for q in proc.params() if "qc" in q or "overlap" in q), None)
    if qcp is None:
        raise AnalysisError(f"{proc.short}: qc flag parameter not found")
    ok5b, why5b, n_rep = True, "", 0
    for pth in _paths(proc, (0,), exc_edges=False):
        if pth.status == "raise":
            continue
        flag = None
        res_names, res_truth = set(), None
        scanned = False
        rep_args = None
        for e in pth.events:
            nodes = [e.node, *walk_shallow(e.node)] if e.kind in ("stmt", "cond") else []
            for x in nodes:
                if isinstance(x, ast.Call) and isinstance(x.func, ast.Attribute) and x.func.attr == "find_overlapping_fragments":
                    scanned = True
                    par = getattr(x, "_parent", None)
                    if isinstance(par, ast.NamedExpr):
                        res_names.add(par.target.id)
                    elif isinstance(par, ast.Assign) and isinstance(par.targets[0], ast.Name):
                        res_names.add(par.targets[0].id)
                if isinstance(x, ast.Call) and dotted(x.func) == rep.name:
                    rep_args = [norm(a) for a in x.args]
            if e.kind == "cond":
                for t, v in _cf(e.node, e.val):
                    if isinstance(t, ast.Name) and t.id == qcp:
                        flag = v
                    if isinstance(t, ast.NamedExpr) and t.target.id in res_names:
                        res_truth = v
                    if isinstance(t, ast.Name) and t.id in res_names:
                        res_truth = v
        if rep_args is not None:
            n_rep += 1
            if flag is not True or not scanned or not (res_names & set(rep_args)):
                ok5b, why5b = False, f"the reporter is called with {rep_args} on a path where the qc flag is {flag} / the scan result is {sorted(res_names)}"
        elif flag is True and scanned and res_truth is True:
            ok5b, why5b = False, "a path with the qc flag set and a non-empty scan result does not call the reporter"
        elif flag is True and not scanned:
            ok5b, why5b = False, "with the qc flag set a path does not scan for overlaps"
    if n_rep == 0 and ok5b:
        ok5b, why5b = False, "the reporter is never called"
    L.check(ok5b, "R5", proc.short, "reporter receives the scan result when --qc-overlaps is set", "process_fh does not pass the scan result to the reporter under the qc flag: " + why5b, proc.loc())


class _ScanExec(SymExec):
    """Captures callback invocations with their loop-range normal forms."""

    def __init__(self, repo):
        super().__init__(repo, loop_iters=(1,))
        self.captured = []

    def iter_index(self, st, node, n):
        # an arbitrary iteration of each loop: symbolic counter
        return Lin.atom(f"k@{node.lineno}") + n

    def call_default(self, st, n, fval, args, kwargs, func, depth):
        if isinstance(n.func, ast.Name) and isinstance(st.env.get(n.func.id), Sym) and st.env[n.func.id].name == "compare_func":
            idxs = []
            lists = []
            for a in n.args:
                if isinstance(a, ast.Subscript):
                    idxs.append(self.eval(a.slice, st, func, depth))
                    lists.append(norm(a.value))
                else:
                    idxs.append(None)
                    lists.append(norm(a))
            ranges = []
            node = n
            from ..util import ancestors

            for anc in ancestors(n):
                if isinstance(anc, ast.For):
                    itv = st.env.get(("iter", id(anc)))
                    if isinstance(itv, Range):
                        lo, hi, step = itv.bounds()
                        var = st.env.get(anc.target.id) if isinstance(anc.target, ast.Name) else None
                        try:
                            ranges.append((self._n(as_lin(lo)), self._n(as_lin(hi)), self._n(as_lin(var))))
                        except NotNumeric:
                            ranges.append((None, None, None))
            ranges.reverse()
            try:
                ia = self._n(as_lin(idxs[0])) if idxs[0] is not None else None
                ib = self._n(as_lin(idxs[1])) if len(idxs) > 1 and idxs[1] is not None else None
            except NotNumeric:
                ia = ib = None
            self.captured.append((n, ia, ib, ranges, len(set(lists)) == 1 and len(lists) == 2))
            return Const(None)
        return super().call_default(st, n, fval, args, kwargs, func, depth)

    def _n(self, lin: Lin) -> Lin:
        """Normalise len(<list>) atoms to 'n' and loop counters to themselves."""
        m = {}
        for a in lin.t:
            if isinstance(a, str) and (a.startswith("len(") or a.startswith("len?")):
                m[a] = Lin.atom("n")
        return lin.subst(m)
