"""C16 — --no-clobber never alters an existing file.

Decided structurally over the call graph of pretext_to_asm.cli:
 R1 who may create/modify a file   R2 mode under clobber=False / True (string-set folding)
 R3 the flag arrives unchanged     R4 FileExistsError => message with path + non-zero exit
 R5 click option pair and default
"""

from __future__ import annotations

import ast

from ..model import AnalysisError, Func, Repo, dotted, is_name, norm, walk_shallow
from ..report import Ledger
from ..util import (
    arg_for_param,
    contains,
    decorator_calls,
    enclosing,
    kw,
    names_in,
    param_default,
    paths,
    strset,
)
from ..fold import try_fold

PROP = "C16"
LEVEL = "other"
EXPLANATION = (
    "Static who-may-write / mode-folding / flag-propagation analysis of the pretext-to-asm call graph: every "
    "file-creating or file-modifying site reachable from the CLI is enumerated (R1); for each site governed by the "
    "clobber flag the open mode is folded as a finite string set under clobber=False (must be exclusive-create 'x', "
    "never w/a/+) and clobber=True (must be truncating 'w') with the mode parameter joined over all call sites (R2); "
    "along every call edge the flag is the caller's own parameter up to the click option (R3); each FileExistsError "
    "handler reports the path and exits non-zero on every path (R4); the option is the pair --clobber/--no-clobber "
    "with default True (R5). The 'x'-mode branches are never executed by the test-suite. Decides the structural "
    "clauses; OS semantics of O_EXCL are trusted."
)

WRITE_METHODS = {"write_text", "write_bytes", "touch", "unlink", "rename", "replace", "rmdir", "mkdir", "symlink_to", "hardlink_to", "chmod"}
OS_MUTATORS = {
    "os.remove", "os.unlink", "os.rename", "os.replace", "os.truncate", "os.rmdir", "os.removedirs", "os.mkdir", "os.makedirs",
    "shutil.copy", "shutil.copy2", "shutil.copyfile", "shutil.move", "shutil.rmtree", "os.open", "os.symlink", "os.link",
    "logging.FileHandler", "logging.handlers.RotatingFileHandler", "tempfile.NamedTemporaryFile", "tempfile.mkstemp",
}
EXEMPT_MODULES = {
    "tola.fasta.index": "FASTA index cache written beside the *input* file, not an output of the run; its publication discipline is property C15",
}


def open_mode_expr(call: ast.Call):
    """(is_open_call, mode expression or None)."""
    f = call.func
    if isinstance(f, ast.Attribute) and f.attr == "open":
        d = dotted(f)
        if d in ("os.open",):
            return False, None
        if d in ("io.open", "codecs.open", "gzip.open", "bz2.open", "lzma.open"):
            m = call.args[1] if len(call.args) > 1 else kw(call, "mode")
            return True, m
        m = call.args[0] if call.args else kw(call, "mode")
        return True, m
    if isinstance(f, ast.Name) and f.id == "open":
        m = call.args[1] if len(call.args) > 1 else kw(call, "mode")
        return True, m
    return False, None


def may_write(mode_expr) -> bool:
    """Conservative: could this mode create or modify a file?"""
    if mode_expr is None:
        return False  # default 'r'
    c = try_fold(mode_expr, default=None)
    if isinstance(c, str):
        return any(ch in c for ch in "wax+")
    return True


def cli_func(repo: Repo) -> Func:
    eps = repo.entry_points()
    f = eps.get("pretext-to-asm")
    if f is None:
        raise AnalysisError("entry point 'pretext-to-asm' not found in pyproject.toml")
    return f


def clobber_option(cli: Func):
    """The click.option decorator declaring the clobber flag pair -> (decorator call, param name)."""
    for d in decorator_calls(cli):
        if dotted(d.func) == "click.option":
            decls = [a.value for a in d.args if isinstance(a, ast.Constant) and isinstance(a.value, str)]
            for s in decls:
                if "/" in s and "clobber" in s:
                    return d, decls
    raise AnalysisError("click option for --clobber/--no-clobber not found on the CLI function")


def run(repo: Repo, L: Ledger, tier: str):
    L.rule("R1", "file-creating/modifying sites reachable from pretext-to-asm are exactly clobber-governed opens, the log setup, or exempt cache writers")
    L.rule("R2", "folded mode: clobber=False -> contains 'x' and none of w,a,+ ; clobber=True -> truncating 'w'")
    L.rule("R3", "every actual argument for a clobber-carrying parameter is the caller's own carrier, up to the click option")
    L.rule("R4", "FileExistsError handler names the path and leaves with non-zero status on all paths")
    L.rule("R5", "option pair --clobber/--no-clobber bound to the carrier, default True")

    cli = cli_func(repo)
    reach = repo.reachable_from([cli])

    # ---- R5: the option
    opt, decls = clobber_option(cli)
    pair = next(s for s in decls if "/" in s)
    on, _, off = pair.partition("/")
    pname = on.lstrip("-").replace("-", "_")
    explicit = [s for s in decls if not s.startswith("-")]
    if explicit:
        pname = explicit[0]
    ok5 = on.strip() == "--clobber" and off.strip() == "--no-clobber" and pname in cli.params()
    L.check(ok5, "R5", f"{cli.short}:option", f"flag pair {pair!r} bound to parameter '{pname}'", f"flag pair {pair!r} is not --clobber/--no-clobber bound to a CLI parameter (on={on!r}, off={off!r}, param={pname!r})", cli.loc(opt))
    dflt = kw(opt, "default")
    dv = try_fold(dflt, default="?") if dflt is not None else False
    L.check(dv is True, "R5", f"{cli.short}:default", "default=True (clobber)", f"default of the clobber option is {dv!r}, documented default is --clobber (True)", cli.loc(opt))
    is_flag = kw(opt, "is_flag")
    L.check(kw(opt, "type") is None and kw(opt, "flag_value") is None, "R5", f"{cli.short}:flagtype", "boolean flag pair (no type/flag_value override)", "clobber option overrides type/flag_value", cli.loc(opt))

    # ---- carriers: functions with a parameter through which the flag flows (fixpoint from the cli param)
    carriers: dict[str, set[str]] = {cli.qualname: {pname}}
    edges = []  # (caller, call, callee, callee_param, actual expr)
    changed = True
    while changed:
        changed = False
        for f in reach.values():
            mine = carriers.get(f.qualname, set())
            if not mine:
                continue
            for call in repo.calls_in(f):
                targets, _, _ = repo.resolve_call(call, f)
                for t in targets:
                    if t.qualname not in reach:
                        continue
                    for p in t.params():
                        try:
                            actual = arg_for_param(call, t, p)
                        except AnalysisError:
                            continue
                        if actual is None:
                            continue
                        # the flag itself (or a boolean expression over it) is handed on; a *call* that takes the flag among its
                        # arguments consumes it (the edge into that callee is looked at on its own) and returns something else
                        hands_on = names_in(actual) & mine and not any(isinstance(x_, ast.Call) and names_in(x_) & mine for x_ in ast.walk(actual))
                        if hands_on:
                            if p not in carriers.setdefault(t.qualname, set()):
                                carriers[t.qualname].add(p)
                                changed = True
    # parameters *named like* the flag are carriers too (a constant passed in must be seen)
    for f in reach.values():
        if pname in f.params() and pname not in carriers.get(f.qualname, set()):
            carriers.setdefault(f.qualname, set()).add(pname)

    # ---- R3: flag propagation along every edge into a carrier parameter
    n_edges = 0
    for f in reach.values():
        for call in repo.calls_in(f):
            targets, _, _ = repo.resolve_call(call, f)
            for t in targets:
                for p in carriers.get(t.qualname, ()):
                    try:
                        actual = arg_for_param(call, t, p)
                    except AnalysisError as e:
                        raise AnalysisError(f"R3: {e}") from e
                    n_edges += 1
                    inst = f"{f.short} -> {t.short}({p}=…)"
                    if actual is None:
                        d = param_default(t, p)
                        L.fail("R3", inst, f"call does not pass '{p}'; the callee's default {norm(d) if d is not None else '<missing>'} is used instead of the user's flag", f.loc(call))
                        continue
                    mine = carriers.get(f.qualname, set())
                    ok = isinstance(actual, ast.Name) and actual.id in mine
                    negated = isinstance(actual, ast.UnaryOp) and isinstance(actual.op, ast.Not) and isinstance(actual.operand, ast.Name) and actual.operand.id in mine
                    other_param = isinstance(actual, ast.Name) and actual.id in f.params() and actual.id not in mine
                    if not ok and not isinstance(actual, ast.Constant) and not negated and not other_param:
                        # something computed is passed: a local, a boolean expression over the flag, the result of a call
                        raise AnalysisError(f"C16.R3 {inst}: the argument '{norm(actual)[:50]}' is neither the caller's flag parameter nor a constant: whether it still carries the user's choice is not decided")
                    L.check(ok, "R3", inst, f"actual argument is the caller's carrier '{norm(actual)}'", f"actual argument for '{p}' is '{norm(actual)}', not the caller's own flag parameter", f.loc(call))
    L.floor("R3", "call edges carrying the clobber flag", n_edges, 8)
    # the cli parameter itself must not be rebound
    for f in reach.values():
        for p in carriers.get(f.qualname, ()):
            for n in walk_shallow(f.node):
                tg = []
                if isinstance(n, ast.Assign):
                    tg = n.targets
                elif isinstance(n, ast.AugAssign | ast.AnnAssign | ast.NamedExpr):
                    tg = [n.target]
                for t in tg:
                    if is_name(t, p):
                        val = getattr(n, "value", None)
                        always_on = val is not None and try_fold(val, default=None) is True and any(n is s_ for s_ in f.node.body)
                        if always_on:
                            # unconditional, at the top level of the function: is anything that could stop the run before it?
                            before = f.node.body[: next(i for i, s_ in enumerate(f.node.body) if s_ is n)]
                            stops = any(isinstance(x, ast.Raise) or (isinstance(x, ast.Call) and ((dotted(x.func) or "") in ("sys.exit", "exit", "quit") or repo.resolve_call(x, f)[0])) for s_ in before for x in ast.walk(s_))
                            if not stops:
                                L.fail("R3", f"{f.short}:{p}", f"flag parameter '{p}' is unconditionally switched on ({norm(n)}): --no-clobber is ignored and existing files are overwritten", f.loc(n))
                                continue
                        raise AnalysisError(f"C16.R3 {f.short}: flag parameter '{p}' is recomputed ('{norm(n)[:70]}'): whether the new value still protects every existing output is not decided")

    # ---- R1 / R2 / R4: write-capable sites
    n_sites = n_governed = 0
    for f in sorted(reach.values(), key=lambda x: x.qualname):
        mine = carriers.get(f.qualname, set())
        for call in repo.calls_in(f):
            is_open, mode = open_mode_expr(call)
            d = dotted(call.func) or ""
            site = None
            if is_open and may_write(mode):
                site = "open"
            elif isinstance(call.func, ast.Attribute) and call.func.attr in WRITE_METHODS and d not in ("os.environ.setdefault",) and not _is_str_method(call):
                site = call.func.attr
            elif d in OS_MUTATORS:
                site = d
            elif d == "logging.basicConfig":
                site = "logging.basicConfig"
            if site is None:
                continue
            n_sites += 1
            inst = f"{f.short}:{site}@{norm(call.func)}"
            if f.module.name in EXEMPT_MODULES:
                L.ok("R1", inst, "exempt: " + EXEMPT_MODULES[f.module.name], f.loc(call))
                continue
            if site == "open" and _wraps_descriptor(f, call):
                L.ok("R1", inst, "wraps a descriptor opened by os.open (that call carries the create/truncate decision)", f.loc(call))
                continue
            if site == "open":
                ctl = _control_flag_facts(call, mine)
                governed = bool(names_in(mode) & (mine | _locals_depending_on(f, mine))) or bool(ctl)
                if not governed:
                    # what is opened?  a scratch name derived from the output path (to be moved into place afterwards) is a
                    # publication protocol these rules do not model
                    tgt_e = call.func.value if isinstance(call.func, ast.Attribute) else (call.args[0] if call.args else None)
                    from ..util import local_defs as _ld

                    exprs_, seen_ = [tgt_e] if tgt_e is not None else [], set()
                    k_ = 0
                    while k_ < len(exprs_) and k_ < 30:
                        e_ = exprs_[k_]
                        k_ += 1
                        for nm_ in names_in(e_):
                            if nm_ not in seen_:
                                seen_.add(nm_)
                                exprs_.extend(_ld(f, nm_))
                        if isinstance(e_, ast.Attribute) and is_name(e_.value, "self") and f.cls is not None:
                            for m_ in f.cls.methods.values():
                                for st_ in walk_shallow(m_.node):
                                    if isinstance(st_, ast.Assign) and any(norm(t_) == norm(e_) for t_ in st_.targets):
                                        exprs_.append(st_.value)
                    txt_ = " ".join(norm(e_) for e_ in exprs_)
                    # a sibling name (with_suffix / with_name) is a scratch file only when the function also moves something into
                    # place; otherwise it is simply another output (the .agp beside the .fa) and the mode decides
                    moves_ = [c_ for c_ in repo.calls_in(f) if (isinstance(c_.func, ast.Attribute) and c_.func.attr in ("replace", "rename", "link_to", "hardlink_to") and not isinstance(c_.func.value, ast.Constant) and len(c_.args) == 1) or dotted(c_.func) in ("os.replace", "os.rename", "os.link", "shutil.move")]
                    if any(tok in txt_ for tok in ("tmp_file_for", "mkstemp", "NamedTemporaryFile", "getpid", ".tmp")) or (moves_ and any(tok in txt_ for tok in ("with_name", "with_suffix"))):
                        raise AnalysisError(f"C16.R1 {inst}: a scratch file derived from the output path is opened with mode '{norm(mode)}' (to be moved into place later): publication protocols are not modelled")
                    L.fail("R1", inst, f"file opened for writing with mode '{norm(mode)}' that does not depend on the clobber flag", f.loc(call))
                    continue
                n_governed += 1
                L.ok("R1", inst, f"clobber-governed open, mode '{norm(mode)}'", f.loc(call))
                _check_mode(repo, L, f, call, mode, mine, reach, ctl)
                _check_handler(L, f, call)
            elif site == "logging.basicConfig":
                n_governed += _check_logging(L, f, call, mine)
            elif site == "os.open":
                _check_os_open(L, f, call, mine)
                n_governed += 1
            else:
                ctl_ = _control_flag_facts(call, mine)
                on_when_clobber = any(v_ is True for v_ in ctl_.values())
                tgt_ = call.func.value if isinstance(call.func, ast.Attribute) and site in WRITE_METHODS else (call.args[0] if call.args else None)
                if site in ("write_text", "write_bytes") and mine and not on_when_clobber:
                    L.fail("R1", inst, f"'{norm(call)[:60]}' creates or overwrites the file whatever the clobber flag says, in a function that receives the flag ({sorted(mine)}): with --no-clobber a pre-existing file is replaced", f.loc(call))
                    continue
                if site in ("unlink", "os.unlink", "os.remove", "os.truncate") and mine and not on_when_clobber and tgt_ is not None:
                    opened = [norm(c2.func.value) if isinstance(c2.func, ast.Attribute) else (norm(c2.args[0]) if c2.args else "") for c2 in repo.calls_in(f) if open_mode_expr(c2)[0]]
                    if norm(tgt_) in opened:
                        L.fail("R1", inst, f"'{norm(call)[:60]}' removes / empties the very path this function then opens, whatever the clobber flag says: with --no-clobber a pre-existing file is destroyed before the exclusive create can refuse it", f.loc(call))
                        continue
                raise AnalysisError(f"C16.R1 {inst}: file-system mutator '{site}' is reachable from the CLI outside the clobber-governed open: whether it can touch a pre-existing output is not decided")
    L.floor("R1", "file-writing sites reachable from pretext-to-asm", n_sites, 4)
    L.floor("R1", "clobber-governed sites", n_governed, 2)
    L.extra["reachable_functions"] = len(reach)
    L.extra["flag_edges"] = n_edges
    L.assume("O_EXCL semantics of open(..., 'x') and of logging.FileHandler(mode='x') are those of CPython/POSIX")


def _wraps_descriptor(f, call) -> bool:
    """open(fd, mode) / os.fdopen(fd, mode) with fd the result of os.open in the same function"""
    from ..util import local_defs

    if (dotted(call.func) or "") not in ("open", "io.open", "os.fdopen") or not call.args:
        return False
    a0 = call.args[0]
    if isinstance(a0, ast.Call) and dotted(a0.func) == "os.open":
        return True
    if isinstance(a0, ast.Name):
        ds = local_defs(f, a0.id)
        return bool(ds) and all(isinstance(d_, ast.Call) and dotted(d_.func) == "os.open" for d_ in ds)
    return False


def _is_str_method(call):
    # str.replace(...) shares a name with Path.replace; a str/regex receiver never touches the file system.
    # Path.replace takes exactly one positional argument, str.replace at least two.
    if call.func.attr == "replace":
        return len(call.args) >= 2
    if call.func.attr == "rename":
        return False
    return False


def _deep_names(f: Func, expr, depth=4) -> set:
    from ..util import local_defs

    out = set(names_in(expr))
    frontier = set(out)
    while frontier and depth > 0:
        nxt = set()
        for nme in frontier:
            if nme in f.params():
                continue
            for d in local_defs(f, nme):
                nxt |= names_in(d) - out
        out |= nxt
        frontier = nxt
        depth -= 1
    return out


def _locals_depending_on(f: Func, carriers: set) -> set:
    out = set()
    for n in walk_shallow(f.node):
        if isinstance(n, ast.Assign) and names_in(n.value) & carriers:
            for t in n.targets:
                if isinstance(t, ast.Name):
                    out.add(t.id)
    return out


def _param_values(repo: Repo, f: Func, p: str, reach, seen=()) -> set:
    """Join of a parameter's constant values over all call sites (+ default)."""
    vals = set()
    d = param_default(f, p)
    sites = [(c, call) for c, call in repo.callers_of(f) if c.qualname in reach]
    used_default = False
    for caller, call in sites:
        actual = arg_for_param(call, f, p)
        if actual is None:
            used_default = True
            continue
        env = {}
        for nme in names_in(actual):
            if nme in caller.params() and (caller.qualname, nme) not in seen:
                try:
                    env[nme] = _param_values(repo, caller, nme, reach, (*seen, (f.qualname, p)))
                except AnalysisError:
                    pass
        vals |= strset(actual, env, caller)
    if used_default or not sites:
        if d is None:
            raise AnalysisError(f"parameter {p} of {f.short} has no default and no constant call sites")
        vals |= strset(d, {})
    return vals


def _control_flag_facts(node, carriers) -> dict:
    """{flag: value} known at `node` from the enclosing if/else tests (control dependence on the clobber flag)"""
    from ..flow import cond_facts

    out = {}
    cur = node
    for a in _ancestors(node):
        if isinstance(a, ast.If):
            side = True if any(cur is s_ or contains(s_, cur) for s_ in a.body) else False if any(cur is s_ or contains(s_, cur) for s_ in a.orelse) else None
            if side is not None:
                for t, v in cond_facts(a.test, side):
                    if isinstance(t, ast.Name) and t.id in carriers:
                        out.setdefault(t.id, v)
        # guard clauses earlier in the same block: `if <test>: ...; sys.exit()/raise/return` -> not <test> holds afterwards
        for fld in ("body", "orelse", "finalbody", "handlers"):
            blk = getattr(a, fld, None)
            if isinstance(blk, list) and any(cur is s_ for s_ in blk):
                for s_ in blk:
                    if s_ is cur:
                        break
                    if isinstance(s_, ast.If) and not s_.orelse and s_.body and _terminates(s_.body[-1]):
                        for t, v in cond_facts(s_.test, False):
                            if isinstance(t, ast.Name) and t.id in carriers:
                                out.setdefault(t.id, v)
        if isinstance(a, ast.ExceptHandler):
            pass
        if isinstance(a, ast.FunctionDef):
            break
        cur = a
    return out


def _terminates(st) -> bool:
    if isinstance(st, ast.Raise | ast.Return | ast.Continue | ast.Break):
        return True
    return isinstance(st, ast.Expr) and isinstance(st.value, ast.Call) and (dotted(st.value.func) or "") in ("sys.exit", "exit", "quit", "os._exit")


_O_FLAGS = {"O_RDONLY": 0, "O_WRONLY": 1, "O_RDWR": 2, "O_CREAT": 64, "O_EXCL": 128, "O_NOCTTY": 256, "O_TRUNC": 512, "O_APPEND": 1024, "O_NONBLOCK": 2048, "O_SYNC": 1052672, "O_CLOEXEC": 524288, "O_NOFOLLOW": 131072, "O_BINARY": 0}


def _check_os_open(L, f, call, carriers):
    """os.open(path, flags): decided from the flag bits for each value of the clobber flag that can reach the call."""
    from ..finite import fold_env
    from ..fold import NotConstant
    from ..util import local_defs

    inst = f"{f.short}:os.open@{getattr(call, 'lineno', 0)}"
    if len(call.args) < 2:
        raise AnalysisError(f"{inst}: os.open without flags")
    flags = call.args[1]
    # inline single-definition locals
    for _ in range(3):
        class _Sub(ast.NodeTransformer):
            def visit_Name(self, n):
                if isinstance(n.ctx, ast.Load) and n.id not in carriers and n.id not in f.params():
                    ds = local_defs(f, n.id)
                    if len(ds) == 1:
                        import copy

                        return copy.deepcopy(ds[0])
                return n

        import copy

        flags = _Sub().visit(copy.deepcopy(flags))
    ctl = _control_flag_facts(call, carriers)
    flag_names = sorted(carriers) or [None]
    truncates_later = any(isinstance(c, ast.Call) and ((dotted(c.func) or "") in ("os.ftruncate", "os.truncate") or (isinstance(c.func, ast.Attribute) and c.func.attr == "truncate")) for c in walk_shallow(f.node))
    for flag in flag_names:
        for val in (False, True):
            if flag is not None and flag in ctl and ctl[flag] != val:
                continue
            env = {f"os.{k}": v for k, v in _O_FLAGS.items()}
            env.update(_O_FLAGS)
            if flag is not None:
                env[flag] = val
            try:
                F = fold_env(flags, env)
            except NotConstant:
                raise AnalysisError(f"{inst}: open flags '{norm(flags)[:60]}' do not fold for {flag}={val}") from None
            if not isinstance(F, int) or isinstance(F, bool):
                raise AnalysisError(f"{inst}: open flags '{norm(flags)[:60]}' do not fold to an integer")
            if F & 3 == 0:
                continue  # read-only
            excl = (F & 128) and (F & 64)
            who = f"{flag}={val}" if flag is not None else "any flag value"
            if flag is None:
                if not excl:
                    raise AnalysisError(f"{inst}: write-capable os.open in a function that does not receive the clobber flag: not decided")
                continue
            if val is False:
                L.check(bool(excl), "R2", f"{inst}[{who}]", "O_CREAT|O_EXCL: an existing file is never opened", f"with {who} the file is opened by os.open with flags {norm(call.args[1])[:60]} = {F:#o}, which lack O_CREAT|O_EXCL: an existing output is opened for writing although --no-clobber was given", f.loc(call), witness={"flags": F})
            else:
                if excl:
                    L.ok("R2", f"{inst}[{who}]", "exclusive create (an existing file is handled by the FileExistsError branch)", f.loc(call))
                    continue
                if F & 512:
                    L.ok("R2", f"{inst}[{who}]", "O_TRUNC: an existing file is emptied before it is rewritten", f.loc(call))
                elif truncates_later:
                    raise AnalysisError(f"{inst}: existing file opened without O_TRUNC and truncated by a later call: not decided")
                else:
                    L.fail(
                        "R2", f"{inst}[{who}]",
                        f"with {who} an existing file is opened by os.open with flags {norm(call.args[1])[:60]} = {F:#o}, without O_TRUNC, and nothing truncates it: when the new content is shorter the tail of the old file survives, so the output is not completely rewritten",
                        f.loc(call), witness={"existing file": "10 lines", "new content": "3 lines", "result": "3 new lines followed by the old tail"},
                    )


def _check_mode(repo, L, f, call, mode, carriers, reach, ctl=None):
    env_base = {}
    deep = _deep_names(f, mode)
    for nme in deep:
        if nme in carriers:
            continue
        if nme in f.params():
            env_base[nme] = _param_values(repo, f, nme, reach)
    inst = f"{f.short}:mode"
    ctl = ctl or {}
    for flag in (carriers & deep) | set(ctl) or carriers:
        for val in (False, True):
            if flag in ctl and ctl[flag] != val:
                continue  # this site is not reached with that flag value (sibling branch handles it)
            env = dict(env_base)
            env[flag] = {val}
            modes = strset(mode, env, f)
            bad = []
            for m in sorted(modes):
                if not isinstance(m, str):
                    bad.append(m)
                elif val is False and not ("x" in m and not any(c in m for c in "wa+")):
                    bad.append(m)
                elif val is True and not ("w" in m and not any(c in m for c in "xa+")):
                    bad.append(m)
            what = "exclusive-create" if val is False else "truncating write"
            L.check(not bad, "R2", f"{inst}[{flag}={val}]", f"modes {sorted(modes)} are all {what}", f"with {flag}={val} the open mode can be {bad} (expected {what})", f.loc(call), witness={"flag": val, "modes": sorted(map(str, modes))})


def _check_handler(L, f, call):
    """R4: the open is inside try with a FileExistsError(-compatible) handler that names
    the path and exits non-zero on every path."""
    tr = None
    for a in _ancestors(call):
        if isinstance(a, ast.Try) and any(contains(s, call) for s in a.body):
            tr = a
            break
        if isinstance(a, ast.FunctionDef):
            break
    inst = f"{f.short}:handler"
    if tr is None:
        # an uncaught FileExistsError is still a loud, non-zero failure naming the file (traceback); accepted
        L.ok("R4", inst, "no handler: FileExistsError propagates (non-zero exit, message carries the path)", f.loc(call))
        return
    handlers = [h for h in tr.handlers if h.type is None or (dotted(h.type) or norm(h.type)) in ("FileExistsError", "OSError", "Exception", "BaseException") or (isinstance(h.type, ast.Tuple) and any(dotted(e) in ("FileExistsError", "OSError", "Exception") for e in h.type.elts))]
    if not handlers:
        L.ok("R4", inst, "no matching handler: FileExistsError propagates", f.loc(call))
        return
    h = handlers[0]
    path_names = names_in(call.func.value) if isinstance(call.func, ast.Attribute) else (names_in(call.args[0]) if call.args else set())
    from ..flow import PathEnum

    pe = PathEnum((0, 1), exc_edges=False)
    hp = pe.block(h.body)
    all_exit = True
    names_path = False
    for p in hp:
        exits = False
        for e in p.events:
            for n in [e.node, *walk_shallow(e.node)] if e.kind in ("stmt", "raise", "return") else []:
                if isinstance(n, ast.Call):
                    d = dotted(n.func) or ""
                    if d in ("sys.exit", "exit", "quit", "os._exit") or d.endswith(".exit") and d.startswith(("sys", "ctx")):
                        arg = n.args[0] if n.args else None
                        v = try_fold(arg, default="?") if arg is not None else 0
                        if v == "?" or (v not in (0, None, "", False)):
                            exits = True
                            if arg is not None and names_in(arg) & path_names:
                                names_path = True
                    if d.startswith(("logging.", "click.echo", "click.secho", "print", "sys.stderr.write")):
                        if any(names_in(a) & path_names for a in [*n.args, *[k.value for k in n.keywords]]):
                            names_path = True
            if e.kind == "raise":
                exc = e.node.exc
                if exc is None:
                    exits = True
                    names_path = True  # re-raises the FileExistsError which carries the filename
                else:
                    d = dotted(exc.func) if isinstance(exc, ast.Call) else dotted(exc)
                    if d in ("SystemExit", "click.ClickException", "click.UsageError", "click.Abort", "click.exceptions.Exit"):
                        a0 = exc.args[0] if isinstance(exc, ast.Call) and exc.args else None
                        v = try_fold(a0, default="?") if a0 is not None else None
                        if d == "SystemExit" and v in (0, None, "", False) and a0 is not None and v != "?":
                            pass
                        elif d == "SystemExit" and a0 is None:
                            pass
                        else:
                            exits = True
                            if a0 is not None and names_in(a0) & path_names:
                                names_path = True
                    else:
                        exits = True  # some other exception: loud failure
                        if isinstance(exc, ast.Call) and any(names_in(a) & path_names for a in exc.args):
                            names_path = True
        if not exits:
            all_exit = False
    L.check(all_exit, "R4", inst, "handler leaves with non-zero exit on every path", f"a path through the FileExistsError handler continues without a non-zero exit: {norm(h)[:160]}", f.loc(h))
    L.check(names_path, "R4", inst + ":message", "handler message interpolates the colliding path", "FileExistsError handler emits no message naming the colliding file", f.loc(h))


def _ancestors(n):
    n = getattr(n, "_parent", None)
    while n is not None:
        yield n
        n = getattr(n, "_parent", None)


def _check_logging(L, f, call, carriers) -> int:
    """logging.basicConfig(**conf): wherever a filename is configured, filemode must be
    configured on the same path and fold to 'x' / 'w' under the flag."""
    inst = f"{f.short}:logging.basicConfig"
    # gather dict-key stores on the object spread into the call
    spread = [k.value for k in call.keywords if k.arg is None]
    direct = {k.arg: k.value for k in call.keywords if k.arg}
    governed = 0
    if not spread:
        if "filename" in direct or "handlers" in direct:
            fm = direct.get("filemode")
            if fm is None:
                L.fail("R2", inst, "log file configured without filemode (default 'a' appends to an existing file)", f.loc(call))
            else:
                governed = 1
                _fold_filemode(L, f, call, fm, carriers, inst)
        else:
            L.ok("R1", inst, "no log file configured at this site", f.loc(call))
        return governed
    name = spread[0].id if isinstance(spread[0], ast.Name) else None
    if name is None or len(spread) != 1:
        raise AnalysisError(f"logging.basicConfig(**{norm(spread[0])}) not a simple name")
    found_file = False
    for p in paths(f, (0, 1), exc_edges=True):
        keys = {}
        reached = False
        for e in p.events:
            if e.kind in ("stmt",):
                n = e.node
                if isinstance(n, ast.Assign):
                    for t in n.targets:
                        if is_name(t, name) and isinstance(n.value, ast.Dict):
                            for k, v in zip(n.value.keys, n.value.values):
                                if isinstance(k, ast.Constant):
                                    keys[k.value] = v
                        if isinstance(t, ast.Subscript) and is_name(t.value, name) and isinstance(t.slice, ast.Constant):
                            keys[t.slice.value] = n.value
                if contains(n, call):
                    reached = True
                    break
            if e.kind == "exc" and contains(e.val if isinstance(e.val, ast.AST) else e.node, call):
                reached = True
                break
        if not reached:
            continue
        if "filename" in keys or "handlers" in keys:
            found_file = True
            if "handlers" in keys:
                L.fail("R1", inst, "log handlers configured explicitly; file mode not governed by the flag", f.loc(call))
                continue
            fm = keys.get("filemode")
            if fm is None:
                L.fail("R2", inst, "a path configures a log filename without filemode (default 'a' modifies an existing file)", f.loc(call), path=p.describe())
            else:
                governed = 1
                from ..flow import cond_facts

                pf = {}
                for e in p.events:
                    if e.kind == "cond":
                        for t, v in cond_facts(e.node, e.val):
                            if isinstance(t, ast.Name) and t.id in carriers:
                                pf[t.id] = v
                _fold_filemode(L, f, call, fm, carriers, inst, pf)
    L.check(True, "R1", inst, "log setup: file mode governed by the flag" if found_file else "log setup without file", "", f.loc(call))
    _check_handler_logging(L, f, call)
    return governed


def _fold_filemode(L, f, call, fm, carriers, inst, path_facts=None):
    path_facts = path_facts or {}
    used = (names_in(fm) & carriers) | set(path_facts)
    if not used:
        v = try_fold(fm, default=None)
        L.fail("R2", inst + ":filemode", f"log filemode '{norm(fm)}' does not depend on the clobber flag", f.loc(fm))
        return
    for flag in used:
        for val in (False, True):
            if flag in path_facts and path_facts[flag] != val:
                continue  # this path is not taken with that flag value
            modes = strset(fm, {flag: {val}})
            if val is False:
                bad = [m for m in modes if not (isinstance(m, str) and "x" in m and not any(c in m for c in "wa+"))]
            else:
                bad = [m for m in modes if not (isinstance(m, str) and "w" in m and not any(c in m for c in "xa+"))]
            L.check(not bad, "R2", f"{inst}:filemode[{flag}={val}]", f"log filemode {sorted(modes)}", f"with {flag}={val} the log file is opened with mode {bad}", f.loc(fm), witness={"flag": val, "modes": sorted(map(str, modes))})


def _check_handler_logging(L, f, call):
    _check_handler(L, f, _FakeOpen(call, f))


class _FakeOpen(ast.Call):
    """Adapter so the logging call can reuse the handler rule (path names = the logfile local)."""

    def __init__(self, call, f):
        super().__init__()
        self.func = ast.Attribute(value=ast.Name(id="logfile", ctx=ast.Load()), attr="open", ctx=ast.Load())
        names = set()
        for n in walk_shallow(f.node):
            if isinstance(n, ast.Assign):
                for t in n.targets:
                    if isinstance(t, ast.Subscript) and isinstance(t.slice, ast.Constant) and t.slice.value == "filename":
                        names |= names_in(n.value)
        if names:
            self.func.value = ast.Tuple(elts=[ast.Name(id=x, ctx=ast.Load()) for x in sorted(names)], ctx=ast.Load())
        self.args = []
        self.keywords = []
        self._parent = call._parent
        self.lineno = call.lineno
        self.col_offset = call.col_offset
        self._real = call


def contains(outer, inner):  # noqa: F811 - tolerate the adapter above
    inner = getattr(inner, "_real", inner)
    if outer is inner:
        return True
    n = getattr(inner, "_parent", None)
    while n is not None:
        if n is outer:
            return True
        n = getattr(n, "_parent", None)
    return False
