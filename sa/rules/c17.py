"""C17 — outputs are a deterministic function of the input files (absence of nondeterminism sources).

 R1 no hash-order reaches an output: every order-sensitive use of a set-typed value is wrapped in sorted()
    or is a loop whose stores are constants / protected by a conflict-raises guard
 R2 no forbidden source (random, time, uuid, pid, id(), hash(), environment reads, unsorted directory
    listings, threads) is reachable from the CLIs, except allow-listed sites with a reason
 R3 no process-global mutable state: module/class-level mutables never mutated, no mutable defaults,
    memoised functions are pure and their results never mutated, logging reconfigured with force=True
 R4 cwd: absolute()/resolve()/cwd only on the FASTA path whose click option has resolve_path=True
 R5 cold vs warm index cache equality is the codec agreement of C05 / C04.R6 (referenced, not re-decided)
"""

from __future__ import annotations

import ast

from ..fold import try_fold
from ..model import AnalysisError, Class, Func, Repo, dotted, is_name, norm, walk_shallow
from ..report import Ledger
from ..util import arg_for_param, decorator_calls, kw, names_in

PROP = "C17"
LEVEL = "other"
EXPLANATION = (
    "Determinism is decided as the absence of nondeterminism sources: set-typed values are inferred interprocedurally "
    "(constructors, literals, set-returning functions, annotations, arguments at call sites, attributes assigned from sets) "
    "and every order-sensitive use must be sorted() or an order-insensitive loop by a checkable pattern; calls reachable from "
    "the three CLIs are scanned for clock, randomness, pid, id()/hash(), environment reads, directory listings and threads; "
    "module/class-level mutable objects, mutable defaults and memoised functions are checked for mutation; cwd-dependence "
    "is traced to the one resolve_path=True option. Equality across input formats and buffer sizes is a runtime fact."
)

ORDER_SENSITIVE_CALLS = {"list", "tuple", "enumerate", "zip", "iter", "next", "reversed", "map", "filter"}
FORBIDDEN_PREFIX = ("random.", "time.", "datetime.", "uuid.", "secrets.")
CONCURRENCY_PREFIX = ("threading.", "multiprocessing.", "concurrent.", "asyncio.")
LISTING_FUNCS = {"os.listdir", "os.scandir", "os.walk", "glob.glob", "glob.iglob"}
FORBIDDEN_EXACT = {"os.urandom", "os.getpid", "os.getppid", "id", "hash", "os.getenv", "os.environ.get", "os.getcwd", "os.times", "tempfile.mkdtemp", "tempfile.mkstemp", "object.__hash__"}


def set_typed(repo: Repo):
    """-> (set-returning functions, per-function set-typed local names, set-typed attribute names)"""
    ret_sets: set[str] = set()
    attr_sets: set[str] = set()
    local_sets: dict[str, set[str]] = {f.qualname: set() for f in repo.functions.values()}

    def is_set_expr(e, f: Func) -> bool:
        if isinstance(e, ast.Set | ast.SetComp):
            return True
        if isinstance(e, ast.Call):
            d = dotted(e.func)
            if d in ("set", "frozenset"):
                return True
            if isinstance(e.func, ast.Attribute) and e.func.attr in ("union", "intersection", "difference", "symmetric_difference", "copy") and is_set_expr(e.func.value, f):
                return True
            targets, _, _ = repo.resolve_call(e, f)
            if targets and all(t.qualname in ret_sets for t in targets):
                return True
            if isinstance(e.func, ast.Attribute) and e.func.attr in ("keys",):
                return False
            return False
        if isinstance(e, ast.Name):
            return e.id in local_sets[f.qualname]
        if isinstance(e, ast.Attribute):
            return e.attr in attr_sets
        if isinstance(e, ast.BinOp) and isinstance(e.op, ast.BitOr | ast.BitAnd | ast.Sub | ast.BitXor):
            return is_set_expr(e.left, f) or is_set_expr(e.right, f)
        if isinstance(e, ast.BoolOp):
            return any(is_set_expr(v, f) for v in e.values)
        if isinstance(e, ast.IfExp):
            return is_set_expr(e.body, f) or is_set_expr(e.orelse, f)
        if isinstance(e, ast.NamedExpr):
            return is_set_expr(e.value, f)
        return False

    changed = True
    rounds = 0
    while changed and rounds < 10:
        changed = False
        rounds += 1
        for f in repo.functions.values():
            ls = local_sets[f.qualname]
            # annotations
            a = f.node.args
            for p in (*a.posonlyargs, *a.args, *a.kwonlyargs):
                if p.annotation is not None and norm(p.annotation).startswith(("set[", "set", "frozenset")) and p.arg not in ls:
                    ls.add(p.arg)
                    changed = True
            for n in walk_shallow(f.node):
                tgt = val = None
                if isinstance(n, ast.Assign) and len(n.targets) == 1:
                    tgt, val = n.targets[0], n.value
                elif isinstance(n, ast.AnnAssign) and n.value is not None:
                    tgt, val = n.target, n.value
                elif isinstance(n, ast.NamedExpr):
                    tgt, val = n.target, n.value
                elif isinstance(n, ast.AugAssign) and isinstance(n.op, ast.BitOr):
                    tgt, val = n.target, n.value
                if tgt is not None and is_set_expr(val, f):
                    if isinstance(tgt, ast.Name) and tgt.id not in ls:
                        ls.add(tgt.id)
                        changed = True
                    if isinstance(tgt, ast.Attribute) and tgt.attr not in attr_sets:
                        attr_sets.add(tgt.attr)
                        changed = True
                if isinstance(n, ast.Return) and n.value is not None and is_set_expr(n.value, f):
                    rets = [r for r in walk_shallow(f.node) if isinstance(r, ast.Return) and r.value is not None]
                    if all(is_set_expr(r.value, f) for r in rets) and f.qualname not in ret_sets:
                        ret_sets.add(f.qualname)
                        changed = True
                # arguments at call sites
                if isinstance(n, ast.Call):
                    targets, _, _ = repo.resolve_call(n, f)
                    for t in targets:
                        for p in t.params():
                            try:
                                actual = arg_for_param(n, t, p)
                            except AnalysisError:
                                continue
                            if actual is not None and is_set_expr(actual, f) and p not in local_sets[t.qualname]:
                                local_sets[t.qualname].add(p)
                                changed = True
                        # constructor keyword -> attribute of the same name (Scaffold(original_tags=...))
                    for k in n.keywords:
                        if k.arg and is_set_expr(k.value, f) and isinstance(repo.resolve_callee_static(n, f), Class):
                            if k.arg not in attr_sets:
                                attr_sets.add(k.arg)
                                changed = True
    return ret_sets, local_sets, attr_sets, is_set_expr


def run(repo: Repo, L: Ledger, tier: str):
    L.rule("R6", "local caches are keyed on everything the cached value depends on")
    from .shared import cache_key_complete

    n_cache = sum(cache_key_complete(L, "R6", f_) for f_ in repo.functions.values())
    L.ok("R6", "local caches", f"{n_cache} loop-local dict cache(s) examined", "src/tola")
    L.rule("R1", "order-sensitive uses of set-typed values are sorted or order-insensitive by pattern")
    L.rule("R2", "no clock / randomness / pid / id / hash / env read / dir listing / thread reachable from the CLIs")
    L.rule("R3", "no mutated global state; memoised functions pure; logging force=True")
    L.rule("R4", "cwd only through the resolve_path=True FASTA option")
    L.rule("R5", "cold/warm cache equality = C05 + C04.R6")

    eps = repo.entry_points()
    if len(eps) < 2:
        raise AnalysisError("CLI entry points not found in pyproject.toml")
    reach = repo.reachable_from(list(eps.values()))
    L.extra["reachable_functions"] = len(reach)

    # ------------------------------------------------------------------ R1
    ret_sets, local_sets, attr_sets, is_set_expr = set_typed(repo)
    L.extra["set_returning_functions"] = sorted(q.split(".")[-2] + "." + q.split(".")[-1] for q in ret_sets)
    L.extra["set_typed_attributes"] = sorted(attr_sets)
    n_sites = n_sorted = 0
    for f in sorted(repo.functions.values(), key=lambda x: x.qualname):
        for n in walk_shallow(f.node):
            site = None
            if isinstance(n, ast.For) and is_set_expr(_strip_or_empty(n.iter), f):
                site = ("for", n.iter, n)
            elif isinstance(n, ast.comprehension) and is_set_expr(_strip_or_empty(n.iter), f):
                par = getattr(n, "_parent", None)
                if isinstance(par, ast.SetComp):
                    continue  # set -> set: order free
                # a generator consumed by an order-free reducer (any/all/sum/min/max/set/sorted/len)
                gp = getattr(par, "_parent", None)
                if isinstance(gp, ast.Call) and dotted(gp.func) in ("any", "all", "sum", "min", "max", "set", "frozenset", "sorted", "len"):
                    continue
                site = ("comprehension", n.iter, par)
            elif isinstance(n, ast.Call):
                d = dotted(n.func)
                if d == "sorted" and n.args and is_set_expr(_strip_or_empty(n.args[0]), f):
                    n_sorted += 1
                    continue
                if d in ORDER_SENSITIVE_CALLS and any(is_set_expr(_strip_or_empty(a), f) for a in n.args):
                    site = (d, n.args[0], n)
                elif isinstance(n.func, ast.Attribute) and n.func.attr == "join" and n.args and is_set_expr(n.args[0], f):
                    site = ("join", n.args[0], n)
                elif isinstance(n.func, ast.Attribute) and n.func.attr == "pop" and not n.args and is_set_expr(n.func.value, f):
                    site = ("set.pop", n.func.value, n)
            elif isinstance(n, ast.Starred) and is_set_expr(n.value, f):
                site = ("*unpack", n.value, n)
            if site is None:
                continue
            n_sites += 1
            kind, expr, node = site
            inst = f"{f.short}:{kind} {norm(expr)[:40]}"
            if kind == "for":
                ok, why = _order_insensitive_loop(node)
                L.check(ok, "R1", inst, "loop over a set: every surviving store is constant or conflict-guarded", f"iteration order of the set '{norm(expr)}' can change the result: {why}", f.loc(node), witness={"PYTHONHASHSEED": "two values ordering the tags differently"})
            else:
                L.fail("R1", inst, f"set-typed value '{norm(expr)}' is consumed in hash order by {kind} without sorted()", f.loc(node))
    L.floor("R1", "set-order-sensitive or sorted sites examined", n_sites + n_sorted, 3)
    L.extra["order_sensitive_sites"] = n_sites
    L.extra["sorted_sites"] = n_sorted
    if n_sites == 0:
        L.ok("R1", "all", "no unsorted order-sensitive use of a set", "")

    # ------------------------------------------------------------------ R2
    # value sources (pid, clock, random, environment ...): followed by the taint tracker -- a finding only when the value
    # reaches something that is written; directory listings: only their *order* is arbitrary -- sorted, or consumed by an
    # order-insensitive loop; concurrency primitives: not modelled (no verdict)
    from ..taint import track

    n_calls = 0

    def classify(full):
        if full.startswith(CONCURRENCY_PREFIX):
            return "concurrency"
        if full in LISTING_FUNCS:
            return "listing"
        if full.startswith(FORBIDDEN_PREFIX) or full in FORBIDDEN_EXACT or (full.startswith("os.environ") and not full.endswith(("setdefault", "__setitem__"))):
            return "value"
        return None

    def judge_value(fn, mod, c, full, where):
        inst = f"{where}:{full}"
        flow = track(repo, fn, c, module=mod)
        if flow.sinks:
            L.fail("R2", inst, f"the value of nondeterminism source '{full}' reaches an output: {flow.sinks[0][0]} (at {flow.sinks[0][1]})", fn.loc(c) if fn else f"{mod.relpath}:{c.lineno}")
        elif flow.escapes:
            raise AnalysisError(f"C17.R2 {inst}: the value of '{full}' goes where the taint tracker does not follow ({flow.escapes[0][0]} at {flow.escapes[0][1]}): no verdict")
        else:
            L.ok("R2", inst, f"value stays within scratch-file names / diagnostics ({flow.places} places followed; neutral uses: {sorted(set(flow.neutral))[:4]})", fn.loc(c) if fn else f"{mod.relpath}:{c.lineno}")

    def judge_listing(fn, c, full, where):
        inst = f"{where}:{full}"
        par = getattr(c, "_parent", None)
        if isinstance(par, ast.Call) and dotted(par.func) in ("sorted", "set", "frozenset", "len", "any", "all"):
            L.ok("R2", inst, f"listing consumed by {dotted(par.func)}()", fn.loc(c))
            return
        loop = None
        if isinstance(par, ast.For) and par.iter is c:
            loop = par
        elif isinstance(par, ast.withitem) and isinstance(par.optional_vars, ast.Name):
            w = getattr(par, "_parent", None)
            loops = [n for n in walk_shallow(w) if isinstance(n, ast.For) and is_name(n.iter, par.optional_vars.id)] if w is not None else []
            others = [n for n in walk_shallow(w) if isinstance(n, ast.Name) and n.id == par.optional_vars.id and isinstance(n.ctx, ast.Load)] if w is not None else []
            if len(loops) == 1 and len(others) == 1:
                loop = loops[0]
        if loop is None:
            raise AnalysisError(f"C17.R2 {inst}: how the directory listing is consumed is not understood (neither sorted nor a plain loop)")
        ok, why = _order_insensitive_loop(loop, keyed_ok=True)
        if ok:
            L.ok("R2", inst, "listing consumed by an order-insensitive loop", fn.loc(c))
        elif "iteration order" in why or "yields" in why or "breaks on the first" in why:
            L.fail("R2", inst, f"directory listing '{full}' is consumed in the order the file system returns it: {why}", fn.loc(c))
        else:
            raise AnalysisError(f"C17.R2 {inst}: order sensitivity of the loop over the listing not decided ({why})")

    for f in sorted(reach.values(), key=lambda x: x.qualname):
        for c in repo.calls_in(f):
            d = dotted(c.func)
            if not d:
                continue
            head = d.split(".")[0]
            full = d
            imp = f.module.imports.get(head)
            if imp and imp != head:
                full = imp + d[len(head):]
            n_calls += 1
            kind = classify(full)
            if full in ("id", "hash") and (head in f.module.imports or head in f.params()):
                kind = None
            if full == "os.environ.setdefault":
                kind = "value"
            if kind is None:
                continue
            if kind == "concurrency":
                raise AnalysisError(f"C17.R2 {f.short}: concurrency primitive '{full}' is reachable from the command line tools: scheduling effects are not modelled")
            if kind == "listing":
                judge_listing(f, c, full, f.short)
            else:
                judge_value(f, f.module, c, full, f.short)
        for n in walk_shallow(f.node):
            if isinstance(n, ast.Subscript) and norm(n.value) == "os.environ" and isinstance(n.ctx, ast.Load):
                judge_value(f, f.module, n, "os.environ[]", f.short)
            if isinstance(n, ast.Call) and isinstance(n.func, ast.Attribute) and n.func.attr in ("iterdir", "glob", "rglob") and dotted(n.func) not in LISTING_FUNCS:
                judge_listing(f, n, "Path." + n.func.attr, f.short)
    # sources evaluated when a module is imported (module and class level statements)
    for m in repo.modules.values():
        if not any(g.module is m for g in reach.values()):
            continue
        stack = list(m.tree.body)
        while stack:
            st = stack.pop()
            if isinstance(st, ast.FunctionDef | ast.AsyncFunctionDef):
                continue
            if isinstance(st, ast.ClassDef):
                stack.extend(st.body)
                continue
            for c in [x for x in ast.walk(st) if isinstance(x, ast.Call)]:
                d = dotted(c.func)
                if not d:
                    continue
                head = d.split(".")[0]
                imp = m.imports.get(head)
                full = imp + d[len(head):] if imp and imp != head else d
                kind = classify(full)
                if kind in ("value",) and full not in ("id", "hash"):
                    n_calls += 1
                    judge_value(None, m, c, full, m.name + ":<import time>")
    L.floor("R2", "resolved call sites scanned", n_calls, 150)
    L.ok("R2", "reachable", f"{n_calls} dotted call sites in {len(reach)} reachable functions scanned", "")

    # ------------------------------------------------------------------ R3
    _r3(repo, L)

    # ------------------------------------------------------------------ R4
    cwd_sites = []
    for f in reach.values():
        for c in repo.calls_in(f):
            d = dotted(c.func) or ""
            if isinstance(c.func, ast.Attribute) and c.func.attr in ("absolute", "resolve", "cwd", "expanduser") and not d.startswith(("re.", "click.")):
                cwd_sites.append((f, c))
            if d in ("os.getcwd", "os.path.abspath", "os.path.realpath", "Path.cwd"):
                cwd_sites.append((f, c))
    okc = True
    for f, c in cwd_sites:
        recv = c.func.value if isinstance(c.func, ast.Attribute) else None
        good = f.short == "index_fasta_file" and isinstance(recv, ast.Name) and recv.id == f.params()[0]
        if good:
            L.ok("R4", f"{f.short}:{norm(c)[:40]}", "absolute() of the FASTA path only (click resolves that option)", f.loc(c))
            continue
        # any other cwd-dependent value: a finding only when it reaches something that is written
        flow = track(repo, f, c)
        if flow.sinks:
            L.fail("R4", f"{f.short}:{norm(c)[:40]}", f"'{norm(c)}' makes a value depend on the working directory and it reaches an output: {flow.sinks[0][0]} (at {flow.sinks[0][1]})", f.loc(c))
        elif flow.escapes:
            raise AnalysisError(f"C17.R4 {f.short}: the working-directory dependent value '{norm(c)[:40]}' goes where the value-flow tracker does not follow ({flow.escapes[0][0]}): no verdict")
        else:
            L.ok("R4", f"{f.short}:{norm(c)[:40]}", f"cwd-dependent value stays within path comparisons / file names / diagnostics ({flow.places} places followed)", f.loc(c))
        okc = okc and good
    cli = eps.get("pretext-to-asm")
    opt = None
    for d in decorator_calls(cli):
        if dotted(d.func) == "click.option" and any(isinstance(a, ast.Constant) and a.value == "--assembly" for a in d.args):
            opt = d
    rp = None
    if opt is not None:
        t = kw(opt, "type")
        if isinstance(t, ast.Call):
            rp = try_fold(kw(t, "resolve_path"), default=None) if kw(t, "resolve_path") is not None else None
    L.check(rp is True, "R4", "pretext-to-asm:--assembly", "resolve_path=True: the FASTA path is absolute before it is used", "the --assembly option is not resolved to an absolute path: the cached .agp header (and index lookups) depend on the working directory", cli.loc(opt) if opt is not None else cli.loc())
    # ------------------------------------------------------------------ R5
    L.ok("R5", "cache codec", "decided by C05 (AGP codec) and C04.R6 (fai codec)", "")


def _strip_or_empty(e):
    """`x or ()` -> x"""
    if isinstance(e, ast.BoolOp) and isinstance(e.op, ast.Or) and len(e.values) == 2:
        return e.values[0]
    return e


def _wrapped_sorted(n):
    p = getattr(n, "_parent", None)
    return isinstance(p, ast.Call) and dotted(p.func) == "sorted"


def _order_insensitive_loop(loop: ast.For, keyed_ok: bool = False):
    """Every store in the body to a name/attribute is (a) a constant, or (b) conflict-guarded:
    in the same branch chain an `if <target> ...: raise` precedes it / it sits in the else of
    `if <target>: raise`."""
    elem_names = {n.id for n in ast.walk(loop.target) if isinstance(n, ast.Name)}
    if any(isinstance(n, ast.Break) for n in walk_shallow(loop)):
        return False, "loop breaks on the first match (which element is first depends on hash order)"
    for n in walk_shallow(loop):
        tg = []
        if isinstance(n, ast.Assign):
            tg = n.targets
        elif isinstance(n, ast.AugAssign):
            return False, f"accumulating store '{norm(n)}' depends on order"
        elif isinstance(n, ast.Expr) and isinstance(n.value, ast.Call):
            c = n.value
            commutative = isinstance(c.func, ast.Attribute) and c.func.attr in ("add", "discard", "update")
            uses_elem = any(elem_names & {x.id for x in ast.walk(a) if isinstance(x, ast.Name)} for a in [*c.args, *[k.value for k in c.keywords]])
            if uses_elem and not commutative and not _block_raises(n):
                return False, f"'{norm(n)[:50]}' emits/records elements in iteration order"
        elif isinstance(n, ast.Yield | ast.YieldFrom):
            return False, "yields elements in hash order"
        if tg and _block_raises(n):
            continue  # value only feeds the error raised right after
        for t in tg:
            txt = norm(t)
            if try_fold(n.value, default=NotImplemented) is not NotImplemented:
                continue  # constant
            if isinstance(t, ast.Name) and _iteration_local(loop, t.id):
                continue  # a temporary of one iteration: assigned before it is read, not read after the loop
            if keyed_ok and isinstance(t, ast.Subscript) and elem_names & {x.id for x in ast.walk(t.slice) if isinstance(x, ast.Name)}:
                continue  # a table keyed by the element: which element comes first does not matter for distinct elements
            if not _conflict_guarded(n, txt, loop):
                return False, f"'{norm(n)[:60]}' stores an element-dependent value without a guard that raises on a second, different value"
    return True, ""


def _iteration_local(loop, name: str) -> bool:
    """`name` is (re)assigned in every iteration before anything in that iteration reads it, and nothing after the loop reads
    it: its value never carries from one element to the next."""
    from ..util import pos as _pos

    fn = getattr(loop, "_func", None)
    fnode = fn.node if fn is not None else None
    if fnode is None:
        return False
    inside = {id(x) for x in ast.walk(loop)}
    for x in ast.walk(fnode):
        if isinstance(x, ast.Name) and x.id == name and isinstance(x.ctx, ast.Load) and id(x) not in inside:
            # read outside the loop: allowed only before the loop starts (an earlier, unrelated use)
            if _pos(x) > _pos(loop):
                return False
    occ = sorted([x for s_ in loop.body for x in ast.walk(s_) if isinstance(x, ast.Name) and x.id == name], key=_pos)
    if not occ:
        return False
    first = occ[0]
    if not isinstance(first.ctx, ast.Store):
        # `v = f(...) if (v := g(...)) ...`: the walrus store may come textually after the target; accept a NamedExpr store at the
        # same statement
        return False
    # the first store must be unconditional within the iteration: directly in the loop body (not under an if / try / inner loop)
    stmt = first
    while getattr(stmt, "_parent", None) is not None and not any(stmt is s_ for s_ in loop.body):
        stmt = stmt._parent
        if isinstance(stmt, ast.If | ast.Try | ast.For | ast.While | ast.With) and stmt is not loop:
            return False
    return any(stmt is s_ for s_ in loop.body)


def _block_raises(stmt):
    par = getattr(stmt, "_parent", None)
    for fld in ("body", "orelse"):
        blk = getattr(par, fld, None)
        if isinstance(blk, list) and any(stmt is s for s in blk):
            return isinstance(blk[-1], ast.Raise)
    return False


def _conflict_guarded(stmt, target_txt, loop):
    """Walk up the enclosing ifs inside the loop: some `if` whose test mentions the target and
    whose body raises either precedes the store in the same block or owns it in its else-branch."""
    node = stmt
    while node is not loop and node is not None:
        par = getattr(node, "_parent", None)
        if isinstance(par, ast.If):
            in_else = any(node is s for s in par.orelse)
            if in_else and target_txt in {norm(x) for x in ast.walk(par.test)} and any(isinstance(b, ast.Raise) for b in par.body):
                return True
        # siblings before
        block = None
        for fld in ("body", "orelse"):
            blk = getattr(par, fld, None)
            if isinstance(blk, list) and any(node is s for s in blk):
                block = blk
        if block:
            for s in block:
                if s is node:
                    break
                if isinstance(s, ast.If) and target_txt in {norm(x) for x in ast.walk(s.test)} and any(isinstance(b, ast.Raise) for b in s.body):
                    return True
        node = par
    return False


def _validated_reads(f: Func, gnames: set) -> bool:
    """Does f compare what it reads back from the global table with data that does not come from the table (beyond testing
    for a miss)?"""
    def mentions(e, names):
        return any((isinstance(x, ast.Name) and x.id in names) or (isinstance(x, ast.Attribute | ast.Name) and (dotted(x) or "") in names) for x in ast.walk(e))

    derived = set()
    grew = True
    while grew:
        grew = False
        for n in walk_shallow(f.node):
            val = tg = None
            if isinstance(n, ast.Assign):
                val, tg = n.value, n.targets
            elif isinstance(n, ast.NamedExpr):
                val, tg = n.value, [n.target]
            if val is None:
                continue
            if mentions(val, gnames) or mentions(val, derived):
                for t in tg:
                    for x in ast.walk(t):
                        if isinstance(x, ast.Name) and isinstance(x.ctx, ast.Store) and x.id not in derived:
                            derived.add(x.id)
                            grew = True
    if not derived:
        return False
    tests = [n.test for n in walk_shallow(f.node) if isinstance(n, ast.If | ast.IfExp | ast.While | ast.Assert)]
    for t in tests:
        for c in ast.walk(t):
            if isinstance(c, ast.Compare):
                ops = [c.left, *c.comparators]
                from_tbl = [o for o in ops if mentions(o, derived)]
                other = [o for o in ops if not mentions(o, derived) and not mentions(o, gnames) and not isinstance(o, ast.Constant)]
                if from_tbl and other:
                    return True
            elif isinstance(c, ast.Call) and not mentions(c.func, gnames):
                args = [*c.args, *[k.value for k in c.keywords]]
                from_tbl = [o for o in args if mentions(o, derived)]
                other = [o for o in args if not mentions(o, derived) and not isinstance(o, ast.Constant)]
                if from_tbl and other:
                    return True
    return False


def _r3(repo: Repo, L: Ledger):
    # module-level and class-level mutable objects
    mutables = []
    for m in repo.modules.values():
        for name, v in m.assigns.items():
            if isinstance(v, ast.Dict | ast.List | ast.Set | ast.DictComp | ast.ListComp | ast.SetComp) or (isinstance(v, ast.Call) and dotted(v.func) in ("dict", "list", "set", "defaultdict", "collections.defaultdict", "OrderedDict")):
                mutables.append((m.name, None, name))
            if isinstance(v, ast.Call):
                tgt = repo.resolve_dotted(m, dotted(v.func) or "")
                if isinstance(tgt, Class):
                    L.fail("R3", f"{m.name}.{name}", f"module-level instance of {tgt.name} shared by all invocations in the process", m.relpath)
                # stateful standard-library objects (streams carry a position and content, deques/bytearrays content)
                if (dotted(v.func) or "").split(".")[-1] in ("BytesIO", "StringIO", "bytearray", "deque", "Counter", "Random"):
                    users = [f.short for f in repo.functions.values() if f.module is m and any(isinstance(x, ast.Name) and x.id == name for x in walk_shallow(f.node))]
                    if users:
                        L.fail("R3", f"{m.name}.{name}", f"module-level {norm(v)[:30]} is used by {users[:2]}: one stateful object shared by every invocation in the process — what an earlier (possibly failed) call left in it becomes part of the next call's result", m.relpath, witness={"history": "a call that raises half way, then a call on good input"})
    for c in repo.classes.values():
        for name, v in c.attrs.items():
            if isinstance(v, ast.Dict | ast.List | ast.Set):
                mutables.append((c.module.name, c.name, name))
    n_mut = 0
    for modname, cname, name in mutables:
        n_mut += 1
        bad = []
        for f in repo.functions.values():
            for n in walk_shallow(f.node):
                refs = []
                if isinstance(n, ast.Call) and isinstance(n.func, ast.Attribute) and n.func.attr in ("add", "update", "append", "extend", "pop", "remove", "clear", "setdefault", "insert", "discard", "sort", "popitem", "__setitem__"):
                    refs.append(n.func.value)
                if isinstance(n, ast.Assign | ast.AugAssign | ast.Delete):
                    tg = n.targets if not isinstance(n, ast.AugAssign) else [n.target]
                    for t in tg:
                        if isinstance(t, ast.Subscript):
                            refs.append(t.value)
                        elif isinstance(n, ast.AugAssign):
                            refs.append(t)
                for r in refs:
                    d = dotted(r) or ""
                    if cname and (d == f"{cname}.{name}" or (d in (f"self.{name}", f"cls.{name}") and f.cls is not None and any(k.name == cname for k in repo.mro(f.cls)))):
                        # an instance attribute of the same name set in __init__ shadows the class attribute
                        shadow = f.cls is not None and any(isinstance(x, ast.Assign) and any(norm(t) == f"self.{name}" for t in x.targets) for k in repo.mro(f.cls) for mm in [k.methods.get("__init__")] if mm for x in walk_shallow(mm.node))
                        if not shadow or d == f"{cname}.{name}":
                            bad.append(f"{f.short}: {norm(n)[:50]}")
                    if not cname and d == name and f.module.name == modname and name not in f.params():
                        local = any(isinstance(x, ast.Assign) and any(is_name(t, name) for t in x.targets) for x in walk_shallow(f.node))
                        if not local:
                            bad.append(f"{f.short}: {norm(n)[:50]}")
            if not cname and f.module.name == modname and name not in f.params():
                # aliases: locals taken out of the shared object, then mutated; reads of a defaultdict insert keys
                aliases = set()
                is_dd = isinstance(repo.modules[modname].assigns.get(name), ast.Call) and "defaultdict" in norm(repo.modules[modname].assigns[name].func)
                for x in walk_shallow(f.node):
                    if isinstance(x, ast.Assign) and isinstance(x.targets[0], ast.Name) and any(isinstance(y, ast.Name) and y.id == name for y in ast.walk(x.value)):
                        aliases.add(x.targets[0].id)
                    if is_dd and isinstance(x, ast.Subscript) and is_name(x.value, name):
                        bad.append(f"{f.short}: {norm(x)[:50]} (defaultdict read inserts the key)")
                for x in walk_shallow(f.node):
                    if isinstance(x, ast.Call) and isinstance(x.func, ast.Attribute) and isinstance(x.func.value, ast.Name) and x.func.value.id in aliases and x.func.attr in ("append", "extend", "update", "add", "pop", "clear", "insert", "setdefault", "remove"):
                        bad.append(f"{f.short}: {norm(x)[:50]} (alias of {name})")
                    if isinstance(x, ast.Assign | ast.AugAssign):
                        tg = x.targets if isinstance(x, ast.Assign) else [x.target]
                        for t in tg:
                            if isinstance(t, ast.Subscript) and isinstance(t.value, ast.Name) and t.value.id in aliases:
                                bad.append(f"{f.short}: {norm(x)[:50]} (alias of {name})")
        if bad:
            # a cache whose hits are validated against the current inputs before use is outside what is decided here
            for f in repo.functions.values():
                if not any(b.startswith(f.short + ":") for b in bad):
                    continue
                gname = {f"{cname}.{name}", f"self.{name}", f"cls.{name}"} if cname else {name}
                if _validated_reads(f, gname):
                    raise AnalysisError(f"C17.R3 {cname + '.' if cname else modname + '.'}{name}: process-global table is filled by {f.short}, which validates what it reads back from it against current data before use: whether a hit can be stale is not decided")
        L.check(not bad, "R3", f"{cname + '.' if cname else modname + '.'}{name}", "shared table never mutated", f"process-global mutable object is mutated: {bad[:2]} — a second invocation in the same process sees the first one's state", modname)
    L.floor("R3", "module/class-level mutable objects", n_mut, 2)
    # mutable defaults
    for f in repo.functions.values():
        a = f.node.args
        for dflt in (*a.defaults, *[d for d in a.kw_defaults if d is not None]):
            if isinstance(dflt, ast.List | ast.Dict | ast.Set) or (isinstance(dflt, ast.Call) and dotted(dflt.func) in ("list", "dict", "set")):
                L.fail("R3", f"{f.short}:default", f"mutable default argument '{norm(dflt)}' is shared between calls", f.loc(dflt))
    # memoised functions
    n_cache = 0
    for f in repo.functions.values():
        if not any(d in ("cache", "functools.cache") or d.startswith(("lru_cache", "functools.lru_cache")) for d in f.decorators):
            continue
        n_cache += 1
        inst = f"{f.short}:cache"
        # pure: body reads only its parameters / constants / modules
        free = set()
        locals_ = {x.id for x in walk_shallow(f.node) if isinstance(x, ast.Name) and isinstance(x.ctx, ast.Store)}
        for n in [x for st in f.node.body for x in [st, *walk_shallow(st)]]:
            if isinstance(n, ast.Name) and isinstance(n.ctx, ast.Load) and n.id not in f.params() and n.id not in f.module.imports and n.id not in f.module.classes and n.id not in locals_:
                # state = a module-level name that holds a mutable object or is rebound by some function (`global`)
                mv = f.module.assigns.get(n.id)
                mutable = isinstance(mv, ast.Dict | ast.List | ast.Set | ast.DictComp | ast.ListComp | ast.SetComp) or (isinstance(mv, ast.Call) and dotted(mv.func) in ("dict", "list", "set", "defaultdict", "collections.defaultdict", "OrderedDict", "bytearray", "io.BytesIO", "BytesIO", "io.StringIO", "StringIO"))
                rebound = any(n.id in gl.names for g in f.module.functions.values() for gl in walk_shallow(g.node) if isinstance(gl, ast.Global))
                if mutable or rebound:
                    free.add(n.id)
            if isinstance(n, ast.Attribute) and is_name(n.value, "self"):
                free.add("self." + n.attr)
        L.check(not free, "R3", inst, "memoised function depends on its arguments only", f"memoised function reads {sorted(free)}: results cached from one invocation leak into the next", f.loc())
        # ... and on nothing outside the process either: a memoised function that reads files returns, for an unchanged
        # argument, what the file held when it was first read
        io_site = None
        for g in repo.reachable_from([f], include_properties=True).values():
            for c in repo.calls_in(g):
                d_ = dotted(c.func) or ""
                if d_ in ("open", "io.open", "os.stat", "os.path.getmtime", "os.path.exists") or (isinstance(c.func, ast.Attribute) and c.func.attr in ("open", "read_text", "read_bytes", "stat", "exists", "is_file")):
                    io_site = io_site or (g, c)
        if io_site is not None:
            g_, c_ = io_site
            L.fail(
                "R3", inst + ":reads-files",
                f"memoised function {f.short} reads the file system ({g_.short}: '{norm(c_)[:40]}'): for the same argument a later invocation in the same process gets the result computed from the file's earlier content",
                f.loc(), witness={"history": "run on genome.agp; edit genome.agp; run again in the same process"},
            )
        if f.name == "__new__" and f.cls is not None:
            # shared instances: fields written only in __init__, from its arguments (idempotent for equal keys)
            init = f.cls.methods.get("__init__")
            slots = try_fold(f.cls.attrs.get("__slots__"), default=()) if f.cls.attrs.get("__slots__") is not None else ()
            fields = set(slots) if isinstance(slots, tuple | list) else {slots}
            writers = []
            for g in repo.functions.values():
                for n in walk_shallow(g.node):
                    tg = n.targets if isinstance(n, ast.Assign) else [n.target] if isinstance(n, ast.AugAssign) else []
                    for t in tg:
                        if isinstance(t, ast.Attribute) and t.attr in fields and g is not init:
                            # `self.<field>` in another class's own methods is that class's field, not this one
                            own = is_name(t.value, "self")
                            if not own or g.cls is None or g.cls is f.cls or f.cls in repo.mro(g.cls):
                                writers.append(f"{g.short}: {norm(n)[:40]}")
            L.check(not writers, "R3", inst + ":shared-instance", "shared instances are only written by __init__", f"fields of memoised {f.cls.name} instances are written outside __init__: {writers[:2]}", f.loc())
            ok_init = init is not None and all(isinstance(n, ast.Assign) and names_in(n.value) <= set(init.params()) | {"int", "str", "float"} for n in init.node.body if isinstance(n, ast.Assign))
            L.check(ok_init, "R3", inst + ":idempotent-init", "__init__ sets fields from its arguments only", "__init__ of a memoised class is not a pure function of its arguments: re-initialising the shared instance changes earlier holders", init.loc() if init else f.loc())
        else:
            # results never mutated: every use of the call result is an argument of translate()/read-only
            for g, c in repo.callers_of(f):
                par = getattr(c, "_parent", None)
                okuse = isinstance(par, ast.Assign) or isinstance(par, ast.Call)
                if isinstance(par, ast.Assign) and isinstance(par.targets[0], ast.Name):
                    v = par.targets[0].id
                    muts = [n for n in walk_shallow(g.node) if (isinstance(n, ast.Subscript) and is_name(n.value, v) and isinstance(n.ctx, ast.Store | ast.Del)) or (isinstance(n, ast.Call) and isinstance(n.func, ast.Attribute) and is_name(n.func.value, v) and n.func.attr in ("update", "pop", "clear", "setdefault", "__setitem__"))]
                    okuse = not muts
                L.check(okuse, "R3", f"{inst}:{g.short}", "cached result used read-only", f"cached result of {f.short} is mutated in {g.short}", g.loc(c))
    L.floor("R3", "memoised functions", n_cache, 3)
    # logging
    sl = repo.try_func("setup_logging", "pretext_to_asm")
    if sl is None:
        raise AnalysisError("anchor pretext_to_asm.setup_logging vanished")
    force = None
    for n in walk_shallow(sl.node):
        if isinstance(n, ast.Dict):
            for k, v in zip(n.keys, n.values):
                if isinstance(k, ast.Constant) and k.value == "force":
                    force = try_fold(v, default=None)
        if isinstance(n, ast.Call) and dotted(n.func) == "logging.basicConfig" and kw(n, "force") is not None:
            force = try_fold(kw(n, "force"), default=None)
        if isinstance(n, ast.Assign) and isinstance(n.targets[0], ast.Subscript) and isinstance(n.targets[0].slice, ast.Constant) and n.targets[0].slice.value == "force":
            force = try_fold(n.value, default=None)
    L.check(force is True, "R3", sl.short + ":force", "logging.basicConfig(force=True): handlers of an earlier invocation are removed", "logging is not reconfigured with force=True: a second invocation in one process keeps writing to the first one's log file", sl.loc())
