"""C09 — tags route sequence to the documented destination assembly.

 R1 per-piece tag dispatch in the labelling function (all tag subsets × Target mode)
 R2 destination precedence: tag, else haplotype, else primary; curated is false iff tagged
 R3 fuse key determines destination:  fuse(s) == fuse(t)  =>  dest(s) == dest(t)
 R4 left-over scaffolds in Target mode are tagged Contaminant
 R5 file naming: the three tags never map to a '.primary' name; key -> name injective per branch
 R6 haplotype names are matched case-insensitively, first spelling wins
"""

from __future__ import annotations

import ast
import itertools

from ..finite import UNKNOWN, Opaque, fold_env, run_paths
from ..fold import NotConstant
from ..model import AnalysisError, Repo, dotted, is_name, norm, walk_shallow
from ..report import Ledger
from .keys import HAPS, NAMES, TAGS, asm_key, fuse_key, fuse_site, valuations

PROP = "C09"
LEVEL = "other"
EXPLANATION = (
    "The labelling function, the fuse key, the destination-key chain and the file-naming branches are extracted from the "
    "AST and model-checked by path-sensitive constant propagation over finite valuations: all 16 subsets of the routing "
    "tags × Target mode × scaffold tag sets for the per-piece dispatch; all (tag, haplotype, name) triples of a small domain "
    "for the implication fuse(s)=fuse(t) ⇒ dest(s)=dest(t) (pieces fused into one scaffold share one destination, so a piece "
    "whose own destination differs is misrouted); all three naming branches for each tag. Exhaustive over those finite "
    "domains; haplotype inference from runtime names is not decided."
)

ROUTING = ("Contaminant", "FalseDuplicate", "Haplotig")


def _is_state_test(repo: Repo, cond) -> bool:
    """`x in <obj>.<attr>` / `x not in ...` / truthiness of `<obj>.<attr>` where <attr> is a collection that some function of the
    repository populates (.add / .append / .update / [k] = / |=): its outcome is a run-time fact that can go either way."""
    t = cond
    while isinstance(t, ast.UnaryOp) and isinstance(t.op, ast.Not):
        t = t.operand
    target = None
    if isinstance(t, ast.Compare) and len(t.ops) == 1 and isinstance(t.ops[0], ast.In | ast.NotIn):
        target = t.comparators[0]
    elif isinstance(t, ast.Attribute):
        target = t
    if not isinstance(target, ast.Attribute):
        return False
    attr = target.attr
    for f in repo.functions.values():
        for n in walk_shallow(f.node):
            if isinstance(n, ast.Call) and isinstance(n.func, ast.Attribute) and n.func.attr in ("add", "append", "update", "extend", "setdefault") and isinstance(n.func.value, ast.Attribute) and n.func.value.attr == attr:
                return True
            if isinstance(n, ast.Subscript) and isinstance(n.ctx, ast.Store) and isinstance(n.value, ast.Attribute) and n.value.attr == attr:
                return True
            if isinstance(n, ast.AugAssign) and isinstance(n.target, ast.Attribute) and n.target.attr == attr:
                return True
    return False


def _state_only(repo, cond, env) -> bool:
    """every operand of the (possibly compound) condition is either decided by the valuation or a test on mutable program state"""
    from ..finite import fold_env
    from ..fold import NotConstant

    if isinstance(cond, ast.BoolOp):
        return all(_state_only(repo, v, env) for v in cond.values)
    if isinstance(cond, ast.UnaryOp) and isinstance(cond.op, ast.Not):
        return _state_only(repo, cond.operand, env)
    try:
        fold_env(cond, env)
        return True
    except NotConstant:
        return _is_state_test(repo, cond)
    except Exception:
        return False


def run(repo: Repo, L: Ledger, tier: str):
    L.rule("R1", "label: single routing tag -> that tag; none -> None unless Target mode; several -> one of them")
    L.rule("R2", "destination key == tag or haplotype or None; curated == not tag")
    L.rule("R3", "fuse(s) == fuse(t) => destination(s) == destination(t)")
    L.rule("R4", "left-over input scaffolds in Target mode (no Target tag) tagged Contaminant")
    L.rule("R5", "tag keys are named <root>.<version>.<tag>s (haplotigs -> additional_haplotigs in single-haplotype maps), never .primary")
    L.rule("R6", "haplotype lookup keyed by lower-case name, first spelling returned")

    namer = repo.cls("ScaffoldNamer")
    label = namer.methods.get("label_scaffold")
    if label is None:
        raise AnalysisError("anchor ScaffoldNamer.label_scaffold vanished")

    # ---------------------------------------------------------------- R1
    ps = label.params()  # self, scaffold, fragment, scaffold_tags, original_name
    sc_p, fr_p, st_p, on_p = ps[1], ps[2], ps[3], ps[4]
    n1 = 0
    bad1 = None
    extra = ("Unloc",)
    for k in range(len(ROUTING) + 1):
        for subset in itertools.combinations(ROUTING, k):
            for unloc in ((), extra):
                for target_mode in (False, True):
                    for stags in (set(), {"Target"}, {"Painted"}, {"Painted", "Target"}):
                        env = {
                            f"{fr_p}.tags": tuple(subset + unloc),
                            "self.target_tags": target_mode,
                            st_p: stags,
                            on_p: "ORIG",
                            "self.current_scaffold_name": "CUR",
                            "self.current_rank": 1,
                            "self.current_haplotype": "H1",
                            f"{sc_p}.tag": None,
                            "self.haplotig_name()": "H_1",
                            "self.unloc_name()": "CUR_unloc_1",
                        }
                        res = run_paths(label.node.body, env, loop_iters=(0, 1))
                        n1 += 1
                        if len(res) != 1 or res[0]["unknown_conds"]:
                            raise AnalysisError(f"label_scaffold: {len(res)} feasible paths / undecided conditions for tags={subset + unloc}")
                        r = res[0]
                        if r["path"].status == "raise":
                            continue  # Unloc in unpainted scaffold: documented error
                        got = r["env"].get(f"{sc_p}.tag")
                        tcont = target_mode and "Target" not in stags
                        # the piece's own tag decides ("wherever in a Pretext scaffold they sit and whatever other scaffolds are
                        # called"); Target mode only decides for pieces that carry no routing tag of their own
                        allowed = set(subset) if subset else ({"Contaminant"} if tcont else set())
                        if not allowed:
                            ok = got is None
                        elif len(allowed) == 1:
                            ok = got == next(iter(allowed))
                        else:
                            ok = got in allowed
                        if not ok and bad1 is None:
                            bad1 = (subset + unloc, target_mode, sorted(stags), got, sorted(allowed))
                        # tagged pieces are unplaced (rank 3) and keep the current haplotype
                        if got is not None and r["env"].get(f"{sc_p}.rank") != 3 and bad1 is None:
                            bad1 = (subset + unloc, target_mode, sorted(stags), f"rank {r['env'].get(f'{sc_p}.rank')}", ["rank 3"])
    if bad1:
        L.fail("R1", label.short, f"piece with tags {bad1[0]} (Target mode {bad1[1]}, scaffold tags {bad1[2]}) is labelled {bad1[3]!r}; documented destination(s): {bad1[4]}", label.loc(), witness={"fragment.tags": bad1[0], "target_mode": bad1[1], "scaffold_tags": bad1[2]})
    else:
        L.ok("R1", label.short, f"tag dispatch correct on all {n1} valuations", label.loc())
    L.extra["label_valuations"] = n1

    # ---------------------------------------------------------------- R7 tagging mode is discovered in file order
    mk0 = namer.methods.get("make_scaffold_name")
    fao = repo.cls("BuildAssembly").methods.get("find_assembly_overlaps")
    if mk0 is None or fao is None:
        raise AnalysisError("anchors make_scaffold_name / find_assembly_overlaps vanished")
    sites = [c for c in repo.calls_in(fao) if isinstance(c.func, ast.Attribute) and c.func.attr == mk0.name]
    lab_sites = [c for c in repo.calls_in(fao) if isinstance(c.func, ast.Attribute) and c.func.attr == label.name]
    ok7, why7 = len(sites) == 1 and len(lab_sites) == 1, f"{len(sites)} calls of make_scaffold_name in the lookup function (expected exactly one, inside the Pretext scaffold loop)"
    if ok7:
        from ..util import end_pos, pos, ancestors as _anc

        loops_mk = [a for a in _anc(sites[0]) if isinstance(a, ast.For)]
        loops_lb = [a for a in _anc(lab_sites[0]) if isinstance(a, ast.For)]
        ok7 = len(loops_mk) == 1 and loops_mk[0] in loops_lb and pos(sites[0]) < pos(lab_sites[0])
        why7 = "the per-scaffold tag scan is not done once per Pretext scaffold inside the same loop that labels its pieces"
    L.rule("R7", "sticky tagging mode (Target seen, primary haplotype) is updated once per Pretext scaffold, in file order, before its pieces are labelled")
    L.check(ok7, "R7", fao.short, "make_scaffold_name called once per scaffold inside the labelling loop", why7 + ": a pre-pass over all scaffolds switches Target mode on before the first scaffold is labelled, so untagged scaffolds *before* the first Target tag become contaminants", fao.loc())
    setters = []
    for f2 in repo.functions.values():
        for n in walk_shallow(f2.node):
            if isinstance(n, ast.Assign) and any(isinstance(t, ast.Attribute) and t.attr == "target_tags" for t in n.targets) and f2.name != "__init__":
                setters.append((f2, n))
    ok7b = all(f2 is mk0 and isinstance(n.value, ast.Constant) and n.value.value is True for f2, n in setters) and bool(setters)
    L.check(ok7b, "R7", "target_tags", "Target mode only ever switched on, and only by the per-scaffold tag scan", f"target_tags is written by {[f2.short + ': ' + norm(n) for f2, n in setters if f2 is not mk0 or not (isinstance(n.value, ast.Constant) and n.value.value is True)]}", mk0.loc())

    # ---------------------------------------------------------------- R2
    bad2 = None
    for t, h in itertools.product(TAGS, HAPS):
        key, cur = asm_key(repo, {"tag": t, "haplotype": h, "name": "N1"})
        want = t if t else (h if h else None)
        if key != want:
            bad2 = bad2 or f"scaffold with tag={t!r}, haplotype={h!r} goes to assembly key {key!r}, expected {want!r}"
        if cur is not (not t):
            bad2 = bad2 or f"assembly for tag={t!r}, haplotype={h!r} created with curated={cur!r}"
    asm_f = repo.cls("BuildAssembly").methods["assemblies_with_scaffolds_fused"]
    L.check(bad2 is None, "R2", asm_f.short, "destination = tag, else haplotype, else primary; tagged assemblies are not curated", bad2 or "", asm_f.loc())

    # ---------------------------------------------------------------- R3
    f, loop, var, key_expr, ctor, call = fuse_site(repo)
    vals = list(valuations())
    fk = {i: fuse_key(repo, v) for i, v in enumerate(vals)}
    ak = {i: asm_key(repo, v)[0] for i, v in enumerate(vals)}
    bad3 = None
    npairs = 0
    for i in range(len(vals)):
        for j in range(len(vals)):
            npairs += 1
            if fk[i] == fk[j] and ak[i] != ak[j] and bad3 is None:
                bad3 = (vals[i], vals[j])
    if bad3:
        s, t = bad3
        L.fail(
            "R3", f.short,
            f"fuse key '{norm(key_expr)}' merges pieces with different destinations: first piece {s} (→ {asm_key(repo, s)[0]!r}) and later piece {t} (→ {asm_key(repo, t)[0]!r}) are fused into one scaffold that takes the first piece's tag/haplotype, so the later piece is written to the wrong assembly",
            f.loc(call), witness={"first": s, "later": t},
        )
    else:
        L.ok("R3", f.short, f"fuse key '{norm(key_expr)}' determines the destination on all {npairs} pairs", f.loc(call))
    L.extra["key_pairs"] = npairs
    # the fused scaffold takes name/tag/haplotype from the same piece
    ok_ctor = isinstance(ctor, ast.Call) and dotted(ctor.func) == "Scaffold"
    if ok_ctor:
        from ..util import resolve_local as _rl

        kws = {k.arg: norm(_rl(f, k.value)) for k in ctor.keywords}
        pos_args = [norm(_rl(f, a)) for a in ctor.args]
        ok_ctor = (pos_args[:1] == [f"{var}.name"] or kws.get("name") == f"{var}.name") and kws.get("tag") == f"{var}.tag" and kws.get("haplotype") == f"{var}.haplotype" and kws.get("rank") == f"{var}.rank"
    L.check(ok_ctor, "R3", f.short + ":inherit", "fused scaffold inherits name, tag, haplotype, rank of its first piece", "fused scaffold does not take name/tag/haplotype/rank from the piece that creates it", f.loc(ctor))

    # ---------------------------------------------------------------- R4
    ba = repo.cls("BuildAssembly")
    addm = ba.methods.get("add_missing_scaffolds_from_input")
    if addm is None:
        raise AnalysisError("anchor BuildAssembly.add_missing_scaffolds_from_input vanished")
    blocks = [n for n in walk_shallow(addm.node) if isinstance(n, ast.If) and isinstance(n.test, ast.Name) and any(isinstance(x, ast.Call) and isinstance(x.func, ast.Attribute) and x.func.attr == "add_scaffold" for s in n.body for x in [s, *walk_shallow(s)])]
    if len(blocks) != 1:
        raise AnalysisError("left-over registration block not found in add_missing_scaffolds_from_input")
    blk = blocks[0]
    newv = blk.test.id
    # names of the namer alias and input scaffold loop var
    bad4 = None
    n4 = 0
    for tm in (False, True):
        for has_target in (False, True):
            env = {f"{newv}.tag": None}
            # bind every spelling of the two inputs used in the block
            for n in ast.walk(blk):
                if isinstance(n, ast.Attribute) and n.attr == "target_tags":
                    env[dotted(n)] = tm
                if isinstance(n, ast.Call) and isinstance(n.func, ast.Attribute) and n.func.attr == "fragment_tags":
                    env[norm(n)] = {"Target"} if has_target else set()
            res = run_paths(blk.body, env, loop_iters=(0,))
            n4 += 1
            want = "Contaminant" if (tm and not has_target) else None
            if len(res) != 1 or res[0]["unknown_conds"]:
                # a condition on *mutable program state* (a collection attribute that some reachable code populates) can be
                # true or false at run time: each outcome is a real behaviour and must give the documented tag
                for r in res:
                    if not r["unknown_conds"]:
                        continue
                    if not all(_state_only(repo, c, r["env"]) for c, _ in r["unknown_conds"]):
                        raise AnalysisError(f"left-over block: undecided condition '{norm(r['unknown_conds'][0][0])[:60]}'")
                    got = r["env"].get(f"{newv}.tag")
                    if got != want:
                        conds = " and ".join(f"{norm(c)[:50]} is {v}" for c, v in r["unknown_conds"])
                        bad4 = bad4 or f"Target mode={tm}, input scaffold has Target tag={has_target}: when {conds} (program state the Pretext map can produce) the left-over scaffold is tagged {got!r}, expected {want!r}"
                continue
            got = res[0]["env"].get(f"{newv}.tag")
            if got != want:
                bad4 = bad4 or f"Target mode={tm}, input scaffold has Target tag={has_target}: left-over scaffold tagged {got!r}, expected {want!r}"
            added = any(isinstance(x, ast.Call) and isinstance(x.func, ast.Attribute) and x.func.attr == "add_scaffold" for _, _, n_ in res[0]["stores"] for x in [n_, *walk_shallow(n_)])
            if not added:
                bad4 = bad4 or "left-over scaffold is not registered on a path"
    L.check(bad4 is None, "R4", addm.short, "left-overs tagged Contaminant exactly in Target mode without a Target tag", bad4 or "", addm.loc(blk))

    # ---------------------------------------------------------------- R5
    _naming(repo, L)

    # ---------------------------------------------------------------- R6
    gsh = namer.methods.get("get_set_haplotype")
    ok6 = False
    if gsh is not None:
        rets = [n for n in walk_shallow(gsh.node) if isinstance(n, ast.Return)]
        p = gsh.params()[1]
        if len(rets) == 1 and isinstance(rets[0].value, ast.Call) and isinstance(rets[0].value.func, ast.Attribute) and rets[0].value.func.attr == "setdefault":
            a = rets[0].value.args
            ok6 = len(a) == 2 and norm(a[0]) in (f"{p}.lower()", f"{p}.casefold()") and norm(a[1]) == p
    L.check(ok6, "R6", "ScaffoldNamer.get_set_haplotype", "dict.setdefault(name.lower(), name)", "haplotype names are no longer matched case-insensitively with the first spelling winning", gsh.loc() if gsh else "")
    # every haplotype value the namer uses comes through that registrar
    mk = namer.methods.get("make_scaffold_name")
    hf = namer.methods.get("haplotype_from_first_row_name")
    bad6 = []

    def via_registrar(e, depth=0):
        if isinstance(e, ast.Constant) and e.value is None:
            return True
        if isinstance(e, ast.Call) and isinstance(e.func, ast.Attribute) and is_name(e.func.value, "self"):
            if e.func.attr == gsh.name:
                return True
            m2 = namer.methods.get(e.func.attr)
            if m2 is not None and depth < 2:
                rets = [r for r in walk_shallow(m2.node) if isinstance(r, ast.Return)]
                return bool(rets) and all(r.value is None or via_registrar(r.value, depth + 1) for r in rets)
        return False

    if mk is not None and gsh is not None:
        for n in walk_shallow(mk.node):
            if isinstance(n, ast.Assign) and any(is_name(t, "haplotype") for t in n.targets):
                if not via_registrar(n.value):
                    bad6.append(norm(n)[:70])
            if isinstance(n, ast.Assign) and any(norm(t) == "self.primary_haplotype" for t in n.targets) and not via_registrar(n.value):
                bad6.append(norm(n)[:70])
    L.check(not bad6 and mk is not None, "R6", "ScaffoldNamer:haplotype-sources", "every haplotype value is canonicalised through get_set_haplotype", f"a haplotype name bypasses the case-insensitive registrar: {bad6[:2]} — 'HAP2_…' scaffolds seen before the first 'Hap2' tag end up in a second assembly for the same haplotype", mk.loc() if mk else "")


def _naming(repo: Repo, L: Ledger):
    na = repo.try_func("name_assemblies", "pretext_to_asm")
    if na is None:
        raise AnalysisError("anchor pretext_to_asm.name_assemblies vanished")
    ps = na.params()
    dict_p, root_p, ver_p = ps[0], ps[1], ps[2]
    # top-level branches: if / elif / else chain
    chain = [n for n in na.node.body if isinstance(n, ast.If)]
    if len(chain) != 1:
        raise AnalysisError("name_assemblies: branch chain not found")
    branches = []
    node = chain[0]
    while True:
        branches.append((norm(node.test), node.body))
        if len(node.orelse) == 1 and isinstance(node.orelse[0], ast.If):
            node = node.orelse[0]
        else:
            branches.append(("else", node.orelse))
            break
    L.floor("R5", "naming branches", len(branches), 3)
    for bi, (cond, body) in enumerate(branches):
        loops = [n for n in body if isinstance(n, ast.For) and f"{dict_p}.items()" in norm(n.iter)]
        if len(loops) != 1:
            raise AnalysisError(f"name_assemblies branch {bi}: loop over {dict_p}.items() not found")
        lp = loops[0]
        kv, av = (e.id for e in lp.target.elts)
        single_hap = f"{dict_p}.get(None)" in cond
        names = {}
        for tag in ROUTING:
            env = {kv: tag, f"{av}.curated": False, root_p: "ROOT", ver_p: "1", f"{av}.name": "OLD"}
            res = run_paths(lp.body, env, loop_iters=(0,))
            if len(res) != 1 or res[0]["unknown_conds"]:
                raise AnalysisError(f"name_assemblies branch {bi}: undecided for key {tag}")
            r = res[0]
            nm = r["env"].get(f"{av}.name")
            stored = [t for t, v, n in r["stores"] if "[" in t and isinstance(n, ast.Assign) and norm(n.value) == av]
            inst = f"{na.short}:branch[{bi}]:{tag}"
            want = f"ROOT.1.{tag.lower()}s"
            alt = "ROOT.1.additional_haplotigs" if (tag == "Haplotig" and single_hap) else None
            ok = isinstance(nm, str) and (nm == want or (alt and nm == alt)) and ".primary" not in nm
            L.check(ok, "R5", inst, f"named {nm!r}", f"in branch '{cond}' the {tag} assembly is named {nm!r}, expected {want!r}{' or ' + repr(alt) if alt else ''}", na.loc(lp), witness={"key": tag, "name": nm})
            L.check(bool(stored) and r["path"].status == "fall", "R5", inst + ":kept", "assembly kept in the returned dict", f"in branch '{cond}' the {tag} assembly is not stored in the returned dict (its file is never written)", na.loc(lp))
            names[tag] = nm
        L.check(len(set(names.values())) == len(names), "R5", f"{na.short}:branch[{bi}]:injective", "distinct file names per tag", f"branch '{cond}': tag assemblies share a file name {names}", na.loc(lp))
