"""C08 — an unedited Pretext map reproduces the input assembly (structural clauses only).

Identity of output and input under texel rounding is a statement about runtime lengths; what is
decided here are the clauses in the shape of the code that the identity needs:

 R1 a lookup result whose overhangs are both smaller than the error length is not trimmed
    (a bait that falls short of / overshoots the scaffold end by less than one texel keeps all rows)
 R2 an unpainted, untagged Pretext scaffold keeps the input name (name of its first row), rank 3, no tag;
    its pieces are labelled with exactly that
 R3 a single piece per name is fused without any gap row and, for a forward bait, without reversal
 R4 naming / ranking code never touches rows (painting changes only names and order)
 R5 with no contig shared between results the resolve and cut phases do nothing
 R6 a re-added (missing) scaffold is created under the name of the input scaffold it comes from
 R7 both junction collectors used by the statistics visit every scaffold that has a fragment (input side and
    output side are computed by the same per-scaffold function, with no scaffold filtered out)
"""

from __future__ import annotations

import ast

from ..finite import run_paths
from ..model import AnalysisError, Func, Repo, dotted, is_name, norm, walk_shallow
from ..report import Ledger
from ..sym import B, Const, GhostList, Lin, State, Sym, SymExec, as_lin
from ..util import paths

PROP = "C08"
LEVEL = "other"
EXPLANATION = (
    "Only structural clauses of C08 are claimed: trim_large_overhangs is interpreted abstractly under the assumption that "
    "both overhangs are at most error_length (what a whole-scaffold bait rounded to the texel grid produces) and must not "
    "remove a row on any path; the namer is evaluated by constant propagation for an untagged, unpainted scaffold (input name, "
    "rank 3, no tag); fusing a single piece adds no gap and does not reverse a forward bait (shared rules of C07/C14); the naming "
    "code is scanned for row mutation; the resolve/cut phases are no-ops on an empty shared map. Equality of whole outputs under "
    "texel rounding and the zero statistics are runtime facts that follow from these clauses plus C01/C12/C18 and are not decided."
)
LEVEL_NOTE = (
    "Claims only the clauses R1–R5 named in the module docstring (necessary conditions of the identity); the identity itself over "
    "all texel sizes is outside static reach (DESIGN.md section 6). Assumption of R1: overhangs <= error_length, i.e. the bait "
    "differs from the scaffold span by less than one texel (plus integer rounding) at each end."
)


def run(repo: Repo, L: Ledger, tier: str):
    L.rule("R1", "overhangs <= error_length  =>  trim_large_overhangs removes nothing")
    L.rule("R2", "unpainted, untagged scaffold: input name, rank 3, no tag")
    L.rule("R3", "single piece: no gap row, forward bait not reversed")
    L.rule("R4", "naming code never mutates rows")
    L.rule("R5", "empty shared map: resolve and cut phases do nothing")

    ovr = repo.cls("OverlapResult")
    frag = repo.cls("Fragment")
    tlo = ovr.methods.get("trim_large_overhangs")
    if tlo is None:
        raise AnalysisError("anchor OverlapResult.trim_large_overhangs vanished")

    # ---- R1
    ex = SymExec(repo, loop_iters=(0, 1, 2))
    st = State()
    g = GhostList("rows")
    st.heap[("self", "rows")] = g
    S, E = Lin.atom("S"), Lin.atom("E")
    st.heap[("self", "start")] = S
    st.heap[("self", "end")] = E
    st.heap[("self", "bait")] = Sym("bait", frag)
    bs, be = Lin.atom("bait._start"), Lin.atom("bait._end")
    err = Lin.atom("err")
    # start_overhang = bs - S <= err ; end_overhang = E - be <= err ; err >= 1
    # (the bait misses the scaffold end by < 1 texel + rounding: L - int(k*T) <= floor(T) + 1 = error length, with equality
    #  reachable for fractional texel sizes)
    st.pc.append(B("le", (bs - S) - err))
    st.pc.append(B("le", (E - be) - err))
    st.pc.append(B("le", Lin.const(1) - err))
    ps = tlo.params()
    finals = ex.run_function(tlo, st, {ps[0]: Sym("self", ovr), ps[1]: err})
    if not finals:
        raise AnalysisError("trim_large_overhangs: no completing path under the sub-texel assumption")
    bad = None
    for r in finals:
        gl = r.heap[("self", "rows")]
        if not hasattr(gl, "log"):
            raise AnalysisError("trim_large_overhangs: self.rows is rebound to a value outside the list model: no verdict")
        unk = [op for op, *_ in gl.log if op.endswith("?")]
        if unk:
            raise AnalysisError(f"trim_large_overhangs: rows are changed by an operation outside the list model ({unk}): no verdict")
        if gl.log or as_lin(r.heap[("self", "start")]) != S or as_lin(r.heap[("self", "end")]) != E:
            bad = r
    L.check(
        bad is None, "R1", tlo.short,
        f"no row removed and span unchanged on all {len(finals)} feasible paths",
        f"with both overhangs at most the error length a path still removes a row or moves the span ({bad.path.describe() if bad is not None and bad.path else ''}): a whole-scaffold bait rounded to the texel grid loses its terminal contig, so an unedited map no longer reproduces the input",
        tlo.loc(), witness={"start_overhang": "<= error_length", "end_overhang": "<= error_length", "example": "bp/texel 1000.7, scaffold length 2001, bait 1-1000: overhang 1001 == error length"},
    )

    # ---- R2
    from ..finite import UNKNOWN as _UNK, Opaque as _Opq

    namer = repo.cls("ScaffoldNamer")
    mk = namer.methods.get("make_scaffold_name")
    label = namer.methods.get("label_scaffold")
    if mk is None or label is None:
        raise AnalysisError("anchors ScaffoldNamer.make_scaffold_name / label_scaffold vanished")
    mp = mk.params()
    env = {
        mp[2]: set(),
        f"{mp[1]}.fragment_tags()": set(),
        f"{mp[1]}.rows": [{"name": "INPUT_NAME"}],
        f"{mp[1]}.name": "Scaffold_7",
        "self.primary_haplotype": None,
        "self.haplotype_from_first_row_name(" + mp[1] + ")": None,
    }
    res = [r for r in run_paths(mk.node.body, env, loop_iters=(0,)) if r["path"].status != "raise"]

    def _r2_verdict(res_, keys_, want_, who_, what_):
        """every completing path of the probe must yield `want_`; one decided path yielding something else refutes; paths that
        differ under conditions the probe does not decide give no verdict"""
        gots = []
        for r_ in res_:
            g_ = tuple(r_["env"].get(k_) for k_ in keys_)
            if any(x is _UNK or isinstance(x, _Opq) for x in g_):
                raise AnalysisError(f"{who_}: {what_} is computed through a helper that constant propagation does not follow ({g_})")
            gots.append(g_)
        if gots and all(g_ == want_ for g_ in gots):
            return True, ""
        if len(res_) == 1 and not res_[0]["unknown_conds"]:
            return False, gots[0]
        if not res_:
            return False, "no completing path"
        raise AnalysisError(f"{who_}: {what_} depends on conditions the probe does not decide ({len(res_)} paths, results {sorted(set(map(repr, gots)))}): no verdict")

    ok2, got = _r2_verdict(res, ("self.current_scaffold_name", "self.current_rank", "self.current_haplotype"), ("INPUT_NAME", 3, None), mk.short, "the name / rank / haplotype of an untagged scaffold")
    why2 = f"an untagged, unpainted Pretext scaffold is named/ranked {got}, expected ('<name of its first row>', 3, None)"
    L.check(ok2, "R2", mk.short, "current name = first row's (input scaffold) name, rank 3, no haplotype", why2, mk.loc())
    lp = label.params()
    env = {
        f"{lp[2]}.tags": (),
        "self.target_tags": False,
        lp[3]: set(),
        lp[4]: "Scaffold_7",
        "self.current_scaffold_name": "INPUT_NAME",
        "self.current_rank": 3,
        "self.current_haplotype": None,
        f"{lp[1]}.tag": None,
    }
    res = [r for r in run_paths(label.node.body, env, loop_iters=(0,)) if r["path"].status != "raise"]
    ok2b, got = _r2_verdict(res, (f"{lp[1]}.name", f"{lp[1]}.rank", f"{lp[1]}.tag", f"{lp[1]}.haplotype"), ("INPUT_NAME", 3, None, None), label.short, "the labelling of an untagged piece")
    why2b = f"an untagged piece is labelled {got}, expected ('INPUT_NAME', 3, None, None)"
    L.check(ok2b, "R2", label.short, "piece labelled with the current name/rank, no tag", why2b, label.loc())

    # ---- R3 (shared rules)
    scf = repo.cls("Scaffold")
    app = scf.methods.get("append_scaffold")
    ok3 = False
    if app is not None:
        gp = next((p for p in app.params()[1:] if "gap" in p), None)
        ok3 = True
        for p in paths(app, (0, 1), exc_edges=False):
            rows_true = None
            adds = 0
            from ..flow import cond_facts

            for ev in p.events:
                if ev.kind == "cond":
                    for t, v in cond_facts(ev.node, ev.val):
                        if norm(t) == "self.rows":
                            rows_true = v
                if ev.kind == "stmt" and any(isinstance(c, ast.Call) and norm(c) in (f"self.add_row({gp})", f"self.rows.append({gp})") for c in [ev.node, *walk_shallow(ev.node)]):
                    adds += 1
            if adds and rows_true is not True:
                ok3 = False
    L.check(ok3, "R3", "Scaffold.append_scaffold", "no gap row when the receiving scaffold is empty (first/only piece)", "a gap row can be added in front of the first piece of a scaffold", app.loc() if app else "")
    from .shared import to_scaffold_orientation

    to_scaffold_orientation(repo, L, "R3")

    # ---- R4
    suspects = []
    naming = [namer, repo.cls("ChrNamer"), repo.cls("ChrGroup")]
    n_fn = 0
    for cls in naming:
        for f in cls.methods.values():
            n_fn += 1
            for n in walk_shallow(f.node):
                if isinstance(n, ast.Call) and isinstance(n.func, ast.Attribute):
                    if n.func.attr in ("add_row", "append_scaffold", "discard_start", "discard_end", "trim_fragment", "trim_large_overhangs", "reverse"):
                        suspects.append(f"{f.short}: {norm(n)[:50]}")
                    if n.func.attr in ("append", "pop", "insert", "remove", "extend", "clear", "sort") and norm(n.func.value).endswith(".rows"):
                        suspects.append(f"{f.short}: {norm(n)[:50]}")
                if isinstance(n, ast.Assign | ast.AugAssign | ast.Delete):
                    tg = n.targets if not isinstance(n, ast.AugAssign) else [n.target]
                    for t in tg:
                        if ".rows" in norm(t):
                            suspects.append(f"{f.short}: {norm(n)[:50]}")
    L.check(not suspects, "R4", "naming code", f"{n_fn} naming/ranking methods never touch rows", f"naming code changes scaffold content: {suspects[:2]}", namer.module.relpath)
    L.floor("R4", "naming methods scanned", n_fn, 15)

    # ---- R5
    ba = repo.cls("BuildAssembly")
    dof = ba.methods.get("discard_overhanging_fragments")
    cro = ba.methods.get("cut_remaining_overhangs")
    ok5 = False
    if dof is not None:
        wl = [n for n in dof.node.body if isinstance(n, ast.While)]
        pre = [n for n in dof.node.body if not isinstance(n, ast.While)]
        ok5 = len(wl) == 1 and (isinstance(wl[0].test, ast.Name) or norm(wl[0].test) == "self.fragments_found_more_than_once") and all(isinstance(n, ast.Assign | ast.Expr) and not any(isinstance(c, ast.Call) and isinstance(c.func, ast.Attribute) and c.func.attr in ("apply", "discard_start", "discard_end") for c in walk_shallow(n)) for n in pre)
        if ok5 and isinstance(wl[0].test, ast.Name):
            src = [norm(n.value) for n in pre if isinstance(n, ast.Assign) and is_name(n.targets[0], wl[0].test.id)]
            ok5 = src == ["self.fragments_found_more_than_once"]
    L.check(ok5, "R5", dof.short if dof else "discard_overhanging_fragments", "loop guarded by the (empty) shared map", "the resolve phase can act although no contig is shared", dof.loc() if dof else "")
    ok5b = False
    if cro is not None:
        loops = [n for n in cro.node.body if isinstance(n, ast.For)]
        others = [n for n in cro.node.body if not isinstance(n, ast.For | ast.Assign)]
        ok5b = len(loops) == 1 and norm(loops[0].iter).endswith(".values()") and not any(isinstance(c, ast.Call) and "cut_fragments" in norm(c) for n in others for c in walk_shallow(n))
    L.check(ok5b, "R5", cro.short if cro else "cut_remaining_overhangs", "cuts only contigs of the shared map", "the cut phase can act although no contig is shared", cro.loc() if cro else "")
    # ---- R6
    L.rule("R6", "re-added scaffold carries the input scaffold's name")
    addm = ba.methods.get("add_missing_scaffolds_from_input")
    if addm is None:
        raise AnalysisError("anchor BuildAssembly.add_missing_scaffolds_from_input vanished")
    ip = addm.params()[1]
    outer = [n for n in addm.node.body if isinstance(n, ast.For) and norm(n.iter) == f"{ip}.scaffolds" and isinstance(n.target, ast.Name)]
    if len(outer) != 1:
        raise AnalysisError("add_missing_scaffolds_from_input: loop over the input scaffolds not found")
    sv = outer[0].target.id
    ctors = [c for c in walk_shallow(outer[0]) if isinstance(c, ast.Call) and dotted(c.func) == "Scaffold"]
    if not ctors:
        raise AnalysisError("add_missing_scaffolds_from_input: no Scaffold(...) construction in the re-add loop")
    for c in ctors:
        a = c.args[0] if c.args else next((k.value for k in c.keywords if k.arg == "name"), None)
        L.check(
            a is not None and norm(a) == f"{sv}.name", "R6", f"{addm.short}:Scaffold(...)", "named after the input scaffold",
            f"a re-added scaffold is named '{norm(a) if a is not None else None}', not after the input scaffold ({sv}.name): sub-texel scaffolds missing from an unedited map come back under another name",
            addm.loc(c), witness={"input": "scaffold_4 = ctg6 + gap + ctg7, shorter than one texel", "expected name": "scaffold_4"},
        )
    renames = [n for n in walk_shallow(outer[0]) if isinstance(n, ast.Assign) and any(isinstance(t, ast.Attribute) and t.attr == "name" for t in n.targets)]
    L.check(not renames, "R6", f"{addm.short}:rename", "the name is not reassigned in the re-add loop", f"re-added scaffold renamed: {[norm(n)[:50] for n in renames[:1]]}", addm.loc())

    # ---- R7
    L.rule("R7", "junction collectors visit every scaffold with a fragment")
    from ..flow import PathEnum, cond_facts

    asm = repo.cls("Assembly")
    n7 = 0
    for name in ("fragment_junction_set", "fragment_junctions_by_asm_prefix"):
        f = asm.methods.get(name)
        if f is None:
            raise AnalysisError(f"anchor Assembly.{name} vanished")
        loops = [n for n in f.node.body if isinstance(n, ast.For) and norm(n.iter) == "self.scaffolds" and isinstance(n.target, ast.Name)]
        if len(loops) != 1:
            raise AnalysisError(f"Assembly.{name}: loop over self.scaffolds not found")
        lv = loops[0].target.id
        ok7, why7 = True, ""
        n_paths = 0
        early = [x for x in walk_shallow(loops[0]) if isinstance(x, ast.Break | ast.Return) and not any(isinstance(a_, ast.For | ast.While) and a_ is not loops[0] for a_ in _ancestors_upto(x, loops[0]))]
        if early:
            L.fail("R7", f"Assembly.{name}:early-exit", f"the loop over the scaffolds is left by '{norm(early[0])}' (line {early[0].lineno}): the junctions of every later scaffold are missing from this side of the comparison, so unchanged adjacencies are reported as joins", f.loc(early[0]), witness={"input": "a scaffold without contigs (gap-only object) listed before the others"})
            continue
        for p in PathEnum((0, 1), exc_edges=False).block(loops[0].body):
            n_paths += 1
            got = [
                n for e in p.events if e.kind == "stmt" for n in [e.node, *walk_shallow(e.node)]
                if isinstance(n, ast.Call) and isinstance(n.func, ast.Attribute) and n.func.attr == "fragment_junction_set" and is_name(n.func.value, lv)
            ]
            if got:
                continue
            # a path that collects nothing is fine only for a scaffold known to be empty
            empty = any(norm(t).replace(" ", "") in (f"{lv}.rows", f"len({lv}.rows)") and v is False for e in p.events if e.kind == "cond" for t, v in cond_facts(e.node, e.val))
            # ... or known to have no fragment: `first = next(<lv>.fragments(), None)` came back None
            for e in p.events:
                if e.kind == "cond":
                    for t, v in cond_facts(e.node, e.val):
                        if isinstance(t, ast.Compare) and len(t.ops) == 1 and isinstance(t.left, ast.Name) and isinstance(t.comparators[0], ast.Constant) and t.comparators[0].value is None:
                            is_none = v if isinstance(t.ops[0], ast.Is) else (not v) if isinstance(t.ops[0], ast.IsNot) else None
                            defs = [s_.value for s_ in walk_shallow(loops[0]) if isinstance(s_, ast.Assign) and is_name(s_.targets[0], t.left.id)]
                            if is_none and len(defs) == 1 and norm(defs[0]).replace(" ", "") == f"next({lv}.fragments(),None)":
                                empty = True
            if not empty:
                conds = [f"{norm(e.node)[:40]} is {e.val}" for e in p.events if e.kind == "cond"]
                ok7, why7 = False, f"scaffolds are skipped when {' and '.join(conds) or 'always'}: their junctions are missing from this side of the comparison, so an unedited map is reported with joins/breaks"
        n7 += n_paths
        L.check(ok7, "R7", f"Assembly.{name}", "every scaffold's fragment_junction_set() is collected", why7, f.loc(), witness={"input": "a scaffold of exactly two abutting contigs and no gap row"})
    L.floor("R7", "collector loop paths", n7, 2)
    L.assume("bait differs from the scaffold span by less than one texel plus integer rounding at each end (overhangs <= error_length)")


def _ancestors_upto(node, stop):
    out = []
    cur = getattr(node, "_parent", None)
    while cur is not None and cur is not stop:
        out.append(cur)
        cur = getattr(cur, "_parent", None)
    return out
