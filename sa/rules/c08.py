"""C08 — an unedited Pretext map reproduces the input assembly (structural clauses only).

Identity of output and input under texel rounding is a statement about runtime lengths; what is
decided here are the clauses in the shape of the code that the identity needs:

 R1 a lookup result whose overhangs are both smaller than the error length is not trimmed
    (a bait that falls short of / overshoots the scaffold end by less than one texel keeps all rows)
 R2 an unpainted, untagged Pretext scaffold keeps the input name (name of its first row), rank 3, no tag;
    its pieces are labelled with exactly that
 R3 a single piece per name is fused without any gap row and, for a forward bait, without reversal
 R4 naming / ranking code never touches rows (painting changes only names and order)
 R5 with no contig shared between results the resolve and cut phases do nothing
"""

from __future__ import annotations

import ast

from ..finite import run_paths
from ..model import AnalysisError, Func, Repo, dotted, is_name, norm, walk_shallow
from ..report import Ledger
from ..sym import B, Const, GhostList, Lin, State, Sym, SymExec, as_lin
from ..util import paths

PROP = "C08"
LEVEL = "other"
EXPLANATION = (
    "Only structural clauses of C08 are claimed: trim_large_overhangs is interpreted abstractly under the assumption that "
    "both overhangs are at most error_length − 1 (what a whole-scaffold bait rounded to the texel grid produces) and must not "
    "remove a row on any path; the namer is evaluated by constant propagation for an untagged, unpainted scaffold (input name, "
    "rank 3, no tag); fusing a single piece adds no gap and does not reverse a forward bait (shared rules of C07/C14); the naming "
    "code is scanned for row mutation; the resolve/cut phases are no-ops on an empty shared map. Equality of whole outputs under "
    "texel rounding and the zero statistics are runtime facts that follow from these clauses plus C01/C12/C18 and are not decided."
)
LEVEL_NOTE = (
    "Claims only the clauses R1–R5 named in the module docstring (necessary conditions of the identity); the identity itself over "
    "all texel sizes is outside static reach (DESIGN.md section 6). Assumption of R1: overhangs <= error_length − 1, i.e. the bait "
    "differs from the scaffold span by less than one texel at each end."
)


def run(repo: Repo, L: Ledger, tier: str):
    L.rule("R1", "overhangs <= error_length - 1  =>  trim_large_overhangs removes nothing")
    L.rule("R2", "unpainted, untagged scaffold: input name, rank 3, no tag")
    L.rule("R3", "single piece: no gap row, forward bait not reversed")
    L.rule("R4", "naming code never mutates rows")
    L.rule("R5", "empty shared map: resolve and cut phases do nothing")

    ovr = repo.cls("OverlapResult")
    frag = repo.cls("Fragment")
    tlo = ovr.methods.get("trim_large_overhangs")
    if tlo is None:
        raise AnalysisError("anchor OverlapResult.trim_large_overhangs vanished")

    # ---- R1
    ex = SymExec(repo, loop_iters=(0, 1, 2))
    st = State()
    g = GhostList("rows")
    st.heap[("self", "rows")] = g
    S, E = Lin.atom("S"), Lin.atom("E")
    st.heap[("self", "start")] = S
    st.heap[("self", "end")] = E
    st.heap[("self", "bait")] = Sym("bait", frag)
    bs, be = Lin.atom("bait._start"), Lin.atom("bait._end")
    err = Lin.atom("err")
    # start_overhang = bs - S <= err - 1 ; end_overhang = E - be <= err - 1 ; err >= 1
    st.pc.append(B("le", (bs - S) - (err - 1)))
    st.pc.append(B("le", (E - be) - (err - 1)))
    st.pc.append(B("le", Lin.const(1) - err))
    ps = tlo.params()
    finals = ex.run_function(tlo, st, {ps[0]: Sym("self", ovr), ps[1]: err})
    if not finals:
        raise AnalysisError("trim_large_overhangs: no completing path under the sub-texel assumption")
    bad = None
    for r in finals:
        gl = r.heap[("self", "rows")]
        if gl.log or as_lin(r.heap[("self", "start")]) != S or as_lin(r.heap[("self", "end")]) != E:
            bad = r
    L.check(
        bad is None, "R1", tlo.short,
        f"no row removed and span unchanged on all {len(finals)} feasible paths",
        f"with both overhangs below the error length a path still removes a row or moves the span ({bad.path.describe() if bad is not None and bad.path else ''}): a whole-scaffold bait rounded to the texel grid loses its terminal contig, so an unedited map no longer reproduces the input",
        tlo.loc(), witness={"start_overhang": "<= error_length - 1", "end_overhang": "<= error_length - 1"},
    )

    # ---- R2
    namer = repo.cls("ScaffoldNamer")
    mk = namer.methods.get("make_scaffold_name")
    label = namer.methods.get("label_scaffold")
    if mk is None or label is None:
        raise AnalysisError("anchors ScaffoldNamer.make_scaffold_name / label_scaffold vanished")
    mp = mk.params()
    env = {
        mp[2]: set(),
        f"{mp[1]}.fragment_tags()": set(),
        f"{mp[1]}.rows": [{"name": "INPUT_NAME"}],
        f"{mp[1]}.name": "Scaffold_7",
        "self.primary_haplotype": None,
        "self.haplotype_from_first_row_name(" + mp[1] + ")": None,
    }
    res = [r for r in run_paths(mk.node.body, env, loop_iters=(0,)) if r["path"].status != "raise"]
    ok2, why2 = len(res) == 1 and not res[0]["unknown_conds"], f"{len(res)} feasible paths for an untagged scaffold"
    if ok2:
        e = res[0]["env"]
        got = (e.get("self.current_scaffold_name"), e.get("self.current_rank"), e.get("self.current_haplotype"))
        ok2 = got == ("INPUT_NAME", 3, None)
        why2 = f"an untagged, unpainted Pretext scaffold is named/ranked {got}, expected ('<name of its first row>', 3, None)"
    L.check(ok2, "R2", mk.short, "current name = first row's (input scaffold) name, rank 3, no haplotype", why2, mk.loc())
    lp = label.params()
    env = {
        f"{lp[2]}.tags": (),
        "self.target_tags": False,
        lp[3]: set(),
        lp[4]: "Scaffold_7",
        "self.current_scaffold_name": "INPUT_NAME",
        "self.current_rank": 3,
        "self.current_haplotype": None,
        f"{lp[1]}.tag": None,
    }
    res = [r for r in run_paths(label.node.body, env, loop_iters=(0,)) if r["path"].status != "raise"]
    ok2b, why2b = len(res) == 1 and not res[0]["unknown_conds"], "label_scaffold: undecided for an untagged piece"
    if ok2b:
        e = res[0]["env"]
        got = (e.get(f"{lp[1]}.name"), e.get(f"{lp[1]}.rank"), e.get(f"{lp[1]}.tag"), e.get(f"{lp[1]}.haplotype"))
        ok2b = got == ("INPUT_NAME", 3, None, None)
        why2b = f"an untagged piece is labelled {got}, expected ('INPUT_NAME', 3, None, None)"
    L.check(ok2b, "R2", label.short, "piece labelled with the current name/rank, no tag", why2b, label.loc())

    # ---- R3 (shared rules)
    scf = repo.cls("Scaffold")
    app = scf.methods.get("append_scaffold")
    ok3 = False
    if app is not None:
        gp = next((p for p in app.params()[1:] if "gap" in p), None)
        ok3 = True
        for p in paths(app, (0, 1), exc_edges=False):
            rows_true = None
            adds = 0
            from ..flow import cond_facts

            for ev in p.events:
                if ev.kind == "cond":
                    for t, v in cond_facts(ev.node, ev.val):
                        if norm(t) == "self.rows":
                            rows_true = v
                if ev.kind == "stmt" and any(isinstance(c, ast.Call) and norm(c) in (f"self.add_row({gp})", f"self.rows.append({gp})") for c in [ev.node, *walk_shallow(ev.node)]):
                    adds += 1
            if adds and rows_true is not True:
                ok3 = False
    L.check(ok3, "R3", "Scaffold.append_scaffold", "no gap row when the receiving scaffold is empty (first/only piece)", "a gap row can be added in front of the first piece of a scaffold", app.loc() if app else "")
    from .shared import to_scaffold_orientation

    to_scaffold_orientation(repo, L, "R3")

    # ---- R4
    suspects = []
    naming = [namer, repo.cls("ChrNamer"), repo.cls("ChrGroup")]
    n_fn = 0
    for cls in naming:
        for f in cls.methods.values():
            n_fn += 1
            for n in walk_shallow(f.node):
                if isinstance(n, ast.Call) and isinstance(n.func, ast.Attribute):
                    if n.func.attr in ("add_row", "append_scaffold", "discard_start", "discard_end", "trim_fragment", "trim_large_overhangs", "reverse"):
                        suspects.append(f"{f.short}: {norm(n)[:50]}")
                    if n.func.attr in ("append", "pop", "insert", "remove", "extend", "clear", "sort") and norm(n.func.value).endswith(".rows"):
                        suspects.append(f"{f.short}: {norm(n)[:50]}")
                if isinstance(n, ast.Assign | ast.AugAssign | ast.Delete):
                    tg = n.targets if not isinstance(n, ast.AugAssign) else [n.target]
                    for t in tg:
                        if ".rows" in norm(t):
                            suspects.append(f"{f.short}: {norm(n)[:50]}")
    L.check(not suspects, "R4", "naming code", f"{n_fn} naming/ranking methods never touch rows", f"naming code changes scaffold content: {suspects[:2]}", namer.module.relpath)
    L.floor("R4", "naming methods scanned", n_fn, 15)

    # ---- R5
    ba = repo.cls("BuildAssembly")
    dof = ba.methods.get("discard_overhanging_fragments")
    cro = ba.methods.get("cut_remaining_overhangs")
    ok5 = False
    if dof is not None:
        wl = [n for n in dof.node.body if isinstance(n, ast.While)]
        pre = [n for n in dof.node.body if not isinstance(n, ast.While)]
        ok5 = len(wl) == 1 and isinstance(wl[0].test, ast.Name) and all(isinstance(n, ast.Assign | ast.Expr) and not any(isinstance(c, ast.Call) and isinstance(c.func, ast.Attribute) and c.func.attr in ("apply", "discard_start", "discard_end") for c in walk_shallow(n)) for n in pre)
        if ok5:
            src = [norm(n.value) for n in pre if isinstance(n, ast.Assign) and is_name(n.targets[0], wl[0].test.id)]
            ok5 = src == ["self.fragments_found_more_than_once"]
    L.check(ok5, "R5", dof.short if dof else "discard_overhanging_fragments", "loop guarded by the (empty) shared map", "the resolve phase can act although no contig is shared", dof.loc() if dof else "")
    ok5b = False
    if cro is not None:
        loops = [n for n in cro.node.body if isinstance(n, ast.For)]
        others = [n for n in cro.node.body if not isinstance(n, ast.For | ast.Assign)]
        ok5b = len(loops) == 1 and norm(loops[0].iter).endswith(".values()") and not any(isinstance(c, ast.Call) and "cut_fragments" in norm(c) for n in others for c in walk_shallow(n))
    L.check(ok5b, "R5", cro.short if cro else "cut_remaining_overhangs", "cuts only contigs of the shared map", "the cut phase can act although no contig is shared", cro.loc() if cro else "")
    L.assume("bait differs from the scaffold span by less than one texel at each end (overhangs <= error_length - 1)")
