"""Analyses shared by several properties (C03, C13, C14): the FASTA chunk generators."""

from __future__ import annotations

import ast

from ..model import AnalysisError, Func, Repo, dotted, norm, walk_shallow
from ..report import Ledger
from ..sym import Const, Lin, Range, State, Sym, SymExec, as_lin, opaque, NotNumeric

_cache = {}


class _ChunkExec(SymExec):
    """Runs a chunk generator with the loop variable bound to the symbol I."""

    def __init__(self, repo):
        super().__init__(repo, loop_iters=(1,))
        self.ranges = []

    def inline(self, func):
        return False

    def iter_element(self, st, node, itv, n, func, depth):
        if isinstance(itv, Range):
            self.ranges.append(itv)
            return Lin.atom("I")
        return super().iter_element(st, node, itv, n, func, depth)


def analyse_chunker(repo: Repo, f: Func):
    """-> dict(range=(lo, hi, step), fetch_args=[...], wrapped_in=[callee names], B=Lin, yields=n)"""
    key = (repo.digest(), f.qualname)
    if key in _cache:
        return _cache[key]
    ex = _ChunkExec(repo)
    st = State()
    ps = f.params()
    args = {ps[0]: Sym("self", f.cls)}
    for p in ps[1:]:
        args[p] = Sym(p)
    st.heap[("self", "buffer_size")] = Lin.atom("B")
    finals = ex.run_function(f, st, args)
    if len(finals) != 1:
        raise AnalysisError(f"{f.short}: {len(finals)} paths with one loop iteration (expected 1)")
    r = finals[0]
    ys = [e for e in r.effects if e[0] == "yield"]
    calls = [e for e in r.effects if e[0] == "call"]
    if len(ex.ranges) != 1:
        raise AnalysisError(f"{f.short}: expected one range loop, found {len(ex.ranges)}")
    lo, hi, step = ex.ranges[0].bounds()
    out = {
        "func": f,
        "range": (as_lin(lo), as_lin(hi), as_lin(step)),
        "yields": ys,
        "calls": calls,
        "state": r,
    }
    _cache[key] = out
    return out


def fetch_call(info):
    """The byte-fetch call (callee named sequence_bytes or resolved to it) of a chunker."""
    for kind, node, (name, args, kwargs, targets) in info["calls"]:
        if any(t.endswith(".sequence_bytes") for t in targets) or (name or "").endswith("sequence_bytes"):
            return node, args
    return None, None


def chunk_spec():
    start, end, B, I = Lin.atom("start"), Lin.atom("end"), Lin.atom("B"), Lin.atom("I")
    cs = start + I * B
    ce = opaque("min", end, cs + B - 1)
    q = opaque("fdiv", end - start, B)
    return cs, ce, q


def chunker_siblings(repo: Repo, L: Ledger, rule: str):
    """fwd_chunks / rev_chunks: same index set {0..(end-start)//B}, same chunk bounds as
    functions of the index, opposite order, only the reverse one reverse-complements."""
    cls = repo.cls("FastaIndex")
    fwd, rev = cls.methods.get("fwd_chunks"), cls.methods.get("rev_chunks")
    if fwd is None or rev is None:
        raise AnalysisError("anchors FastaIndex.fwd_chunks / rev_chunks vanished")
    fi, ri = analyse_chunker(repo, fwd), analyse_chunker(repo, rev)
    cs, ce, q = chunk_spec()
    for name, f, info in (("fwd", fwd, fi), ("rev", rev, ri)):
        node, args = fetch_call(info)
        if node is None:
            L.fail(rule, f.short, "chunk generator does not fetch its bytes through sequence_bytes", f.loc())
            continue
        try:
            a_s, a_e = as_lin(args[-2]), as_lin(args[-1])
        except (NotNumeric, IndexError):
            L.fail(rule, f.short, "chunk bounds passed to sequence_bytes are not integer forms", f.loc(node))
            continue
        L.check(a_s == cs, rule, f"{f.short}:chunk_start", "chunk_start == start + i*B", f"chunk start is {a_s}, expected start + i*buffer_size", f.loc(node))
        L.check(a_e == ce, rule, f"{f.short}:chunk_end", "chunk_end == min(end, chunk_start + B - 1)", f"chunk end is {a_e}, expected min(end, chunk_start + buffer_size - 1)", f.loc(node))
        lo, hi, step = info["range"]
        if name == "fwd":
            ok = lo == Lin.const(0) and hi == q + 1 and step == Lin.const(1)
            L.check(ok, rule, f"{f.short}:range", "i = 0, 1, …, (end-start)//B ascending", f"forward chunk index runs over range({lo}, {hi}, {step}), expected range(0, (end-start)//B + 1)", f.loc())
        else:
            ok = lo == q and hi == Lin.const(-1) and step == Lin.const(-1)
            L.check(ok, rule, f"{f.short}:range", "i = (end-start)//B, …, 1, 0 descending", f"reverse chunk index runs over range({lo}, {hi}, {step}), expected range((end-start)//B, -1, -1)", f.loc())
        # what is yielded
        ys = info["yields"]
        if len(ys) != 1:
            L.fail(rule, f.short, f"{len(ys)} yields per iteration (expected one chunk)", f.loc())
            continue
        yv = ys[0][2]
        wrapped = []
        ycall = ys[0][1].value
        e = ycall
        while isinstance(e, ast.Call) and not (dotted(e.func) or "").endswith("sequence_bytes"):
            wrapped.append(dotted(e.func) or norm(e.func))
            e = e.args[0] if e.args else None
        is_fetch = isinstance(e, ast.Call) and (dotted(e.func) or "").endswith("sequence_bytes")
        if name == "fwd":
            L.check(is_fetch and not wrapped, rule, f"{f.short}:yield", "yields the fetched chunk unchanged", f"forward chunker yields '{norm(ycall)}' (wrappers {wrapped})", f.loc(ycall))
        else:
            L.check(is_fetch and wrapped == ["revcomp_bytes_io"], rule, f"{f.short}:yield", "yields the reverse complement of each fetched chunk", f"reverse chunker yields '{norm(ycall)}' (wrappers {wrapped}); each chunk must be reverse-complemented exactly once", f.loc(ycall))


def gap_iter_exact(repo: Repo, L: Ledger, rule: str):
    """get_gap_iter renders a gap of `length` as exactly `length` characters for every buffer size:
    chunk i holds [i·B, min(length, i·B + B)) (0-based half-open, sizes telescope) and the index runs
    over a range that covers ⌈length/B⌉ chunks (an extra empty chunk is harmless)."""
    fi = repo.cls("FastaIndex")
    g = fi.methods.get("get_gap_iter")
    if g is None:
        raise AnalysisError("anchor FastaIndex.get_gap_iter vanished")
    ex = _ChunkExec(repo)
    st = State()
    st.heap[("self", "buffer_size")] = Lin.atom("B")
    st.heap[("gap", "length")] = Lin.atom("G")
    ps = g.params()
    args = {ps[0]: Sym("self", fi), ps[1]: Sym("gap")}
    for p in ps[2:]:
        args[p] = Sym(p)
    finals = ex.run_function(g, st, args)
    if len(finals) != 1 or len(ex.ranges) != 1:
        raise AnalysisError("get_gap_iter: expected one path with one range loop")
    r = finals[0]
    ys = [e for e in r.effects if e[0] == "yield"]
    if len(ys) != 1:
        L.fail(rule, g.short, f"{len(ys)} yields per iteration", g.loc())
        return
    yn = ys[0][1].value
    mult = [n for n in ast.walk(yn) if isinstance(n, ast.BinOp) and isinstance(n.op, ast.Mult)]
    if len(mult) != 1:
        L.fail(rule, g.short, f"gap chunk '{norm(yn)}' is not <character> * <count>", g.loc())
        return
    stt = State()
    stt.env = r.callee_env
    stt.heap = r.heap
    cnt = None
    for side in (mult[0].right, mult[0].left):
        v = ex.eval(side, stt, g)
        if isinstance(v, Lin) and v.t:
            cnt = v
            break
    if cnt is None:
        raise AnalysisError("gap chunk repeat count is not an integer form")
    B, G, I = Lin.atom("B"), Lin.atom("G"), Lin.atom("I")
    want = opaque("min", G, I * B + B) - I * B
    L.check(cnt == want, rule, g.short + ":chunk", "chunk i holds min(length, i·B + B) − i·B characters (half-open tiling)", f"gap chunk i holds {cnt} characters, expected min(length, i·B + B) − i·B: consecutive chunks do not tile the gap, so a gap of at least one buffer is rendered with the wrong number of N (record shorter/longer than its AGP object)", g.loc(yn), witness={"gap": "length = 2·buffer_size", "rendered": "one character short per full chunk"})
    lo, hi, step = (as_lin(x) for x in ex.ranges[0].bounds())
    q = opaque("fdiv", G, B)
    q2 = opaque("fdiv", G + B - 1, B)
    ok = lo == Lin.const(0) and step == Lin.const(1) and (hi == q + 1 or hi == q2)
    L.check(ok, rule, g.short + ":range", "i = 0 … ⌈length/B⌉ − 1 (or one extra empty chunk)", f"gap chunk index runs over range({lo}, {hi}, {step}); expected range(0, 1 + length//B) (or ceil(length/B))", g.loc())


def to_scaffold_orientation(repo: Repo, L: Ledger, rule: str):
    """OverlapResult.to_scaffold returns the reversed scaffold exactly when the bait strand is -1
    (decided by folding the function's conditions for strand in {1, -1, 0})."""
    from ..finite import run_paths

    ovr = repo.cls("OverlapResult")
    ts = ovr.methods.get("to_scaffold")
    if ts is None:
        raise AnalysisError("anchor OverlapResult.to_scaffold vanished")
    ok, why = True, ""
    for strand in (1, -1, 0):
        res = [r for r in run_paths(ts.node.body, {"self.bait.strand": strand}, loop_iters=(0,)) if r["path"].status == "return"]
        if len(res) != 1 or res[0]["unknown_conds"]:
            raise AnalysisError(f"to_scaffold: orientation not decided by the bait strand alone (strand {strand}: {len(res)} paths)")
        rv = [e.node for e in res[0]["path"].events if e.kind == "return"][0].value
        reverses = isinstance(rv, ast.Call) and isinstance(rv.func, ast.Attribute) and rv.func.attr == "reverse"
        if isinstance(rv, ast.IfExp):
            raise AnalysisError("to_scaffold: conditional expression in return not folded")
        if reverses != (strand == -1):
            ok, why = False, f"with bait strand {strand} the fused piece is {'reversed' if reverses else 'not reversed'} (must be reversed exactly for -1; unknown strand streams forward)"
    L.check(ok, rule, ts.short, "reversed exactly when the bait is on the minus strand", why, ts.loc())
    ctor = [n for n in walk_shallow(ts.node) if isinstance(n, ast.Call) and dotted(n.func) == "Scaffold"]
    ok2 = len(ctor) == 1 and any(norm(a) == "self.rows" for a in [*ctor[0].args, *[k.value for k in ctor[0].keywords]])
    L.check(ok2, rule, ts.short + ":rows", "scaffold built from all rows of the result", "to_scaffold does not pass all rows of the overlap result", ts.loc())
