"""Analyses shared by several properties (C03, C13, C14): the FASTA chunk generators."""

from __future__ import annotations

import ast

from ..model import AnalysisError, Func, Repo, dotted, is_name, norm, walk_shallow
from ..report import Ledger
from ..sym import Const, Lin, Range, State, Sym, SymExec, as_lin, opaque, NotNumeric

_cache = {}


class _ChunkExec(SymExec):
    """Runs a chunk generator with the loop variable bound to the symbol I."""

    def __init__(self, repo):
        super().__init__(repo, loop_iters=(1,))
        self.ranges = []

    def inline(self, func):
        return False

    def iter_element(self, st, node, itv, n, func, depth):
        if isinstance(itv, Range):
            self.ranges.append(itv)
            return Lin.atom("I")
        return super().iter_element(st, node, itv, n, func, depth)


def analyse_chunker(repo: Repo, f: Func):
    """-> dict(range=(lo, hi, step), fetch_args=[...], wrapped_in=[callee names], B=Lin, yields=n)"""
    key = (repo.digest(), f.qualname)
    if key in _cache:
        return _cache[key]
    ex = _ChunkExec(repo)
    st = State()
    ps = f.params()
    args = {ps[0]: Sym("self", f.cls)}
    for p in ps[1:]:
        args[p] = Sym(p)
    st.heap[("self", "buffer_size")] = Lin.atom("B")
    finals = ex.run_function(f, st, args)
    if len(finals) != 1:
        raise AnalysisError(f"{f.short}: {len(finals)} paths with one loop iteration (expected 1)")
    r = finals[0]
    ys = [e for e in r.effects if e[0] == "yield"]
    calls = [e for e in r.effects if e[0] == "call"]
    if len(ex.ranges) != 1:
        raise AnalysisError(f"{f.short}: expected one range loop, found {len(ex.ranges)}")
    lo, hi, step = ex.ranges[0].bounds()
    out = {
        "func": f,
        "range": (as_lin(lo), as_lin(hi), as_lin(step)),
        "yields": ys,
        "calls": calls,
        "state": r,
    }
    _cache[key] = out
    return out


def fetch_call(info):
    """The byte-fetch call (callee named sequence_bytes or resolved to it) of a chunker."""
    for kind, node, (name, args, kwargs, targets) in info["calls"]:
        if any(t.endswith(".sequence_bytes") for t in targets) or (name or "").endswith("sequence_bytes"):
            return node, args
    return None, None


def chunk_spec():
    start, end, B, I = Lin.atom("start"), Lin.atom("end"), Lin.atom("B"), Lin.atom("I")
    cs = start + I * B
    ce = opaque("min", end, cs + B - 1)
    q = opaque("fdiv", end - start, B)
    return cs, ce, q


def chunker_siblings(repo: Repo, L: Ledger, rule: str):
    """fwd_chunks / rev_chunks: same index set {0..(end-start)//B}, same chunk bounds as
    functions of the index, opposite order, only the reverse one reverse-complements."""
    cls = repo.cls("FastaIndex")
    fwd, rev = cls.methods.get("fwd_chunks"), cls.methods.get("rev_chunks")
    if fwd is None or rev is None:
        raise AnalysisError("anchors FastaIndex.fwd_chunks / rev_chunks vanished")
    fi, ri = analyse_chunker(repo, fwd), analyse_chunker(repo, rev)
    cs, ce, q = chunk_spec()
    for name, f, info in (("fwd", fwd, fi), ("rev", rev, ri)):
        node, args = fetch_call(info)
        if node is None:
            L.fail(rule, f.short, "chunk generator does not fetch its bytes through sequence_bytes", f.loc())
            continue
        try:
            a_s, a_e = as_lin(args[-2]), as_lin(args[-1])
        except (NotNumeric, IndexError):
            raise AnalysisError(f"{f.short}: the chunk bounds passed to sequence_bytes ({', '.join(repr(x)[:40] for x in args[-2:])}) are not linear integer forms the chunk arithmetic can be compared with: no verdict")
        L.check(a_s == cs, rule, f"{f.short}:chunk_start", "chunk_start == start + i*B", f"chunk start is {a_s}, expected start + i*buffer_size", f.loc(node))
        L.check(a_e == ce, rule, f"{f.short}:chunk_end", "chunk_end == min(end, chunk_start + B - 1)", f"chunk end is {a_e}, expected min(end, chunk_start + buffer_size - 1)", f.loc(node))
        lo, hi, step = info["range"]
        # two-loop form: the range loop fills a container of chunk bounds, a second loop yields from it
        # (for the reverse chunker from reversed(container)): the effective order is what counts
        flipped = False
        if info["yields"]:
            from ..util import ancestors as _anc

            yl = next((a for a in _anc(info["yields"][0][1]) if isinstance(a, ast.For)), None)
            if yl is not None and not (isinstance(yl.iter, ast.Call) and dotted(yl.iter.func) == "range"):
                it = yl.iter
                if isinstance(it, ast.Call) and dotted(it.func) == "reversed" and len(it.args) == 1 and isinstance(it.args[0], ast.Name):
                    flipped = True
                elif not isinstance(it, ast.Name):
                    raise AnalysisError(f"{f.short}: chunks are yielded from a loop over '{norm(it)[:50]}': order not understood")
        if flipped:
            # ascending 0..q reversed == descending q..0 and vice versa
            if step == Lin.const(1) and lo == Lin.const(0):
                lo, hi, step = hi - 1, Lin.const(-1), Lin.const(-1)
            elif step == Lin.const(-1) and hi == Lin.const(-1):
                lo, hi, step = Lin.const(0), lo + 1, Lin.const(1)
            else:
                raise AnalysisError(f"{f.short}: reversed() over a range({lo}, {hi}, {step}) container: order not understood")
        if name == "fwd":
            ok = lo == Lin.const(0) and hi == q + 1 and step == Lin.const(1)
            L.check(ok, rule, f"{f.short}:range", "i = 0, 1, …, (end-start)//B ascending", f"forward chunk index runs over range({lo}, {hi}, {step}), expected range(0, (end-start)//B + 1)", f.loc())
        else:
            ok = lo == q and hi == Lin.const(-1) and step == Lin.const(-1)
            L.check(ok, rule, f"{f.short}:range", "i = (end-start)//B, …, 1, 0 descending", f"reverse chunk index runs over range({lo}, {hi}, {step}), expected range((end-start)//B, -1, -1)", f.loc())
        # what is yielded
        ys = info["yields"]
        if len(ys) != 1:
            L.fail(rule, f.short, f"{len(ys)} yields per iteration (expected one chunk)", f.loc())
            continue
        yv = ys[0][2]
        wrapped = []
        ycall = ys[0][1].value
        e = ycall
        while isinstance(e, ast.Call) and not (dotted(e.func) or "").endswith("sequence_bytes"):
            wrapped.append(dotted(e.func) or norm(e.func))
            e = e.args[0] if e.args else None
        is_fetch = isinstance(e, ast.Call) and (dotted(e.func) or "").endswith("sequence_bytes")
        if name == "fwd":
            L.check(is_fetch and not wrapped, rule, f"{f.short}:yield", "yields the fetched chunk unchanged", f"forward chunker yields '{norm(ycall)}' (wrappers {wrapped})", f.loc(ycall))
        else:
            L.check(is_fetch and wrapped == ["revcomp_bytes_io"], rule, f"{f.short}:yield", "yields the reverse complement of each fetched chunk", f"reverse chunker yields '{norm(ycall)}' (wrappers {wrapped}); each chunk must be reverse-complemented exactly once", f.loc(ycall))


def gap_iter_exact(repo: Repo, L: Ledger, rule: str):
    """get_gap_iter renders a gap of `length` as exactly `length` characters for every buffer size:
    chunk i holds [i·B, min(length, i·B + B)) (0-based half-open, sizes telescope) and the index runs
    over a range that covers ⌈length/B⌉ chunks (an extra empty chunk is harmless)."""
    fi = repo.cls("FastaIndex")
    g = fi.methods.get("get_gap_iter")
    if g is None:
        raise AnalysisError("anchor FastaIndex.get_gap_iter vanished")
    ex = _ChunkExec(repo)
    st = State()
    st.heap[("self", "buffer_size")] = Lin.atom("B")
    st.heap[("gap", "length")] = Lin.atom("G")
    ps = g.params()
    args = {ps[0]: Sym("self", fi), ps[1]: Sym("gap")}
    for p in ps[2:]:
        args[p] = Sym(p)
    finals = ex.run_function(g, st, args)
    if len(finals) != 1 or len(ex.ranges) != 1:
        raise AnalysisError("get_gap_iter: expected one path with one range loop")
    r = finals[0]
    ys = [e for e in r.effects if e[0] == "yield"]
    if len(ys) != 1:
        L.fail(rule, g.short, f"{len(ys)} yields per iteration", g.loc())
        return
    yn = ys[0][1].value
    mult = [n for n in ast.walk(yn) if isinstance(n, ast.BinOp) and isinstance(n.op, ast.Mult)]
    if len(mult) != 1:
        raise AnalysisError(f"{g.short}: gap chunk '{norm(yn)[:60]}' is not written as <character> * <count>: form not understood")
    stt = State()
    stt.env = r.callee_env
    stt.heap = r.heap
    cnt = None
    for side in (mult[0].right, mult[0].left):
        v = ex.eval(side, stt, g)
        if isinstance(v, Lin) and v.t:
            cnt = v
            break
    if cnt is None:
        raise AnalysisError("gap chunk repeat count is not an integer form")
    B, G, I = Lin.atom("B"), Lin.atom("G"), Lin.atom("I")
    want = opaque("min", G, I * B + B) - I * B
    from ..sym import lin_equiv

    # equality of the two forms for every buffer size B >= 1, gap length G >= 0 and chunk index 0 <= i <= G // B:
    # proved by case analysis on the min/max terms, or refuted by a concrete (B, G, i)
    verdict, wit = lin_equiv(cnt, want, domain={"B": range(1, 6), "G": range(0, 14), "I": range(0, 5)}, constraints=[I * B - G])
    if verdict is None:
        raise AnalysisError(f"get_gap_iter: the chunk size {cnt} could neither be shown equal to min(length, i·B + B) − i·B nor refuted")
    same = verdict is True or verdict == "grid"
    L.check(same, rule, g.short + ":chunk", "chunk i holds min(length, i·B + B) − i·B characters (half-open tiling)", f"gap chunk i holds {cnt} characters, expected min(length, i·B + B) − i·B: consecutive chunks do not tile the gap, so a gap of at least one buffer is rendered with the wrong number of N (record shorter/longer than its AGP object)", g.loc(yn), witness=({"buffer_size": wit.get("B"), "gap length": wit.get("G"), "chunk index": wit.get("I")} if wit else {"gap": "length = 2·buffer_size"}))
    lo, hi, step = (as_lin(x) for x in ex.ranges[0].bounds())
    q = opaque("fdiv", G, B)
    q2 = opaque("fdiv", G + B - 1, B)
    ok = lo == Lin.const(0) and step == Lin.const(1) and (hi == q + 1 or hi == q2)
    L.check(ok, rule, g.short + ":range", "i = 0 … ⌈length/B⌉ − 1 (or one extra empty chunk)", f"gap chunk index runs over range({lo}, {hi}, {step}); expected range(0, 1 + length//B) (or ceil(length/B))", g.loc())


def to_scaffold_orientation(repo: Repo, L: Ledger, rule: str):
    """OverlapResult.to_scaffold returns the reversed scaffold exactly when the bait strand is -1
    (decided by folding the function's conditions for strand in {1, -1, 0})."""
    from ..finite import run_paths

    ovr = repo.cls("OverlapResult")
    ts = ovr.methods.get("to_scaffold")
    if ts is None:
        raise AnalysisError("anchor OverlapResult.to_scaffold vanished")
    ok, why = True, ""
    for strand in (1, -1, 0):
        res = [r for r in run_paths(ts.node.body, {"self.bait.strand": strand}, loop_iters=(0,)) if r["path"].status == "return"]
        if len(res) != 1 or res[0]["unknown_conds"]:
            raise AnalysisError(f"to_scaffold: orientation not decided by the bait strand alone (strand {strand}: {len(res)} paths)")
        rv = [e.node for e in res[0]["path"].events if e.kind == "return"][0].value
        if isinstance(rv, ast.IfExp):
            raise AnalysisError("to_scaffold: conditional expression in return not folded")
        # number of .reverse() applications on the value that is returned, along this path
        revs = {}

        def rev_of(e):
            if isinstance(e, ast.Name):
                return revs.get(e.id, 0)
            if isinstance(e, ast.Call) and isinstance(e.func, ast.Attribute) and e.func.attr == "reverse" and not e.args:
                r_ = rev_of(e.func.value)
                return None if r_ is None else r_ + 1
            if isinstance(e, ast.Call) and (dotted(e.func) or "").split(".")[-1] in ("Scaffold", "__class__"):
                return 0
            return None

        # in-place reversal of a local scaffold: `X.rows.reverse()` (or X.rows = X.rows[::-1]) together with the loop
        # `for i, f in X.idx_fragments(): X.rows[i] = f.reverse()` -- the body of Scaffold.reverse applied to X itself
        inplace = {}

        def _flip_loop(fnode):
            if not (isinstance(fnode, ast.For) and isinstance(fnode.iter, ast.Call) and isinstance(fnode.iter.func, ast.Attribute) and fnode.iter.func.attr == "idx_fragments"):
                return None
            x = fnode.iter.func.value
            if not (isinstance(x, ast.Name) and isinstance(fnode.target, ast.Tuple) and len(fnode.target.elts) == 2 and all(isinstance(t, ast.Name) for t in fnode.target.elts)):
                return None
            i_, f_ = (t.id for t in fnode.target.elts)
            body = [b for b in fnode.body if not is_noise(b)]
            if len(body) == 1 and not fnode.orelse and norm(body[0]) == f"{x.id}.rows[{i_}] = {f_}.reverse()":
                return x.id
            return None

        for e in res[0]["path"].events:
            if e.kind == "stmt" and isinstance(e.node, ast.Assign) and len(e.node.targets) == 1 and isinstance(e.node.targets[0], ast.Name):
                revs[e.node.targets[0].id] = rev_of(e.node.value)
            elif e.kind == "stmt" and isinstance(e.node, ast.Expr) and isinstance(e.node.value, ast.Call) and (dotted(e.node.value.func) or "").endswith(".rows.reverse") and not e.node.value.args:
                x = dotted(e.node.value.func)[: -len(".rows.reverse")]
                inplace.setdefault(x, [0, 0])[0] += 1
            elif e.kind == "stmt" and isinstance(e.node, ast.Assign) and len(e.node.targets) == 1 and (dotted(e.node.targets[0]) or "").endswith(".rows") and norm(e.node.value) in (f"{dotted(e.node.targets[0])}[::-1]", f"list(reversed({dotted(e.node.targets[0])}))"):
                inplace.setdefault(dotted(e.node.targets[0])[: -len(".rows")], [0, 0])[0] += 1
            elif e.kind == "iter" and e.val and e.val[0] == "done":
                x = _flip_loop(e.node)
                if x is not None:
                    inplace.setdefault(x, [0, 0])[1] += 1
        # any other mutation of a local scaffold on this path is outside what is modelled: no verdict rather than "not reversed"
        def _mutates(stmt, x):
            for n in [stmt, *ast.walk(stmt)]:
                if isinstance(n, ast.Assign | ast.AugAssign | ast.AnnAssign):
                    for t in n.targets if isinstance(n, ast.Assign) else [n.target]:
                        for tt in ast.walk(t):
                            if isinstance(tt, ast.Subscript | ast.Attribute) and (dotted(tt.value) or "").split(".")[0] == x:
                                return True
                if isinstance(n, ast.Call) and isinstance(n.func, ast.Attribute) and (dotted(n.func.value) or "").split(".")[0] == x and (dotted(n.func.value) or "") != x:
                    if n.func.attr in ("append", "extend", "insert", "pop", "remove", "reverse", "sort", "clear", "__setitem__", "__delitem__"):
                        return True
                if isinstance(n, ast.Delete) and any((dotted(getattr(t, "value", t)) or "").split(".")[0] == x for t in n.targets):
                    return True
            return False

        for e in res[0]["path"].events:
            nd = e.node
            if e.kind == "stmt" or (e.kind == "iter" and e.val and e.val[0] == "done"):
                for x in [k for k, v in revs.items() if v is not None]:
                    recognised = (
                        (e.kind == "iter" and _flip_loop(nd) == x)
                        or (isinstance(nd, ast.Expr) and isinstance(nd.value, ast.Call) and dotted(nd.value.func) == f"{x}.rows.reverse")
                        or (isinstance(nd, ast.Assign) and dotted(nd.targets[0]) == f"{x}.rows" and norm(nd.value) in (f"{x}.rows[::-1]", f"list(reversed({x}.rows))"))
                    )
                    if not recognised and _mutates(nd, x):
                        raise AnalysisError(f"to_scaffold: '{x}' is modified in place by '{norm(nd)[:60]}': form not understood")
        for x, (n_rows, n_flip) in inplace.items():
            if n_rows != n_flip:
                raise AnalysisError(f"to_scaffold: '{x}' has its row list reversed {n_rows} time(s) but its fragments flipped {n_flip} time(s) in place: form not understood")
            if revs.get(x) is not None:
                revs[x] = revs[x] + n_rows
        k_ = rev_of(rv)
        if k_ is None:
            raise AnalysisError(f"to_scaffold: the returned value '{norm(rv)[:50]}' is not a scaffold built here, possibly reversed: form not understood")
        reverses = k_ % 2 == 1
        if reverses != (strand == -1):
            ok, why = False, f"with bait strand {strand} the fused piece is {'reversed' if reverses else 'not reversed'} (must be reversed exactly for -1; unknown strand streams forward)"
    L.check(ok, rule, ts.short, "reversed exactly when the bait is on the minus strand", why, ts.loc())
    ctor = [n for n in walk_shallow(ts.node) if isinstance(n, ast.Call) and dotted(n.func) == "Scaffold"]
    ok2 = len(ctor) == 1 and any(norm(a) == "self.rows" for a in [*ctor[0].args, *[k.value for k in ctor[0].keywords]])
    L.check(ok2, rule, ts.short + ":rows", "scaffold built from all rows of the result", "to_scaffold does not pass all rows of the overlap result", ts.loc())


# --------------------------------------------------------------------------------------------------
# row iterators of Scaffold (fragments / idx_fragments / gaps ...): a small interprocedural summary
# --------------------------------------------------------------------------------------------------
class RowIterRefuted(Exception):
    pass


def is_noise(stmt) -> bool:
    """docstring / pass / a bare logging, print or assert-free diagnostic call: no effect on program data"""
    if isinstance(stmt, ast.Pass):
        return True
    if isinstance(stmt, ast.Expr):
        if isinstance(stmt.value, ast.Constant):
            return True
        if isinstance(stmt.value, ast.Call):
            d = dotted(stmt.value.func) or ""
            if d.startswith(("logging.", "log.", "logger.")) or d in ("print",):
                # arguments must not themselves have effects
                return not any(isinstance(n, ast.Call | ast.Yield | ast.YieldFrom | ast.Await | ast.NamedExpr) for a in [*stmt.value.args, *[k.value for k in stmt.value.keywords]] for n in ast.walk(a))
    return False


def row_iter_summary(repo: Repo, cls, func: Func, bind: dict | None = None, depth: int = 0):
    """Summarise a generator method over ``self.rows``.

    -> (row_type, shape) with shape 'row' | 'idx'  : yields exactly the rows r (or (i, r) with i r's own index in
                                                     self.rows) with isinstance(r, row_type), each once, in order
    raises RowIterRefuted(reason) when the method is a loop over the rows but a path of the loop body contradicts that
    returns None when the shape is not one of the forms understood (caller: no verdict)
    Forms: direct loop over self.rows / enumerate(self.rows) with conditional yield (any early-continue / nesting, decided
    per path); `yield from self.h(T)`; loop over self.h(T) re-yielding the row or (index,row); return of a generator
    expression over one of these."""
    from ..flow import PathEnum, cond_facts

    bind = bind or {}
    if depth > 4:
        return None

    def type_of(n):
        d = dotted(n)
        if d in bind:
            return bind[d]
        return d

    def callee_summary(call):
        if not (isinstance(call, ast.Call) and isinstance(call.func, ast.Attribute) and norm(call.func.value) == "self"):
            return None
        h = repo.find_method(cls, call.func.attr)
        if h is None:
            return None
        ps = h.params()[1:]
        b = {}
        for p, a in zip(ps, call.args):
            b[p] = type_of(a)
        for kw in call.keywords:
            if kw.arg:
                b[kw.arg] = type_of(kw.value)
        return row_iter_summary(repo, cls, h, b, depth + 1)

    def source(it):
        """iterable expression -> ('rows'|'enum', None) for the raw rows, or ('sub', summary)"""
        s = norm(it).replace(" ", "")
        if s == "self.rows":
            return ("rows", None)
        if s == "enumerate(self.rows)":
            return ("enum", None)
        sm = callee_summary(it)
        if sm is not None:
            return ("sub", sm)
        return None

    body = [s for s in func.node.body if not is_noise(s)]
    # return <genexp/listcomp>
    if len(body) == 1 and isinstance(body[0], ast.Return) and isinstance(body[0].value, ast.GeneratorExp | ast.ListComp) and len(body[0].value.generators) == 1:
        ge = body[0].value
        g = ge.generators[0]
        loop = ast.For(target=g.target, iter=g.iter, body=[ast.Expr(ast.Yield(ge.elt))], orelse=[])
        for c in reversed(g.ifs):
            loop.body = [ast.If(test=c, body=loop.body, orelse=[])]
        ast.fix_missing_locations(ast.copy_location(loop, body[0]))
        body = [loop]
    if len(body) == 1 and isinstance(body[0], ast.Return) and isinstance(body[0].value, ast.Call):
        return callee_summary(body[0].value)
    if len(body) == 1 and isinstance(body[0], ast.Expr) and isinstance(body[0].value, ast.YieldFrom):
        v = body[0].value.value
        sm = callee_summary(v)
        if sm is not None:
            return sm
        if isinstance(v, ast.GeneratorExp) and len(v.generators) == 1:
            g = v.generators[0]
            loop = ast.For(target=g.target, iter=g.iter, body=[ast.Expr(ast.Yield(v.elt))], orelse=[])
            for c in reversed(g.ifs):
                loop.body = [ast.If(test=c, body=loop.body, orelse=[])]
            ast.fix_missing_locations(ast.copy_location(loop, body[0]))
            body = [loop]
        else:
            return None
    if not (len(body) == 1 and isinstance(body[0], ast.For) and not body[0].orelse):
        return None
    lp = body[0]
    src = source(lp.iter)
    if src is None:
        return None
    kind, sub = src
    tgt = lp.target
    if kind == "rows":
        if not isinstance(tgt, ast.Name):
            return None
        iv, rv, base_type = None, tgt.id, None
    elif kind in ("enum", "sub") and isinstance(tgt, ast.Name) and not (kind == "sub" and sub[1] == "row"):
        # `for pair in enumerate(self.rows)`: pair[0] is the index, pair[1] the row, `yield pair` yields (index, row)
        t_ = tgt.id
        pieces = {f"{t_}[0]": "__idx__", f"{t_}[1]": "__row__"}

        class _Sub(ast.NodeTransformer):
            def visit_Subscript(self, n):
                k = norm(n).replace(" ", "")
                if k in pieces:
                    return ast.copy_location(ast.Name(id=pieces[k], ctx=ast.Load()), n)
                return self.generic_visit(n)

            def visit_Name(self, n):
                if n.id == t_ and isinstance(n.ctx, ast.Load):
                    return ast.copy_location(ast.Tuple(elts=[ast.Name(id="__idx__", ctx=ast.Load()), ast.Name(id="__row__", ctx=ast.Load())], ctx=ast.Load()), n)
                return n

        import copy as _copy

        new_body = [ast.fix_missing_locations(_Sub().visit(_copy.deepcopy(b))) if False else b for b in lp.body]
        # deep copies would drag parent links along: rebuild the (small) loop body from source text instead
        new_body = ast.parse("\n".join(ast.unparse(b) for b in lp.body)).body
        new_body = [ast.fix_missing_locations(_Sub().visit(b)) for b in new_body]
        for b in new_body:
            for x in ast.walk(b):
                ast.copy_location(x, lp) if not hasattr(x, "lineno") else None
        lp = ast.For(target=ast.Tuple(elts=[ast.Name(id="__idx__", ctx=ast.Store()), ast.Name(id="__row__", ctx=ast.Store())], ctx=ast.Store()), iter=lp.iter, body=new_body, orelse=[])
        ast.fix_missing_locations(lp)
        iv, rv = "__idx__", "__row__"
        base_type = sub[0] if kind == "sub" else None
    else:
        if kind == "sub" and sub[1] == "row":
            if not isinstance(tgt, ast.Name):
                return None
            iv, rv, base_type = None, tgt.id, sub[0]
        else:
            if not (isinstance(tgt, ast.Tuple) and len(tgt.elts) == 2 and all(isinstance(e, ast.Name) for e in tgt.elts)):
                return None
            iv, rv = tgt.elts[0].id, tgt.elts[1].id
            base_type = sub[0] if kind == "sub" else None
    # decide per path of the loop body
    types, shapes = set(), set()
    n_paths = 0
    for p in PathEnum((0,), exc_edges=False).block(lp.body):
        n_paths += 1
        if p.status not in ("fall", "continue"):
            raise RowIterRefuted(f"the iteration is left with '{p.status}' before all rows were visited")
        is_t = {}
        other = []
        for e in p.events:
            if e.kind == "cond":
                for t, v in cond_facts(e.node, e.val):
                    if isinstance(t, ast.Call) and dotted(t.func) == "isinstance" and len(t.args) == 2 and isinstance(t.args[0], ast.Name) and t.args[0].id == rv:
                        is_t[type_of(t.args[1])] = v
                    else:
                        other.append((norm(t), v))
        ys = [n for e in p.events if e.kind == "stmt" for n in [e.node, *walk_shallow(e.node)] if isinstance(n, ast.Yield | ast.YieldFrom)]
        for y in ys:
            if isinstance(y, ast.YieldFrom):
                return None
            v = y.value
            if isinstance(v, ast.Name) and v.id == rv:
                shapes.add("row")
            elif isinstance(v, ast.Tuple) and len(v.elts) == 2 and iv is not None and isinstance(v.elts[0], ast.Name) and v.elts[0].id == iv and isinstance(v.elts[1], ast.Name) and v.elts[1].id == rv:
                shapes.add("idx")
            else:
                raise RowIterRefuted(f"yields '{norm(v)}', which is not the row (or (index, row)) being visited")
        if len(ys) > 1:
            raise RowIterRefuted("a row is yielded more than once on a path")
        pos = [t for t, v in is_t.items() if v]
        if ys:
            if other:
                # yielded only under an additional condition: some rows of the type are skipped when it is false —
                # the complementary path shows that; here nothing to do
                pass
            if base_type is None and len(pos) != 1:
                if is_t:
                    return None  # typed by exclusion (`not isinstance(r, Gap)`): not decided here
                raise RowIterRefuted("a row is yielded without being tested for its type")
            types.add(pos[0] if pos else base_type)
            if base_type is not None and pos and pos != [base_type]:
                return None
        else:
            # a path that yields nothing must be one where the row is known not to be of the type
            neg = [t for t, v in is_t.items() if not v]
            if base_type is not None and not neg:
                raise RowIterRefuted(f"a {base_type} row is skipped when " + (" and ".join(f"{t} is {v}" for t, v in other) or "a path yields nothing"))
            if not neg:
                raise RowIterRefuted("a row is skipped although it was not found to be of another type: " + (" and ".join(f"{t} is {v}" for t, v in other) or "no yield on a path"))
            types.update(neg)
    if len(types) != 1 or len(shapes) != 1:
        if not shapes:
            raise RowIterRefuted("no path yields a row")
        raise RowIterRefuted(f"rows yielded under inconsistent tests/shapes ({sorted(map(str, types))}, {sorted(shapes)})")
    shape = shapes.pop()
    if shape == "idx" and kind == "sub" and sub[1] != "idx":
        return None
    return (types.pop(), shape)


def check_row_iter(repo: Repo, L: Ledger, rule: str, cls, name: str, want_type: str, want_shape: str, ok_msg: str, bad_msg: str):
    f = repo.find_method(cls, name)
    if f is None:
        raise AnalysisError(f"anchor {cls.name}.{name} vanished")
    try:
        sm = row_iter_summary(repo, cls, f)
    except RowIterRefuted as e:
        L.fail(rule, f"{cls.name}.{name}", f"{bad_msg}: {e}", f.loc())
        return
    if sm is None:
        raise AnalysisError(f"{cls.name}.{name}: row iterator is not in a form the summary understands (direct loop over self.rows, delegation to a parameterised helper, generator expression)")
    L.check(sm == (want_type, want_shape), rule, f"{cls.name}.{name}", ok_msg, f"{bad_msg}: it yields {sm[1]} items for rows of type {sm[0]}", f.loc())


def append_loop_elt(loop: ast.For):
    """`for T in IT: <if/else tree whose every leaf is exactly one  v.append(E)>`  ->  (v, element expression as IfExp tree)
    i.e. the loop is  v.extend(<elt> for T in IT).  None when the body has any other shape."""
    def tree(stmts):
        stmts = [s for s in stmts if not is_noise(s)]
        if len(stmts) != 1:
            return None
        s = stmts[0]
        if isinstance(s, ast.Expr) and isinstance(s.value, ast.Call) and isinstance(s.value.func, ast.Attribute) and s.value.func.attr == "append" and isinstance(s.value.func.value, ast.Name) and len(s.value.args) == 1 and not s.value.keywords:
            return s.value.func.value.id, s.value.args[0]
        if isinstance(s, ast.If) and s.orelse:
            a, b = tree(s.body), tree(s.orelse)
            if a and b and a[0] == b[0]:
                return a[0], ast.copy_location(ast.IfExp(test=s.test, body=a[1], orelse=b[1]), s)
        return None

    if loop.orelse:
        return None
    return tree(loop.body)


# --------------------------------------------------------------------------------------------------
# cache-key completeness: a value memoised in a local dict must not depend on more than its key
# --------------------------------------------------------------------------------------------------
def cache_key_complete(L: Ledger, rule: str, f: Func):
    """For every local dict of `f` that is used as a cache inside a loop (read with .get(K) / `K in D` / D[K], filled with
    D[K] = V in the same loop): every per-iteration input V is computed from (attribute paths rooted at the loop variables,
    followed through locals assigned in the loop) must also feed K.  Otherwise a later iteration with the same key but a
    different value of the missing input gets the earlier iteration's result.  -> number of caches examined"""
    n = 0
    dicts = {a.targets[0].id for a in walk_shallow(f.node) if isinstance(a, ast.Assign) and len(a.targets) == 1 and isinstance(a.targets[0], ast.Name) and ((isinstance(a.value, ast.Dict) and not a.value.keys) or (isinstance(a.value, ast.Call) and dotted(a.value.func) in ("dict", "defaultdict", "collections.defaultdict") and not a.value.args))}
    if not dicts:
        return 0
    for lp in [x for x in walk_shallow(f.node) if isinstance(x, ast.For | ast.While)]:
        loop_vars = {x.id for x in ast.walk(lp.target) if isinstance(x, ast.Name)} if isinstance(lp, ast.For) else set()
        # enclosing loops' variables vary too
        from ..util import ancestors as _anc

        for a in _anc(lp):
            if isinstance(a, ast.For):
                loop_vars |= {x.id for x in ast.walk(a.target) if isinstance(x, ast.Name)}
        assigned_in_loop = {}
        for st in walk_shallow(lp):
            if isinstance(st, ast.Assign):
                for t in st.targets:
                    for x in ast.walk(t):
                        if isinstance(x, ast.Name) and isinstance(x.ctx, ast.Store):
                            assigned_in_loop.setdefault(x.id, []).append(st.value)
            elif isinstance(st, ast.NamedExpr):
                assigned_in_loop.setdefault(st.target.id, []).append(st.value)

        def inputs(e, depth=0, skip=()):
            """attribute paths / names rooted at loop variables that e depends on"""
            out = set()
            for x in ast.walk(e):
                if isinstance(x, ast.Attribute | ast.Subscript | ast.Name):
                    root = x
                    while isinstance(root, ast.Attribute | ast.Subscript):
                        root = root.value
                    if isinstance(root, ast.Name) and root.id in loop_vars and isinstance(x, ast.Attribute | ast.Subscript | ast.Name):
                        par = getattr(x, "_parent", None)
                        if isinstance(par, ast.Attribute | ast.Subscript) and par.value is x:
                            continue  # take the longest path only
                        out.add(norm(x))
                    elif isinstance(x, ast.Name) and x.id in assigned_in_loop and x.id not in skip and depth < 3 and x.id not in dicts:
                        for d in assigned_in_loop[x.id]:
                            out |= inputs(d, depth + 1, (*skip, x.id))
            return out

        for st in walk_shallow(lp):
            if not isinstance(st, ast.Assign):
                continue
            for t in st.targets:
                if isinstance(t, ast.Subscript) and isinstance(t.value, ast.Name) and t.value.id in dicts:
                    D, K, V = t.value.id, t.slice, st.value
                    reads = [c for c in walk_shallow(lp) if (isinstance(c, ast.Call) and isinstance(c.func, ast.Attribute) and c.func.attr in ("get", "setdefault") and is_name(c.func.value, D)) or (isinstance(c, ast.Compare) and len(c.ops) == 1 and isinstance(c.ops[0], ast.In | ast.NotIn) and is_name(c.comparators[0], D)) or (isinstance(c, ast.Subscript) and isinstance(c.ctx, ast.Load) and is_name(c.value, D))]
                    if not reads:
                        continue  # filled but not read in the loop: an accumulator, not a cache
                    # accumulators keyed by something (D[K] = D.get(K, 0) + 1, D[K].append) are not caches either
                    def mentions_D(e, depth=0, seen=()):
                        for x in ast.walk(e):
                            if isinstance(x, ast.Name):
                                if x.id == D:
                                    return True
                                if x.id in assigned_in_loop and x.id not in seen and depth < 3 and any(mentions_D(d_, depth + 1, (*seen, x.id)) for d_ in assigned_in_loop[x.id]):
                                    return True
                        return False

                    if mentions_D(V):
                        continue  # the new value is computed from the old one (running total): an accumulator
                    # ... and so is a table some *other* store or in-place update in the loop derives from its old entry
                    # (first occurrence stores a fresh value, later ones widen / extend it)
                    def _other_updates():
                        for st2 in walk_shallow(lp):
                            if isinstance(st2, ast.Assign) and st2 is not st and any(isinstance(t2, ast.Subscript) and is_name(t2.value, D) for t2 in st2.targets) and mentions_D(st2.value):
                                return True
                            if isinstance(st2, ast.AugAssign) and isinstance(st2.target, ast.Subscript) and is_name(st2.target.value, D):
                                return True
                            if isinstance(st2, ast.Call) and isinstance(st2.func, ast.Attribute) and st2.func.attr in ("append", "add", "update", "extend", "insert") and isinstance(st2.func.value, ast.Subscript | ast.Call) and any(isinstance(x, ast.Name) and x.id == D for x in ast.walk(st2.func.value)):
                                return True
                        # entries taken out into a local and edited in place (span = D.get(k); span[0] = ...)
                        aliases = {nm for nm, vals in assigned_in_loop.items() if any(mentions_D(v_) for v_ in vals)}
                        for st2 in walk_shallow(lp):
                            if isinstance(st2, ast.Assign | ast.AugAssign):
                                tg2 = st2.targets if isinstance(st2, ast.Assign) else [st2.target]
                                if any(isinstance(t2, ast.Subscript | ast.Attribute) and isinstance(t2.value, ast.Name) and t2.value.id in aliases for t2 in tg2):
                                    return True
                            if isinstance(st2, ast.Call) and isinstance(st2.func, ast.Attribute) and isinstance(st2.func.value, ast.Name) and st2.func.value.id in aliases and st2.func.attr in ("append", "add", "update", "extend", "insert", "pop", "remove", "sort", "reverse"):
                                return True
                            # a method of the entry called as a statement (result discarded) is called for its effect on the
                            # entry: the table groups items into entries that grow (build.append_scaffold(piece))
                            if isinstance(st2, ast.Call) and isinstance(st2.func, ast.Attribute) and isinstance(st2.func.value, ast.Name) and st2.func.value.id in aliases and isinstance(getattr(st2, "_parent", None), ast.Expr):
                                return True
                        return False

                    if _other_updates():
                        continue
                    if isinstance(V, ast.Name) and V.id in loop_vars:
                        continue  # the item itself is registered under the key (grouping / first-wins table), nothing is memoised
                    n += 1
                    kin, vin = inputs(K), inputs(V)
                    # a value input is covered when it (or a prefix path of it) is a key input
                    missing = sorted(v for v in vin if not any(v == k or v.startswith(k + ".") or v.startswith(k + "[") for k in kin))
                    L.check(
                        not missing, rule, f"{f.short}:cache {D}[{norm(K)[:30]}]", "cached value depends only on what its key is built from",
                        f"'{D}' caches a value computed from {sorted(vin)} under the key '{norm(K)}' which is built from {sorted(kin)} only: a later item with the same key but a different {missing} is given the earlier item's result",
                        f.loc(st), witness={"two items": f"same {sorted(kin)}, different {missing}"},
                    )
    return n


# --------------------------------------------------------------------------------------------------
# memoised results computed from a scaffold's rows
# --------------------------------------------------------------------------------------------------
def rows_memo_verdict(repo: Repo, cls, entry: Func):
    """`entry` (a method of cls) or a property / method of cls it uses on self keeps a value computed from `self.rows` in an
    attribute of self.  -> None when nothing is memoised;
       ("stale", memo method, attr, mutator function, node): the memo's validity test looks at most at `is None` / the *number*
           of rows while `mutator` changes the rows in place without dropping the memo: a positive finding;
       raises AnalysisError when the memo is validated against the rows themselves, or no unguarded mutator is found."""
    cands = [entry]
    for n in walk_shallow(entry.node):
        if isinstance(n, ast.Attribute) and is_name(n.value, "self"):
            m = repo.find_method(cls, n.attr)
            if m is not None and m is not entry and m not in cands:
                cands.append(m)
    family = set(repo.mro(cls)) | set(repo.all_subclasses(cls))
    for m in cands:
        stores = [(n, t) for n in walk_shallow(m.node) if isinstance(n, ast.Assign) for t in n.targets if isinstance(t, ast.Attribute) and is_name(t.value, "self")]
        # chained `x = self._memo = value`
        if not stores:
            continue
        attr = stores[0][1].attr
        reads = [n for n in walk_shallow(m.node) if isinstance(n, ast.Attribute) and is_name(n.value, "self") and n.attr == attr and isinstance(n.ctx, ast.Load)]
        if not reads:
            continue  # written but never read back here: not a memo of this method
        tests = [n.test for n in walk_shallow(m.node) if isinstance(n, ast.If | ast.IfExp | ast.While)]
        local_rows = {n.targets[0].id for n in walk_shallow(m.node) if isinstance(n, ast.Assign) and isinstance(n.targets[0], ast.Name) and norm(n.value) == "self.rows"}
        rows_mentions = [x for t in tests for x in ast.walk(t) if (isinstance(x, ast.Attribute) and norm(x) == "self.rows") or (isinstance(x, ast.Name) and x.id in local_rows)]
        only_len = all(isinstance(getattr(x, "_parent", None), ast.Call) and dotted(x._parent.func) == "len" for x in rows_mentions)
        if not only_len:
            raise AnalysisError(f"{m.short}: a result computed from the rows is memoised in self.{attr} and the memo is validated against the rows themselves: whether it can be stale is not decided")
        # in-place changes of some object's rows in a function that does not drop the memo
        for g in repo.functions.values():
            for n in walk_shallow(g.node):
                hit = None
                if isinstance(n, ast.Assign):
                    for t in n.targets:
                        if isinstance(t, ast.Subscript) and isinstance(t.value, ast.Attribute) and t.value.attr == "rows" and not (isinstance(t.slice, ast.Slice) and t.slice.lower is None and t.slice.upper is None):
                            hit = n
                elif isinstance(n, ast.Call) and isinstance(n.func, ast.Attribute) and n.func.attr in ("extend", "append", "insert", "pop", "remove", "reverse", "sort", "clear") and isinstance(n.func.value, ast.Attribute) and n.func.value.attr == "rows" and is_name(n.func.value.value, "self") and g.cls in family:
                    hit = n
                if hit is None:
                    continue
                if g is m or g.name == "__init__":
                    continue
                # a freshly constructed object inside reverse()/copy helpers has no memo yet: only objects that can already
                # hold one matter -- `self` in the class family, or any receiver outside constructors
                drops = any(isinstance(x, ast.Assign) and any(isinstance(tt, ast.Attribute) and tt.attr == attr for tt in x.targets) for x in walk_shallow(g.node))
                recv = hit.targets[0].value.value if isinstance(hit, ast.Assign) else hit.func.value.value
                if drops or not is_name(recv, "self"):
                    continue
                if g.cls is None or g.cls not in family:
                    continue
                return ("stale", m, attr, g, hit)
        raise AnalysisError(f"{m.short}: a result computed from the rows is memoised in self.{attr}; no operation of the class changes the rows without dropping it, writers outside the class are not tracked: not decided")
    return None
