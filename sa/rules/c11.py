"""C11 — curation statistics count the real cuts, breaks and joins.

 R1 the junction encoding is a canonical form of the unordered pair of facing contig ends:
    (a) names exactly the two facing ends, (b) invariant under reversal of the whole scaffold,
    (c) each (name, coordinate) end stays paired
 R2 the per-scaffold junction set visits every consecutive fragment pair exactly once
 R3 breaks = |input − output|, joins = |output − input|
 R4 the cut counter advances by (pieces − 1) where pieces are the fragments the cut produced
 R5 the haplotig count is read from the builder's dictionary (key = the tag) before keys are renamed
"""

from __future__ import annotations

import ast

from ..fold import try_fold
from ..model import AnalysisError, Repo, dotted, is_name, norm, walk_shallow
from ..report import Ledger
from ..sym import Const, Lin, State, Str, Sym, SymExec, Tup, as_lin, NotNumeric
from ..util import end_pos, pos, paths

PROP = "C11"
LEVEL = "other"
EXPLANATION = (
    "Fragment.junction_tuple is executed symbolically for the four strand combinations; the resulting tuples (symbolic "
    "name/start/end of the two fragments) are compared with the tuple obtained for the same junction seen from the reversed "
    "scaffold (fragments swapped, strands negated): an encoding that is not invariant makes a whole-scaffold reversal count "
    "as one break plus one join. The junction-set iteration, the direction of the set differences, the cut counter and the "
    "place where the haplotig count is read are decided structurally (def-use / taint order / symbolic counter)."
)

STRANDS = {1: "+", -1: "-"}


class _JExec(SymExec):
    """sorted() over two symbolic (name, coordinate) pairs is modelled by a fixed but
    arbitrary total order on the two fragments' pairs: `x_first` says whether x's pair
    sorts before y's.  Both views of a junction are evaluated under the same order."""

    def __init__(self, repo, x_first, name_cmp=None, coord_cmp=None):
        super().__init__(repo)
        # order of x's (name, coordinate) pair relative to y's: names compare as name_cmp (-1, 0, 1); equal names are
        # ordered by the facing coordinates (coord_cmp).  x_first is the resulting order of the pairs.
        if name_cmp is None:
            name_cmp, coord_cmp = (-1, -1) if x_first else (1, 1)
        self.name_cmp, self.coord_cmp = name_cmp, coord_cmp
        self.x_first = name_cmp < 0 or (name_cmp == 0 and coord_cmp < 0)

    def compare(self, op, a, b, node, st=None):
        def owner(v):
            while isinstance(v, Str):
                v = v.v
            if isinstance(v, Sym) and v.name[:2] in ("x.", "y."):
                return v.name[0], v.name[2:]
            return None, None

        def order(u, v):
            """-1 / 0 / 1: order of value u relative to v when they are the same field of the two fragments; None otherwise"""
            (ou, fu), (ov, fv) = owner(u), owner(v)
            if ou and ov and ou != ov and fu == fv:
                c_ = self.name_cmp if fu == "_name" else self.coord_cmp if fu in ("_start", "_end") else None
                if c_ is not None:
                    return -c_ if ou == "y" else c_
            return None

        c = order(a, b)
        if c is None and isinstance(a, Tup) and isinstance(b, Tup) and len(a.items) == len(b.items) and a.items:
            # tuples compare lexicographically
            for u, v in zip(a.items, b.items):
                c = order(u, v)
                if c is None or c != 0:
                    break
        if c is not None:
            from ..sym import B

            res = {ast.Lt: c < 0, ast.LtE: c <= 0, ast.Gt: c > 0, ast.GtE: c >= 0, ast.Eq: c == 0, ast.NotEq: c != 0}.get(type(op))
            if res is not None:
                return B("const", res)
        return super().compare(op, a, b, node, st)

    def call_hook(self, st, node, fval, args, kwargs, func):
        if dotted(node.func) == "sorted" and len(args) == 1 and isinstance(args[0], Tup) and len(args[0].items) == 2 and "key" not in kwargs:
            owners = []
            # sorted((x.<f>, y.<f>)): two plain values of the same field, one of each fragment
            plain = []
            for it in args[0].items:
                while isinstance(it, Str):
                    it = it.v
                if isinstance(it, Sym) and it.name[:2] in ("x.", "y."):
                    plain.append((it.name[0], it.name[2:]))
            if len(plain) == 2 and plain[0][0] != plain[1][0] and plain[0][1] == plain[1][1] and plain[0][1] in ("_name", "_start", "_end"):
                from ..sym import B as _B

                rev_ = kwargs.get("reverse")
                if rev_ is None:
                    rv_ = False
                elif isinstance(rev_, _B) and rev_.kind == "const":
                    rv_ = bool(rev_.a)
                else:
                    return NotImplemented
                c_ = self.name_cmp if plain[0][1] == "_name" else self.coord_cmp  # order of x's value relative to y's
                if plain[0][0] == "y":
                    c_ = -c_  # order of the first item relative to the second
                a_, b_ = args[0].items
                swap = c_ < 0 if rv_ else c_ > 0  # a stable sort keeps equal values in place
                return Tup([b_, a_] if swap else [a_, b_], "list")
            for pair in args[0].items:
                if not isinstance(pair, Tup):
                    return NotImplemented
                os_ = set()
                for it in pair.items:
                    while isinstance(it, Str):
                        it = it.v
                    if isinstance(it, Sym) and it.name[:2] in ("x.", "y."):
                        os_.add(it.name[0])
                    else:
                        return NotImplemented
                if len(os_) != 1:
                    return NotImplemented
                owners.append(os_.pop())
            if sorted(owners) != ["x", "y"]:
                return NotImplemented
            rev = kwargs.get("reverse")
            from ..sym import B

            if rev is None:
                rv = False
            elif isinstance(rev, B) and rev.kind == "const":
                rv = bool(rev.a)
            else:
                return NotImplemented
            first = "x" if self.x_first else "y"
            if rv:
                first = "y" if first == "x" else "x"
            a, b = args[0].items
            ordered = [a, b] if owners[0] == first else [b, a]
            return Tup(ordered, "list")
        return NotImplemented


def _jt(repo, f, frag, x_name, x_strand, y_name, y_strand, x_first=True, order=None):
    ex = _JExec(repo, x_first, *(order or (None, None)))
    st = State()
    st.heap[(x_name, "_strand")] = Lin.const(x_strand)
    st.heap[(y_name, "_strand")] = Lin.const(y_strand)
    ps = f.params()
    finals = ex.run_function(f, st, {ps[0]: Sym(x_name, frag), ps[1]: Sym(y_name, frag)})
    if len(finals) > 1:
        raise AnalysisError(f"{f.short}: {len(finals)} outcomes for strands ({STRANDS[x_strand]},{STRANDS[y_strand]}) under a fixed order of the two names and coordinates: a branch condition is not a function of strands, name order and coordinate order — no verdict")
    if len(finals) != 1:
        return None
    r = finals[0].ret
    if not isinstance(r, Tup):
        return None
    out = []
    for it in r.items:
        while isinstance(it, Str):
            it = it.v
        out.append(it.name if isinstance(it, Sym) else repr(it))
    return tuple(out)


def run(repo: Repo, L: Ledger, tier: str):
    L.rule("R1", "junction tuple: exactly the two facing ends, reversal-invariant, ends stay paired")
    L.rule("R2", "every consecutive fragment pair contributes exactly one junction")
    L.rule("R3", "breaks = |input − output|, joins = |output − input|")
    L.rule("R4", "cuts += (number of pieces − 1)")
    L.rule("R5", "haplotig count read under the tag key before the output renaming")

    frag = repo.cls("Fragment")
    jt = frag.methods.get("junction_tuple")
    if jt is None:
        raise AnalysisError("anchor Fragment.junction_tuple vanished")
    n = 0
    for sx in (1, -1):
      for sy in (1, -1):
        for x_first in (True, False):
            n += 1
            case = f"({STRANDS[sx]},{STRANDS[sy]})"
            t = _jt(repo, jt, frag, "x", sx, "y", sy, x_first)
            inst = f"{jt.short}{case}[{'x<y' if x_first else 'y<x'}]"
            if t is None or len(t) != 4:
                L.fail("R1", jt.short, f"strands {case}: no 4-tuple is returned (got {t})", jt.loc())
                continue
            fx = "x._end" if sx == 1 else "x._start"  # x is the left fragment: its facing end is its scaffold-right end
            fy = "y._start" if sy == 1 else "y._end"
            want = {"x._name", fx, "y._name", fy}
            L.check(set(t) == want, "R1", inst + ":ends", f"names the facing ends {sorted(want)}", f"strands {case}: tuple {t} does not name exactly the two facing ends {sorted(want)}", jt.loc(), witness={"tuple": t})
            paired = ({t[0], t[1]} in ({"x._name", fx}, {"y._name", fy})) and ({t[2], t[3]} in ({"x._name", fx}, {"y._name", fy}))
            L.check(paired, "R1", inst + ":paired", "each name sits next to its own coordinate", f"strands {case}: tuple {t} separates a contig name from its coordinate; different junctions can collide", jt.loc())
            # the same physical junction seen from the reversed scaffold: (rev(y), rev(x))
            t2 = _jt(repo, jt, frag, "y", -sy, "x", -sx, x_first)
            L.check(
                t2 == t, "R1", jt.short,
                f"strands {case}: same tuple from the reversed scaffold",
                f"strands {case}: junction between x{STRANDS[sx]} and y{STRANDS[sy]} is encoded as {t}, but the same junction in the reversed scaffold (y{STRANDS[-sy]} then x{STRANDS[-sx]}) as {t2}: reversing a whole scaffold is counted as 1 break + 1 join",
                jt.loc(), witness={"scaffold": f"[x{STRANDS[sx]}, gap, y{STRANDS[sy]}]", "forward": t, "reversed": t2},
            )
    L.floor("R1", "strand cases × pair orders", n, 8)
    # the same under every order of the two contigs' names (<, ==, >) and facing coordinates: canonical ordering
    # written with direct comparisons instead of sorted() on (name, coordinate) pairs is decided here
    n2 = 0
    for sx in (1, -1):
        for sy in (1, -1):
            for name_cmp in (-1, 0, 1):
                for coord_cmp in (-1, 1):
                    t = _jt(repo, jt, frag, "x", sx, "y", sy, order=(name_cmp, coord_cmp))
                    t2 = _jt(repo, jt, frag, "y", -sy, "x", -sx, order=(name_cmp, coord_cmp))
                    if t is None or t2 is None:
                        continue
                    n2 += 1
                    rel = {-1: "<", 0: "==", 1: ">"}
                    if name_cmp == 0:
                        # equal names: the two name symbols denote the same value
                        t, t2 = tuple("x._name" if v == "y._name" else v for v in t), tuple("x._name" if v == "y._name" else v for v in t2)
                    L.check(
                        t == t2, "R1", f"{jt.short}({STRANDS[sx]},{STRANDS[sy]})[name x{rel[name_cmp]}y, coord x{rel[coord_cmp]}y]",
                        "same tuple from the reversed scaffold",
                        f"strands ({STRANDS[sx]},{STRANDS[sy]}), contig names x {rel[name_cmp]} y, facing coordinates x {rel[coord_cmp]} y: encoded as {t} but as {t2} in the reversed scaffold: reversing a whole scaffold is counted as 1 break + 1 join",
                        jt.loc(), witness={"names": f"x {rel[name_cmp]} y", "forward": t, "reversed": t2},
                    )
    L.floor("R1", "strand cases × name/coordinate orders", n2, 16)

    _r2(repo, L)
    _r3(repo, L)
    _r4(repo, L)
    _r5(repo, L)


# ------------------------------------------------------------------------------ R2


def _r2(repo, L):
    scf = repo.cls("Scaffold")
    f = scf.methods.get("fragment_junction_set")
    if f is None:
        raise AnalysisError("anchor Scaffold.fragment_junction_set vanished")
    src = None
    adds = [c for c in walk_shallow(f.node) if isinstance(c, ast.Call) and isinstance(c.func, ast.Attribute) and c.func.attr == "add"]
    jcalls = [c for c in walk_shallow(f.node) if isinstance(c, ast.Call) and isinstance(c.func, ast.Attribute) and c.func.attr == "junction_tuple"]
    ok, why = False, "junction iteration idiom not recognised"
    # idiom (i): prev = next(itr); loop: this = next(itr); add(prev.junction_tuple(this)); prev = this
    nexts = [n for n in walk_shallow(f.node) if isinstance(n, ast.Assign) and isinstance(n.value, ast.Call) and dotted(n.value.func) == "next"]
    loops = [n for n in walk_shallow(f.node) if isinstance(n, ast.While | ast.For)]
    if len(jcalls) == 1 and len(adds) == 1 and len(nexts) == 2 and len(loops) == 1:
        first, second = sorted(nexts, key=pos)
        prev_v, this_v = first.targets[0].id, second.targets[0].id
        itr_v = norm(first.value.args[0])
        itr_def = [n for n in walk_shallow(f.node) if isinstance(n, ast.Assign) and norm(n.targets[0]) == itr_v]
        from_frags = len(itr_def) == 1 and norm(itr_def[0].value) in ("self.fragments()", "iter(self.fragments())")
        jc = jcalls[0]
        call_ok = is_name(jc.func.value, prev_v) and len(jc.args) == 1 and is_name(jc.args[0], this_v) and jc in list(ast.walk(adds[0]))
        in_loop = all(any(x is n for x in ast.walk(loops[0])) for n in (second, adds[0]))
        shifts = [n for n in walk_shallow(loops[0]) if isinstance(n, ast.Assign) and norm(n) == f"{prev_v} = {this_v}"]
        first_outside = not any(x is first for x in ast.walk(loops[0]))
        # order inside the loop on every path: next -> add -> shift
        order_ok = True
        from ..flow import PathEnum

        for p in PathEnum((0, 1), exc_edges=False).block(loops[0].body if isinstance(loops[0], ast.While) else loops[0].body):
            seq = []
            for e in p.events:
                if e.kind == "stmt":
                    if e.node is second:
                        seq.append("next")
                    elif any(x is adds[0] for x in ast.walk(e.node)):
                        seq.append("add")
                    elif e.node in shifts:
                        seq.append("shift")
            if seq not in (["next", "add", "shift"], []):
                order_ok = False
        ok = from_frags and call_ok and in_loop and len(shifts) == 1 and first_outside and order_ok and norm(second.value.args[0]) == itr_v
        why = f"iterator idiom broken: from_fragments={from_frags} call={call_ok} in_loop={in_loop} shift={len(shifts)} order={order_ok}"
    # idiom (ii)/(iii): zip(l, l[1:]) or pairwise(l)
    for lp in loops:
        if isinstance(lp, ast.For) and isinstance(lp.iter, ast.Call):
            d = dotted(lp.iter.func)
            if d in ("zip",) and len(lp.iter.args) == 2:
                a0, a1 = lp.iter.args
                if isinstance(a1, ast.Subscript) and norm(a1.value) == norm(a0) and norm(a1.slice) == "1:" and len(jcalls) == 1:
                    u, v = (e.id for e in lp.target.elts)
                    ok = is_name(jcalls[0].func.value, u) and is_name(jcalls[0].args[0], v)
                    why = "zip idiom does not encode (left, right)"
            if d in ("itertools.pairwise", "pairwise") and len(jcalls) == 1:
                u, v = (e.id for e in lp.target.elts)
                ok = is_name(jcalls[0].func.value, u) and is_name(jcalls[0].args[0], v)
    # idiom (iv): a comprehension over pairwise(<fragments>) / zip(l, l[1:])
    for cp in [n for n in walk_shallow(f.node) if isinstance(n, ast.SetComp | ast.GeneratorExp | ast.ListComp) and len(n.generators) == 1 and not n.generators[0].ifs]:
        g = cp.generators[0]
        if not (isinstance(g.iter, ast.Call) and isinstance(g.target, ast.Tuple) and len(g.target.elts) == 2 and all(isinstance(e, ast.Name) for e in g.target.elts)):
            continue
        d = dotted(g.iter.func)
        u, v = (e.id for e in g.target.elts)
        src_ok = False
        if d in ("itertools.pairwise", "pairwise") and len(g.iter.args) == 1:
            a0 = g.iter.args[0]
            src_txt = norm(a0)
            if isinstance(a0, ast.Name):
                ds = [n.value for n in walk_shallow(f.node) if isinstance(n, ast.Assign) and is_name(n.targets[0], a0.id)]
                src_txt = norm(ds[0]) if len(ds) == 1 else src_txt
            src_ok = src_txt in ("self.fragments()", "list(self.fragments())", "tuple(self.fragments())")
        elif d == "zip" and len(g.iter.args) == 2:
            a0, a1 = g.iter.args
            if isinstance(a0, ast.Name) and isinstance(a1, ast.Subscript) and norm(a1.value) == a0.id and norm(a1.slice) == "1:":
                ds = [n.value for n in walk_shallow(f.node) if isinstance(n, ast.Assign) and is_name(n.targets[0], a0.id)]
                src_ok = len(ds) == 1 and norm(ds[0]) in ("list(self.fragments())", "tuple(self.fragments())", "[*self.fragments()]")
        e = cp.elt
        if src_ok and isinstance(e, ast.Call) and isinstance(e.func, ast.Attribute) and e.func.attr == "junction_tuple" and len(jcalls) == 1:
            ok = is_name(e.func.value, u) and len(e.args) == 1 and is_name(e.args[0], v)
            why = "pair comprehension does not encode (left, right)"
    if not ok and why == "junction iteration idiom not recognised" and len(jcalls) == 1 and len(nexts) == 1 and len(loops) == 1:
        # prev = next(itr); loop: add(prev.junction_tuple(next(itr)))  -- the right fragment is taken from the iterator in place and
        # the left one is never replaced: every junction is measured from the first fragment
        jc_ = jcalls[0]
        pv_ = nexts[0].targets[0].id if isinstance(nexts[0].targets[0], ast.Name) else None
        inline_next = len(jc_.args) == 1 and isinstance(jc_.args[0], ast.Call) and dotted(jc_.args[0].func) == "next"
        restored = [n for n in walk_shallow(loops[0]) if isinstance(n, ast.Name) and n.id == pv_ and isinstance(n.ctx, ast.Store)]
        if pv_ and inline_next and is_name(jc_.func.value, pv_) and not restored and any(x is jc_ for x in ast.walk(loops[0])):
            why = f"'{pv_}' is never advanced in the loop: every junction is measured from the first fragment of the scaffold"
    L.check(ok, "R2", f.short, "each consecutive pair (prev, this) encoded once, prev := this afterwards", why, f.loc())
    # no shortcut exit: the only early return is the "no fragment at all" case (StopIteration of the first next())
    early = []
    for r in walk_shallow(f.node):
        if isinstance(r, ast.Return) and r is not f.node.body[-1]:
            par = r
            in_stop = False
            while par is not None and par is not f.node:
                par = getattr(par, "_parent", None)
                if isinstance(par, ast.ExceptHandler) and par.type is not None and "StopIteration" in norm(par.type):
                    in_stop = True
            if not in_stop:
                early.append(r)
    L.check(not early, "R2", f.short + ":no-shortcut", "no early exit other than 'scaffold has no fragment'", f"junction set returns early under '{norm(getattr(early[0], '_parent', early[0]))[:70] if early else ''}': scaffolds taking that exit contribute no junctions (e.g. two abutting contigs without a gap row), so breaking them is not counted and keeping them looks like a join", f.loc(early[0]) if early else f.loc())
    # assembly-level union
    asm = repo.cls("Assembly")
    g = asm.methods.get("fragment_junction_set")
    ok2 = False
    if g is not None:
        lps = [n for n in walk_shallow(g.node) if isinstance(n, ast.For) and norm(n.iter) == "self.scaffolds"]
        if len(lps) == 1 and len(lps[0].body) == 1:
            b = lps[0].body[0]
            v = lps[0].target.id
            ok2 = (isinstance(b, ast.AugAssign) and isinstance(b.op, ast.BitOr) and norm(b.value) == f"{v}.fragment_junction_set()") or (isinstance(b, ast.Expr) and "update" in norm(b) and f"{v}.fragment_junction_set()" in norm(b))
    L.check(ok2, "R2", "Assembly.fragment_junction_set", "union over all scaffolds", "assembly junction set is not the union over all its scaffolds", g.loc() if g else "")


# ------------------------------------------------------------------------------ R3


def _r3(repo, L):
    st_cls = repo.cls("AssemblyStats")
    ms = st_cls.methods.get("make_stats")
    if ms is None:
        raise AnalysisError("anchor AssemblyStats.make_stats vanished")
    outp = ms.params()[1]
    taint = {outp: {"OUT"}}

    def t_of(expr):
        s = set()
        for x in ast.walk(expr):
            if isinstance(x, ast.Attribute) and norm(x) == "self.input_assembly":
                s.add("IN")
            if isinstance(x, ast.Name) and x.id in taint:
                s |= taint[x.id]
        return s

    def visit(stmts):
        for s in stmts:
            if isinstance(s, ast.Assign):
                tv = t_of(s.value)
                for t in s.targets:
                    for nme in ast.walk(t):
                        if isinstance(nme, ast.Name):
                            if isinstance(t, ast.Name):
                                taint[nme.id] = set(tv)
                            else:
                                taint.setdefault(nme.id, set()).update(tv)
            elif isinstance(s, ast.AugAssign):
                if isinstance(s.target, ast.Name):
                    taint.setdefault(s.target.id, set()).update(t_of(s.value))
            elif isinstance(s, ast.For):
                tv = t_of(s.iter)
                for nme in ast.walk(s.target):
                    if isinstance(nme, ast.Name):
                        taint[nme.id] = set(tv)
                visit(s.body)
            elif isinstance(s, ast.If):
                visit(s.body)
                visit(s.orelse)
            elif isinstance(s, ast.Expr) and isinstance(s.value, ast.Call) and isinstance(s.value.func, ast.Attribute) and s.value.func.attr in ("update", "add") and isinstance(s.value.func.value, ast.Name):
                taint.setdefault(s.value.func.value.id, set()).update(*[t_of(a) for a in s.value.args] or [set()])

    # snapshot taints at the statements that define the totals: process in order, record at assignment time
    results = {}
    snap = {}

    def visit_rec(stmts):
        for s in stmts:
            if isinstance(s, ast.Assign) and isinstance(s.value, ast.BinOp) and isinstance(s.value.op, ast.Sub) and isinstance(s.targets[0], ast.Name):
                snap[s.targets[0].id] = (t_of(s.value.left), t_of(s.value.right), s)
            pairs_ = []
            if isinstance(s, ast.Assign):
                for t in s.targets:
                    if isinstance(t, ast.Attribute) and is_name(t.value, "self") and t.attr in ("breaks", "joins"):
                        pairs_.append((t.attr, s.value))
                    elif isinstance(t, ast.Tuple) and isinstance(s.value, ast.Tuple) and len(t.elts) == len(s.value.elts):
                        for te, ve in zip(t.elts, s.value.elts):
                            if isinstance(te, ast.Attribute) and is_name(te.value, "self") and te.attr in ("breaks", "joins"):
                                pairs_.append((te.attr, ve))
            for tgt, v in pairs_:
                if isinstance(v, ast.Call) and dotted(v.func) == "len" and v.args:
                    e = v.args[0]
                    if isinstance(e, ast.Name) and e.id in snap:
                        results[tgt] = (snap[e.id][0], snap[e.id][1], s)
                    elif isinstance(e, ast.BinOp) and isinstance(e.op, ast.Sub):
                        results[tgt] = (t_of(e.left), t_of(e.right), s)
                    else:
                        results[tgt] = (None, None, s)
                else:
                    results[tgt] = (None, None, s)
            visit([s]) if not isinstance(s, ast.For | ast.If) else None
            if isinstance(s, ast.For):
                tv = t_of(s.iter)
                for nme in ast.walk(s.target):
                    if isinstance(nme, ast.Name):
                        taint[nme.id] = set(tv)
                visit_rec(s.body)
            elif isinstance(s, ast.If):
                visit_rec(s.body)
                visit_rec(s.orelse)

    visit_rec(ms.node.body)
    for what, (lw, rw) in (("breaks", ({"IN"}, {"OUT"})), ("joins", ({"OUT"}, {"IN"}))):
        if what not in results:
            raise AnalysisError(f"{ms.short}: how self.{what} is assigned is not a form understood (len of a set difference, directly or through a local)")
            continue
        lt, rt, node = results[what]
        L.check(lt == lw and rt == rw, "R3", f"{ms.short}:{what}", f"len({'input − output' if what == 'breaks' else 'output − input'})", f"{what} is computed as len(<{sorted(lt) if lt else lt}> − <{sorted(rt) if rt else rt}>), expected {'input − output' if what == 'breaks' else 'output − input'}", ms.loc(node))
    # the input side is the whole input: union over every prefix set
    # the output side: every output assembly contributes
    loops = [n for n in walk_shallow(ms.node) if isinstance(n, ast.For)]
    out_loops = [l for l in loops if outp in norm(l.iter)]
    ok = any(not any(isinstance(x, ast.Continue | ast.Break) for x in walk_shallow(l)) and "fragment_junction_set()" in norm(l) for l in out_loops)
    L.check(ok, "R3", f"{ms.short}:all-outputs", "junctions of every output assembly are collected", "not every output assembly contributes to the output junction set", ms.loc())


# ------------------------------------------------------------------------------ R4


class _NoInline(SymExec):
    def inline(self, func):
        return False


def _r4(repo, L):
    ba = repo.cls("BuildAssembly")
    cut = ba.methods.get("cut_fragments")
    if cut is None:
        raise AnalysisError("anchor BuildAssembly.cut_fragments vanished")
    ex = _NoInline(repo, loop_iters=(1, 2, 3))
    st = State()
    st.heap[("self.assembly_stats", "cuts")] = Lin.atom("c0")
    ps = cut.params()
    finals = ex.run_function(cut, st, {ps[0]: Sym("self", ba), ps[1]: Sym("fnd")})
    ok, why, seen = True, "", set()
    for r in finals:
        trims = [e for e in r.effects if e[0] == "call" and any(t.endswith(".trim_fragment") for t in e[2][3])]
        k = len(trims)
        seen.add(k)
        try:
            got = as_lin(r.heap[("self.assembly_stats", "cuts")])
        except (KeyError, NotNumeric):
            ok, why = False, "cut counter is not an integer form after cutting"
            continue
        if got != Lin.atom("c0") + (k - 1):
            ok, why = False, f"a contig cut into {k} pieces advances the cut counter by {got - Lin.atom('c0')}, expected {k - 1}"
    if not seen or max(seen) < 2:
        raise AnalysisError(f"{cut.short}: no analysed path makes two or more trim_fragment calls (the cuts are made in a form the counter rule does not follow, e.g. a comprehension)")
    L.check(ok, "R4", cut.short, "cuts += pieces − 1 for 1..3 pieces", why, cut.loc())
    # Fragment construction sites in the remapping code: only the cut
    sites = []
    for f in repo.functions.values():
        if f.module.name in ("tola.assembly.build_assembly", "tola.assembly.build_utils", "tola.assembly.overlap_result", "tola.assembly.indexed_assembly", "tola.assembly.scaffold", "tola.assembly.assembly"):
            for c in repo.calls_in(f):
                if dotted(c.func) == "Fragment" and f.qualname in _remap_reach(repo):
                    sites.append(f)
    names = sorted({f.short for f in sites})
    L.check(names == ["OverlapResult.trim_fragment"], "R4", "Fragment()-sites", "remapping constructs fragments only in the cut", f"fragments are constructed in {names}: output fragment count no longer equals input contigs + cuts", "src/tola/assembly")


# ------------------------------------------------------------------------------ R5


def _r5(repo, L):
    wy = repo.try_func("write_info_yaml", "pretext_to_asm")
    cli = repo.try_func("cli", "pretext_to_asm")
    if wy is None or cli is None:
        raise AnalysisError("anchors pretext_to_asm.write_info_yaml / cli vanished")
    # the totals over all output assemblies are written whenever there is more than one assembly
    tot_ifs = [x for x in walk_shallow(wy.node) if isinstance(x, ast.If) and any(isinstance(b_, ast.Assign) and "manual_breaks" in norm(b_) for b_ in x.body)]
    if len(tot_ifs) == 1 and isinstance(tot_ifs[0].test, ast.Compare) and len(tot_ifs[0].test.ops) == 1:
        t_ = tot_ifs[0].test
        l_, r_, op_ = t_.left, t_.comparators[0], t_.ops[0]
        is_len = lambda e: isinstance(e, ast.Call) and dotted(e.func) == "len"  # noqa: E731
        k_l, k_r = try_fold(l_, default=None), try_fold(r_, default=None)
        least = None  # smallest count for which the block is written, when the test means "count >= least"
        if is_len(l_) and isinstance(k_r, int):
            least = {ast.Gt: k_r + 1, ast.GtE: k_r}.get(type(op_))
            exact = k_r if isinstance(op_, ast.Eq) else None
        elif is_len(r_) and isinstance(k_l, int):
            least = {ast.Lt: k_l + 1, ast.LtE: k_l}.get(type(op_))
            exact = k_l if isinstance(op_, ast.Eq) else None
        else:
            exact = None
        if least is not None:
            L.check(least == 2, "R5", wy.short + ":totals", "totals written for two or more output assemblies", f"the totals of manual breaks and joins are written only for {least} or more assemblies", wy.loc(tot_ifs[0]))
        elif exact is not None:
            L.fail("R5", wy.short + ":totals", f"the totals of manual breaks and joins are written only when there are exactly {exact} output assemblies: a map of three haplotypes has its per-assembly numbers but no totals in the info YAML", wy.loc(tot_ifs[0]), witness={"assemblies": exact + 1})
    # the tag constant used by the labeller
    namer = repo.cls("ScaffoldNamer")
    label = namer.methods["label_scaffold"]
    tagc = None
    for n in walk_shallow(label.node):
        if isinstance(n, ast.If) and "Haplotig" in norm(n.test):
            for s in n.body:
                if isinstance(s, ast.Assign) and norm(s.targets[0]).endswith(".tag") and isinstance(s.value, ast.Constant):
                    tagc = s.value.value
    if tagc is None:
        raise AnalysisError("haplotig tag constant not found in label_scaffold")
    gets = [c for c in walk_shallow(wy.node) if isinstance(c, ast.Call) and isinstance(c.func, ast.Attribute) and c.func.attr == "get" and is_name(c.func.value, wy.params()[2])]
    ok = len(gets) == 1 and isinstance(gets[0].args[0], ast.Constant) and gets[0].args[0].value == tagc
    L.check(ok, "R5", wy.short + ":key", f"haplotig assembly looked up under the tag {tagc!r}", f"haplotig count looks up {norm(gets[0].args[0]) if gets else None}, the builder files haplotigs under {tagc!r}", wy.loc())
    # the reported number, by constant propagation: 3 haplotig scaffolds -> 3 ; no haplotig assembly -> 0
    from ..finite import UNKNOWN, run_paths

    okc, whyc = True, ""
    if gets:
        gkey = norm(gets[0])
        for label_, val, want in (("three haplotig scaffolds", {"scaffolds": ("h1", "h2", "h3")}, 3), ("no haplotig assembly", None, 0)):
            res = run_paths(wy.node.body, {gkey: val}, loop_iters=(0, 1))
            got = set()
            for r in res:
                if r["path"].status == "raise":
                    continue
                vals = [v for (t, v, n) in r["stores"] if "haplotig" in t.lower() and "[" in t]
                got.add(repr(vals[-1]) if vals else "<not stored>")
            if got == {repr(UNKNOWN)} or (UNKNOWN in [None] and False):
                raise AnalysisError(f"{wy.short}: the reported haplotig count is not a function of the haplotig assembly's scaffold list that can be folded")
            if got != {repr(want)}:
                if any("UNKNOWN" in g for g in got):
                    raise AnalysisError(f"{wy.short}: reported haplotig count not foldable with {label_}: {sorted(got)}")
                okc, whyc = False, f"with {label_} the info file reports {sorted(got)} haplotig removals, expected {want}"
    L.check(okc, "R5", wy.short + ":count", "count = number of scaffolds of that assembly (0 when there is none)", whyc or "haplotig removals are not counted as the number of haplotig scaffolds", wy.loc())
    # order in cli: write_info_yaml(out_assemblies) before the renaming reassigns the variable
    call_wy = [c for c in repo.calls_in(cli) if dotted(c.func) == wy.name]
    ren = [n for n in walk_shallow(cli.node) if isinstance(n, ast.Assign) and isinstance(n.value, ast.Call) and dotted(n.value.func) == "name_assemblies"]
    ok2 = False
    why2 = "call structure not recognised"
    if len(call_wy) == 1 and len(ren) == 1:
        argv = call_wy[0].args[2] if len(call_wy[0].args) > 2 else None
        renamed_var = ren[0].targets[0].id if isinstance(ren[0].targets[0], ast.Name) else None
        if isinstance(argv, ast.Name) and argv.id == renamed_var:
            ok2 = pos(call_wy[0]) < pos(ren[0])
            why2 = "info yaml is written after the assemblies were renamed for output: the 'Haplotig' key no longer exists in single-haplotype maps and the count is always 0"
        elif isinstance(argv, ast.Name):
            ok2 = True
    L.check(ok2, "R5", cli.short + ":order", "statistics read from the builder's dictionary before output renaming", why2, cli.loc())
    # only scaffolds that have rows are registered (an emptied haplotig result must not be counted)
    from ..flow import PathEnum, cond_facts
    from .keys import fuse_site

    f, loop, var, key_expr, ctor, call = fuse_site(repo)
    ok3, why3 = True, ""
    for p in PathEnum((0, 1), exc_edges=False).block(loop.body):
        reg = None
        for i, e in enumerate(p.events):
            if e.kind in ("stmt", "cond") and any(x is call for x in ast.walk(e.node)):
                reg = i
                break
        if reg is None:
            continue
        nonempty = any(e.kind == "cond" and any(norm(t) == f"{var}.rows" and v for t, v in cond_facts(e.node, e.val)) for e in p.events[:reg])
        if not nonempty:
            ok3, why3 = False, "a build scaffold is registered before (or without) the test that it still has rows: a haplotig result emptied by the overhang resolution becomes a rowless H_n scaffold that is counted as a haplotig removal although nothing is written for it"
    L.check(ok3, "R5", f.short + ":non-empty", "only scaffolds that still have rows are registered and counted", why3, f.loc(call))


_REMAP_REACH = {}


def _remap_reach(repo):
    """functions the remapping (BuildAssembly.remap_to_input_assembly and the fusing / splitting that follows it) can reach"""
    k = id(repo)
    if k not in _REMAP_REACH:
        ba = repo.cls("BuildAssembly")
        roots = [m for nm, m in ba.methods.items() if nm in ("remap_to_input_assembly", "assemblies_with_scaffolds_fused", "scaffolds_fused_by_name")]
        _REMAP_REACH.clear()
        _REMAP_REACH[k] = set(repo.reachable_from(roots))
    return _REMAP_REACH[k]
