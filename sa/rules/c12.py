"""C12 — overlap lookup equals a brute-force scan of the scaffold.

 R1 the per-scaffold index is the cumulative end coordinate of each row
 R2 every index walk over a sequence is bounded on the side it moves towards
 R3 the returned span is computed from the same first/last index as the returned slice
 R4 empty / unindexed scaffolds raise the documented ValueError
 R5 every exclusion test of the search is exactly one-sided disjointness
    (row_end(k) < bait.start  |  row_start(k) > bait.end) and the search updates match the test
 R6 nothing is returned unless first <= last after gap stripping
"""

from __future__ import annotations

import ast

from ..flow import PathEnum
from ..model import AnalysisError, Func, Repo, dotted, is_name, norm, walk_shallow
from ..report import Ledger
from ..sym import eq0, B, b_and, Const, Lin, Range, Slice, State, Sym, SymExec, Tup, as_lin, b_not, cmp_lin, opaque, NotNumeric
from ..util import paths

PROP = "C12"
LEVEL = "other"
EXPLANATION = (
    "IndexedAssembly.add_scaffold is interpreted symbolically (index entry j == Σ_{m<=j} L(row_m)); find_overlaps is "
    "decomposed into its binary-search body, the two extension loops, the gap-stripping walks and the result construction, "
    "each interpreted symbolically with the row index as a free symbol: every exclusion test must be exactly "
    "row_end(k) < bait.start or row_start(k) > bait.end (row_start(k) = 1 if k == 0 else 1 + idx[k-1], row_end(k) = idx[k]) and "
    "must drive the matching search update; every while-loop that subscripts a sequence with a moving index must bound that "
    "index in its own test on the side it moves towards; the returned start/end/rows are forms of the same two indices. The "
    "sortedness induction behind binary search itself is not decided."
)


def run(repo: Repo, L: Ledger, tier: str):
    L.rule("R1", "index[j] == Σ_{m<=j} L(row_m)")
    L.rule("R2", "while-loops subscripting with a moving index bound that index in the same test")
    L.rule("R3", "returned start/end/rows are forms of the same (first, last) indices")
    L.rule("R4", "empty / unindexed scaffold raises ValueError")
    L.rule("R5", "search tests are exact one-sided disjointness and drive the matching update")
    L.rule("R6", "result only when first <= last")
    L.rule("R7", "the lookup consults rows only for their kind and length: bait and rows live in different coordinate systems")

    ia = repo.cls("IndexedAssembly")
    add = ia.methods.get("add_scaffold")
    find = ia.methods.get("find_overlaps")
    if add is None or find is None:
        raise AnalysisError("anchors IndexedAssembly.add_scaffold / find_overlaps vanished")

    _r1(repo, L, ia, add)
    _result_sites(repo, L, find)
    _bisect_calls(repo, L, find)
    scope = [m for m in repo.functions.values() if m.module.name in ("tola.assembly.indexed_assembly", "tola.assembly.overlap_result")]
    if tier == "thorough":
        scope = list(repo.functions.values())
    _r2(repo, L, scope)
    _r345(repo, L, ia, find)
    _r7(repo, L, find)


# ------------------------------------------------------------------------------ result sites / bisect


def _ends_known_not_gap(find: Func, p, ctor: ast.Call) -> bool:
    """The result's rows are `R[lo:hi]` (or all of R) and the path conditions include `not isinstance(R[lo], Gap)` and
    `not isinstance(R[hi-1], Gap)` (indices compared as linear forms over the path's locals)."""
    from ..flow import cond_facts
    from ..util import resolve_on_path

    rows = next((k.value for k in ctor.keywords if k.arg == "rows"), None)
    if rows is None:
        return False
    i_ret = len(p.events) - 1
    rows = resolve_on_path(p, i_ret, rows)
    if isinstance(rows, ast.Subscript) and isinstance(rows.slice, ast.Slice) and rows.slice.step is None:
        base, lo, hi = rows.value, rows.slice.lower, rows.slice.upper
    elif isinstance(rows, ast.Attribute | ast.Name):
        base, lo, hi = rows, None, None
    elif isinstance(rows, ast.List | ast.Tuple) and rows.elts and not any(isinstance(x, ast.Starred) for x in rows.elts):
        # rows=[row] / [a, b]: a literal list of rows, each of which the path must have tested
        ends = {norm(resolve_on_path(p, i_ret, rows.elts[0])), norm(resolve_on_path(p, i_ret, rows.elts[-1]))}
        tested = set()
        for i, e in enumerate(p.events):
            if e.kind != "cond":
                continue
            for t, v in cond_facts(e.node, e.val):
                if v is False and isinstance(t, ast.Call) and dotted(t.func) == "isinstance" and len(t.args) == 2 and dotted(t.args[1]) == "Gap":
                    tested.add(norm(resolve_on_path(p, i, t.args[0])))
        return ends <= tested
    else:
        raise AnalysisError(f"{find.short}: a result is built on a path that bypasses the terminal-gap walks with rows '{norm(rows)[:50]}': whether its first and last row can be gaps is not decided")
    bt = norm(base)

    def lin(e):
        try:
            return _alin(e)
        except Exception:
            return None

    want_first = lin(lo) if lo is not None else lin(ast.Constant(0))
    if hi is not None:
        hl = lin(hi)
        want_last = None if hl is None else hl - Lin.const(1)
    else:
        want_last = "LAST"
    if want_first is None or want_last is None:
        return False
    got_first = got_last = False
    for i, e in enumerate(p.events):
        if e.kind != "cond":
            continue
        for t, v in cond_facts(e.node, e.val):
            if v is False and isinstance(t, ast.Call) and dotted(t.func) == "isinstance" and len(t.args) == 2 and dotted(t.args[1]) == "Gap":
                a = resolve_on_path(p, i, t.args[0])
                if isinstance(a, ast.Subscript) and norm(a.value) == bt and not isinstance(a.slice, ast.Slice):
                    ix = a.slice
                    li = lin(ix)
                    if li is not None and li == want_first:
                        got_first = True
                    if want_last == "LAST":
                        if isinstance(ix, ast.UnaryOp) and isinstance(ix.op, ast.USub) and isinstance(ix.operand, ast.Constant) and ix.operand.value == 1:
                            got_last = True
                        if li is not None and li == lin(ast.parse(f"len({bt}) - 1", mode="eval").body):
                            got_last = True
                    elif li is not None and li == want_last:
                        got_last = True
    return got_first and got_last


def _r7(repo, L, find: Func):
    """The bait carries the *scaffold's* name and scaffold coordinates; a row carries its *contig's* name and the contig's own
    coordinates.  Whether a row overlaps the bait is a question about the row's position in the scaffold (the cumulative index),
    never about the row's own name/start/end: any comparison of the bait with those is a category error that happens to work
    only when a scaffold is one whole contig named after it."""
    rowish = set()

    def is_row_expr(e):
        if isinstance(e, ast.Subscript) and not isinstance(e.slice, ast.Slice) and isinstance(e.value, ast.Attribute) and e.value.attr == "rows":
            return True
        return isinstance(e, ast.Name) and e.id in rowish

    grew = True
    while grew:
        grew = False
        for n in walk_shallow(find.node):
            if isinstance(n, ast.Assign) and len(n.targets) == 1 and isinstance(n.targets[0], ast.Name) and is_row_expr(n.value) and n.targets[0].id not in rowish:
                rowish.add(n.targets[0].id)
                grew = True
            if isinstance(n, ast.For | ast.comprehension) and isinstance(n.target, ast.Name) and n.target.id not in rowish:
                it = n.iter
                if isinstance(it, ast.Subscript) and isinstance(it.slice, ast.Slice):
                    it = it.value
                if isinstance(it, ast.Attribute) and it.attr == "rows":
                    rowish.add(n.target.id)
                    grew = True
    bait = find.params()[1]
    bad = None
    n_uses = 0
    for n in walk_shallow(find.node):
        if isinstance(n, ast.Attribute) and is_row_expr(n.value):
            n_uses += 1
            if n.attr in ("name", "start", "end", "strand", "tags") and isinstance(n.ctx, ast.Load):
                par = getattr(n, "_parent", None)
                if not (isinstance(par, ast.Call) and par.func is n):
                    bad = bad or (n, f"reads '{norm(n)}', the row's own contig {n.attr}")
        if isinstance(n, ast.Call) and isinstance(n.func, ast.Attribute):
            recv, args = n.func.value, n.args
            if (is_name(recv, bait) and any(is_row_expr(a) for a in args)) or (is_row_expr(recv) and any(is_name(a, bait) for a in args)):
                n_uses += 1
                bad = bad or (n, f"decides with '{norm(n)[:50]}', which compares the bait with the row's own contig name and coordinates")
    if bad:
        node, what = bad
        L.fail(
            "R7", f"{find.short}:row-own-coordinates",
            f"the lookup {what}: the bait is in scaffold coordinates and carries the scaffold's name, the row is in its contig's; the test agrees with the scaffold interval only for a scaffold that is one whole contig named after it — for any other single-contig scaffold a query that intersects it is answered with nothing",
            find.loc(node), witness={"scaffold": "S = [ctg_7:1-5000]", "query": "S:1-5000", "expected": "the row", "returned": "None"},
        )
    else:
        L.ok("R7", f"{find.short}:row-own-coordinates", f"rows consulted only through isinstance/length ({n_uses} attribute uses examined)", find.loc())


def _result_sites(repo, L, find: Func):
    """R3/R6 must-pass-through: every path that returns a lookup result has gone through both terminal-gap walks
    (the while loops testing isinstance(<row>, Gap)) — no shortcut returns rows with leading/trailing gaps or an
    all-gap result."""
    strip = [w for w in walk_shallow(find.node) if isinstance(w, ast.While) and any(isinstance(c, ast.Call) and dotted(c.func) == "isinstance" and len(c.args) == 2 and dotted(c.args[1]) == "Gap" for c in ast.walk(w.test))]
    if len(strip) < 2:
        # gap stripping written differently: the rules below (R3/R6) will say what they can
        return
    n_ret = 0
    bad = None
    for p in paths(find, (0,), exc_edges=False):
        if p.status != "return":
            continue
        rets = [e.node for e in p.events if e.kind == "return"]
        if not rets or not (isinstance(rets[-1].value, ast.Call) and dotted(rets[-1].value.func) == "OverlapResult"):
            continue
        n_ret += 1
        seen = {id(e.node) for e in p.events if e.kind == "cond"}
        missing = [w for w in strip if id(w.test) not in seen]
        if missing and _ends_known_not_gap(find, p, rets[-1].value):
            continue  # the path has itself established that the first and the last row of the result are not gaps
        if missing and bad is None:
            bad = (rets[-1], p)
    L.check(
        bad is None, "R3", f"{find.short}:every-result-stripped", f"all {n_ret} result-returning paths pass through both terminal-gap walks",
        f"a lookup result is returned on a path that bypasses the terminal-gap walks ({bad[1].describe()[:160] if bad else ''}): leading/trailing gap rows (or only gap rows) are returned, and the span is not that of the first/last returned row",
        find.loc(bad[0]) if bad else find.loc(), witness={"scaffold": "[gap, frag, gap]", "query": "the whole scaffold"},
    )


def _bisect_calls(repo, L, find: Func):
    """A bisection of the cumulative-end index must land on the boundary the linear walk defines:
       first row with end >= bait.start  ==  bisect_left(idx, bait.start)
       last row with start <= bait.end   ==  bisect_left(idx, bait.end)          (row_start(k) = idx[k-1] + 1)
    bisect_right(a, x) == bisect_left(a, x + 1) on integers; any other landing point is off by one exactly when a row
    ends on the query boundary."""
    calls = [c for c in walk_shallow(find.node) if isinstance(c, ast.Call) and (dotted(c.func) or "").split(".")[-1] in ("bisect", "bisect_left", "bisect_right") and len(c.args) >= 2]
    if not calls:
        return
    bparam = find.params()[1]

    def lin_of(e, depth=0):
        if isinstance(e, ast.Name) and depth < 4:
            from ..util import local_defs

            ds = local_defs(find, e.id)
            if len(ds) == 1:
                return lin_of(ds[0], depth + 1)
        t = norm(e).replace(" ", "")
        if t in (f"{bparam}.start",):
            return Lin.atom("bs")
        if t in (f"{bparam}.end",):
            return Lin.atom("be")
        return _alin(e) if not isinstance(e, ast.Name) else Lin.atom(e.id)

    for c in calls:
        kind = (dotted(c.func) or "").split(".")[-1]
        x = lin_of(c.args[1])
        if isinstance(x, Lin) and any(isinstance(a, str) and a not in ("bs", "be") for a in dict(x.t)):
            # the probe may be written over locals: resolve them
            x2 = Lin.const(x.c)
            for a, k in dict(x.t).items():
                sub = lin_of(ast.Name(id=a, ctx=ast.Load())) if isinstance(a, str) and a.isidentifier() else None
                x2 = x2 + (sub.scale(k) if isinstance(sub, Lin) else Lin({a: k}))
            x = x2
        if x is None:
            raise AnalysisError(f"{find.short}: bisection probe '{norm(c.args[1])}' not understood")
        landing = x if kind == "bisect_left" else x + 1
        ok = landing == Lin.atom("bs") or landing == Lin.atom("be")
        off = any((landing - Lin.atom(a)).is_const() for a in ("bs", "be"))
        if not ok and not off:
            raise AnalysisError(f"{find.short}: bisection '{norm(c)[:60]}' is not a probe for the bait's start or end")
        L.check(
            ok, "R5", f"{find.short}:{kind}({norm(c.args[1])})", "bisection lands on the boundary the linear extension defines",
            f"{norm(c)[:70]} lands on the first index whose row end is >= {landing}: off by one when a row ends exactly on the query boundary — the lookup then returns a row that does not intersect the query (or drops one that does)",
            find.loc(c), witness={"rows": "contig rows, one ending exactly at the last base of the query", "expected": "bisect_left(idx, bait.start) / bisect_left(idx, bait.end)"},
        )


# ------------------------------------------------------------------------------ R1


def _r1(repo, L, ia, add):
    ex = SymExec(repo, loop_iters=(0, 1, 2, 3))
    st = State()
    ps = add.params()
    finals = ex.run_function(add, st, {ps[0]: Sym("self", ia), ps[1]: Sym("scffld", repo.cls("Scaffold"))})
    n = 0
    bad = None
    stored_scaffold = True
    for r in finals:
        stores = [e for e in r.effects if e[0] == "setitem"]
        idx_store = [e for e in stores if isinstance(e[2][0], Sym) and "index" in e[2][0].name]
        dict_store = [e for e in stores if isinstance(e[2][0], Sym) and "dict" in e[2][0].name]
        if len(idx_store) != 1:
            bad = bad or (r, f"{len(idx_store)} stores into the scaffold index on a completing path")
            continue
        val = idx_store[0][2][2]
        if not isinstance(val, Tup):
            bad = bad or (r, f"index value is {val!r}, not a list built in the function")
            continue
        tot = Lin.const(0)
        for j, item in enumerate(val.items):
            tot = tot + Lin.atom(f"scffld.rows[{j}].length")
            n += 1
            try:
                if as_lin(item) != tot:
                    bad = bad or (r, f"index entry {j} is {item!r}, expected the cumulative end {tot}")
            except NotNumeric:
                raise AnalysisError(f"{add.short}: index entry {j} is {item!r}, not an integer form: the index has another layout than the list of cumulative row ends the lookup rules are written for") from None
        if not dict_store or not (isinstance(dict_store[0][2][2], Sym) and dict_store[0][2][2].name == "scffld"):
            stored_scaffold = False
    if bad:
        L.fail("R1", add.short, bad[1], add.loc(), path=bad[0].path.describe() if bad[0].path else None)
    else:
        L.ok("R1", add.short, f"cumulative end index on {len(finals)} paths ({n} entries)", add.loc())
    L.check(stored_scaffold, "R1", add.short + ":store", "scaffold stored under its name together with its index", "scaffold object is not stored with its index", add.loc())
    L.floor("R1", "index entries checked", n, 3)


# ------------------------------------------------------------------------------ R2


def _moves(body, var):
    """+1 / -1 / 0 / None(unknown): how the loop body moves integer variable var."""
    dirs = set()
    for n in body:
        for x in [n, *walk_shallow(n)]:
            if isinstance(x, ast.AugAssign) and is_name(x.target, var):
                if isinstance(x.op, ast.Add):
                    dirs.add(1)
                elif isinstance(x.op, ast.Sub):
                    dirs.add(-1)
                else:
                    dirs.add(None)
            elif isinstance(x, ast.Assign) and any(is_name(t, var) for t in x.targets):
                v = x.value
                if isinstance(v, ast.BinOp) and is_name(v.left, var) and isinstance(v.op, ast.Add | ast.Sub):
                    dirs.add(1 if isinstance(v.op, ast.Add) else -1)
                else:
                    dirs.add(None)
    return dirs


def _conjuncts(test):
    if isinstance(test, ast.BoolOp) and isinstance(test.op, ast.And):
        out = []
        for v in test.values:
            out.extend(_conjuncts(v))
        return out
    return [test]


def _alin(e):
    """AST integer expression -> Lin over atoms (names, len(x), other subexpressions by text); None when not linear."""
    if isinstance(e, ast.Constant) and isinstance(e.value, int) and not isinstance(e.value, bool):
        return Lin.const(e.value)
    if isinstance(e, ast.Name):
        return Lin.atom(e.id)
    if isinstance(e, ast.UnaryOp) and isinstance(e.op, ast.USub):
        v = _alin(e.operand)
        return None if v is None else v.scale(-1)
    if isinstance(e, ast.BinOp) and isinstance(e.op, ast.Add | ast.Sub):
        a, b = _alin(e.left), _alin(e.right)
        if a is None or b is None:
            return None
        return a + b if isinstance(e.op, ast.Add) else a - b
    if isinstance(e, ast.Call | ast.Attribute | ast.Subscript):
        return Lin.atom(norm(e))
    return None


def _le_forms(conj):
    """comparison -> list of Lin L with the meaning L <= 0 (integers)"""
    if not isinstance(conj, ast.Compare) or len(conj.ops) != 1:
        return []
    a, b = _alin(conj.left), _alin(conj.comparators[0])
    if a is None or b is None:
        return []
    op = conj.ops[0]
    if isinstance(op, ast.Lt):
        return [a - b + 1]
    if isinstance(op, ast.LtE):
        return [a - b]
    if isinstance(op, ast.Gt):
        return [b - a + 1]
    if isinstance(op, ast.GtE):
        return [b - a]
    if isinstance(op, ast.Eq):
        return [a - b, b - a]
    return []


def _coef(lin: Lin, atom: str):
    return lin.t.get(atom, 0) if isinstance(lin.t, dict) else dict(lin.t).get(atom, 0)


def _bounds(conj, var, direction, seq_txt, index=None):
    """Does this conjunct bound the subscript `index` (default: var itself) on the side `var` moves towards?
    -> True (bounded) / False (not a bound on that side) / "short" (a bound that still lets the subscript leave the sequence)"""
    index = index if index is not None else Lin.atom(var)
    for L_ in _le_forms(conj):
        c = _coef(L_, var)
        if direction == 1 and c > 0:
            # L = var + rest <= 0.  Against len(seq): index <= len - 1 must follow
            want = index - Lin.atom(f"len({seq_txt})") + 1
            d = want - L_
            if c == 1 and d.is_const():
                return True if d.c <= 0 else "short"
            return True  # bounded by another index (e.g. i <= j)
        if direction == -1 and c < 0:
            want = index.scale(-1)  # -index <= 0
            d = want - L_
            if c == -1 and d.is_const():
                return True if d.c <= 0 else "short"
            return True
    return False


def _r2(repo, L, scope):
    n_loops = 0
    for f in sorted(scope, key=lambda x: x.qualname):
        for w in walk_shallow(f.node):
            if not isinstance(w, ast.While):
                continue
            subs = [s for s in ast.walk(w.test) if isinstance(s, ast.Subscript) and not isinstance(s.slice, ast.Slice)]
            if not subs:
                continue
            conj = _conjuncts(w.test)
            for s in subs:
                seq_txt = norm(s.value)
                inst = f"{f.short}:while {norm(w.test)[:70]}"
                # position of the conjunct holding the subscript
                pos = next(i for i, c in enumerate(conj) if any(x is s for x in ast.walk(c)))
                before = conj[:pos]
                ixl = _alin(s.slice)
                ixvars = [a for a in (dict(ixl.t) if ixl is not None else {}) if isinstance(a, str) and a.isidentifier() and _moves(w.body, a)]
                if ixl is not None and not ixl.is_const() and len(ixvars) == 1 and _coef(ixl, ixvars[0]) == 1:
                    var = ixvars[0]
                    dirs = _moves(w.body, var)
                    if not dirs:
                        continue  # index not moved by this loop: not an index walk
                    n_loops += 1
                    if None in dirs or len(dirs) != 1:
                        raise AnalysisError(f"{inst}: index '{var}' is moved in a way the walk rule does not understand inside a loop that subscripts {seq_txt}[{var}]")
                    d = dirs.pop()
                    res = [_bounds(c, var, d, seq_txt, ixl) for c in before]
                    ok = any(r is True for r in res)
                    side = "upper" if d == 1 else "lower"
                    L.check(
                        ok, "R2", inst,
                        f"index '{var}' bounded on its {side} side before the subscript",
                        f"loop walks '{var}' {'upwards' if d == 1 else 'downwards'} while subscripting {seq_txt}[{norm(s.slice)}] with no sufficient {side} bound in the test: a run of matching rows reaching the {'end' if d == 1 else 'start'} of the sequence {'raises IndexError' if d == 1 else 'wraps through index -1'}",
                        f.loc(w),
                        witness={"scaffold": "[frag, gap]" if d == 1 else "[gap, frag]", "query": "an interval covering only the terminal gap"},
                    )
                else:
                    c = None
                    try:
                        c = int(ast.literal_eval(s.slice))
                    except Exception:
                        continue
                    if c not in (0, -1):
                        continue
                    # constant terminal subscript in a loop that shrinks the sequence: needs an emptiness guard
                    shrinks = any(isinstance(x, ast.Call) and isinstance(x.func, ast.Attribute) and x.func.attr == "pop" and norm(x.func.value) == seq_txt for b in w.body for x in [b, *walk_shallow(b)]) or any(isinstance(x, ast.Delete) for b in w.body for x in [b, *walk_shallow(b)])
                    if not shrinks:
                        continue
                    n_loops += 1
                    ok = any(norm(cj) == seq_txt or (isinstance(cj, ast.Compare) and f"len({seq_txt})" in norm(cj)) for cj in before)
                    L.check(ok, "R2", inst, f"{seq_txt}[{c}] guarded by emptiness test while the loop pops", f"loop pops from {seq_txt} and tests {seq_txt}[{c}] without an emptiness guard: IndexError when the last row is removed", f.loc(w))
    L.floor("R2", "index-walk loops", n_loops, 2)


# ------------------------------------------------------------------------------ R3..R6


def _top_level_loops(f: Func):
    return [n for n in f.node.body if isinstance(n, ast.While | ast.For)]


def _r345(repo, L, ia, find: Func):
    body = find.node.body
    # ---- R4
    n4 = 0
    for p in paths(find, (0,), exc_edges=False):
        if p.status != "raise":
            continue
        conds = [(norm(e.node), e.val) for e in p.events if e.kind == "cond"]
        rz = [e.node for e in p.events if e.kind == "raise"][0]
        exc = rz.exc
        nm = dotted(exc.func) if isinstance(exc, ast.Call) else dotted(exc) if exc is not None else None
        if conds and conds[-1][0].startswith("not ") and conds[-1][1] is True:
            # the documented failures: an empty scaffold and a scaffold without index.  Other guards (internal range checks
            # that cannot fire, argument validation) may raise what they like
            subject = conds[-1][0][4:].strip()
            documented = subject.endswith(".rows") or subject in ("idx",) or "_scaffold_index" in subject or subject.isidentifier()
            if not documented:
                continue
            n4 += 1
            L.check(nm == "ValueError", "R4", f"{find.short}:{conds[-1][0]}", "raises ValueError", f"raises {nm} instead of the documented ValueError when {conds[-1][0]}", find.loc(rz))
    L.floor("R4", "guard raises in find_overlaps", n4, 2)

    # ---- locate pieces
    bait_p = find.params()[1]
    env0 = {
        find.params()[0]: Sym("self", ia),
        bait_p: Sym("bait", repo.cls("Fragment")),
    }
    ex = SymExec(repo, loop_iters=(1,))
    st = State()
    st.env = dict(env0)
    st.env["__func__"] = find
    # straight-line prefix up to the first loop: defines idx, bait_start, bait_end, a, z ...
    first_loop = next((i for i, n in enumerate(body) if isinstance(n, ast.While | ast.For)), None)
    if first_loop is None:
        raise AnalysisError("find_overlaps has no search loop")
    pre = [r for r in ex.run_block(body[:first_loop], st, find, loop_iters=(0,)) if r.status == "run"]
    if len(pre) != 1:
        raise AnalysisError(f"find_overlaps prefix has {len(pre)} fall-through paths")
    st1 = pre[0]
    # name the index list and row list symbols
    idx_var = None
    for k, v in st1.env.items():
        if isinstance(v, Sym) and "index" in v.name and isinstance(k, str):
            idx_var = k
    if idx_var is None:
        raise AnalysisError("index list variable not found in find_overlaps")
    st1.env[idx_var] = Sym("idx")
    bs, be = Lin.atom("bait._start"), Lin.atom("bait._end")

    def row_end(k: Lin):
        return Lin.atom(f"idx[{k!r}]")

    def row_start_nz(k: Lin):
        return Lin.atom(f"idx[{(k - 1)!r}]") + 1

    loops = [n for n in body if isinstance(n, ast.While | ast.For)]
    whiles = [n for n in loops if isinstance(n, ast.While)]
    fors = [n for n in loops if isinstance(n, ast.For)]
    # ---- R5a binary search: first while whose test compares two names
    def window_test(w):
        for cj in _conjuncts(w.test):
            if isinstance(cj, ast.Compare) and len(cj.ops) == 1 and isinstance(cj.left, ast.Name) and isinstance(cj.comparators[0], ast.Name):
                return cj
        return None

    bs_loop = next((w for w in whiles if window_test(w) is not None and not any(isinstance(x, ast.Subscript) for x in ast.walk(w.test))), None)
    if bs_loop is None:
        raise AnalysisError("binary-search loop not recognised in find_overlaps")
    wt_ = window_test(bs_loop)
    lo_v, hi_v = wt_.left.id, wt_.comparators[0].id
    ok_test = isinstance(wt_.ops[0], ast.Lt)
    L.check(ok_test, "R5", f"{find.short}:bsearch-test", f"search continues while {lo_v} < {hi_v}", f"search loop test is '{norm(bs_loop.test)}' (half-open window needs {lo_v} < {hi_v})", find.loc(bs_loop))
    # initial window
    try:
        ok_init = as_lin(st1.env[lo_v]) == Lin.const(0) and as_lin(st1.env[hi_v]) == Lin.atom("len(idx)")
    except Exception:
        ok_init = False
    # hi may have been computed before idx was renamed
    if not ok_init:
        try:
            ok_init = as_lin(st1.env[lo_v]) == Lin.const(0) and any(str(a).startswith("len(") for a in as_lin(st1.env[hi_v]).t) and as_lin(st1.env[hi_v]).c == 0
        except Exception:
            ok_init = False
    L.check(ok_init, "R5", f"{find.short}:bsearch-window", "window starts as [0, len(idx))", f"initial search window is [{st1.env.get(lo_v)!r}, {st1.env.get(hi_v)!r})", find.loc(bs_loop))
    # midpoint statement = first statement of the body
    mid_stmt = bs_loop.body[0]
    if not (isinstance(mid_stmt, ast.Assign) and isinstance(mid_stmt.targets[0], ast.Name)):
        raise AnalysisError("binary-search body does not start with the midpoint assignment")
    mvar = mid_stmt.targets[0].id
    stb = st1.clone()
    stb.env[lo_v], stb.env[hi_v] = Lin.atom("a"), Lin.atom("z")
    mval = ex.eval(mid_stmt.value, stb, find)
    a_, z_ = Lin.atom("a"), Lin.atom("z")
    try:
        ml = as_lin(mval)
        ok_mid = ml == a_ + opaque("fdiv", z_ - a_, Lin.const(2)) or ml == opaque("fdiv", a_ + z_, Lin.const(2))
    except NotNumeric:
        ok_mid = False
    L.check(ok_mid, "R5", f"{find.short}:midpoint", "a <= m < z (floor midpoint)", f"midpoint is {mval!r}", find.loc(mid_stmt))
    found_var = None
    for zero in (True, False):
        s2 = stb.clone()
        m = Lin.atom("m")
        s2.env[mvar] = m
        s2.pc.append(eq0(m) if zero else b_not(eq0(m)))
        r_start = Lin.const(1) if zero else row_start_nz(m)
        left_of = cmp_lin("<", row_end(m), bs)
        right_of = cmp_lin(">", r_start, be)
        outs = ex.run_block(bs_loop.body[1:], s2, find, loop_iters=(0,))
        kinds = {}
        for r in outs:
            a1, z1 = r.env.get(lo_v), r.env.get(hi_v)
            facts = [f for f in r.pc if f not in s2.pc]
            changed = [k for k in r.env if isinstance(k, str) and k not in (lo_v, hi_v, mvar) and repr(r.env.get(k)) != repr(s2.env.get(k)) and isinstance(r.env.get(k), Lin) and r.env[k] == m]
            if a1 == m + 1 and z1 == z_:
                kind = "right"
                want_pos, want = left_of, [left_of]
            elif z1 == m and a1 == a_:
                kind = "left"
                want_pos = right_of
            elif a1 == a_ and z1 == z_ and changed and r.status == "break":
                kind = "found"
                found_var = changed[0]
                want_pos = None
            else:
                kind = f"other(a'={a1!r}, z'={z1!r}, status={r.status})"
                want_pos = None
            kinds.setdefault(kind, []).append((r, facts))
        inst = f"{find.short}:bsearch[m{'==0' if zero else '>0'}]"
        if any(k.startswith("other(") and "status=raise" in k for k in kinds):
            raise AnalysisError(f"{find.short}: the binary-search body can raise ({[k for k in kinds if 'raise' in k][0]}): whether that guard can fire is not decided")
        okk = set(kinds) == {"right", "left", "found"}
        why = f"search step has outcomes {sorted(kinds)} (expected: move right, move left, found+break)"
        if okk:
            for r, facts in kinds["right"]:
                if left_of not in facts or right_of in facts:
                    okk, why = False, f"window moves right (a = m+1) under {facts}, expected row_end(m) < bait.start i.e. {left_of}"
            for r, facts in kinds["left"]:
                if right_of not in facts or left_of in facts:
                    okk, why = False, f"window moves left (z = m) under {facts}, expected row_start(m) > bait.end i.e. {right_of}"
            for r, facts in kinds["found"]:
                if b_not(left_of) not in facts or b_not(right_of) not in facts:
                    okk, why = False, f"row m accepted as overlapping under {facts}, expected both not({left_of}) and not({right_of})"
        L.check(okk, "R5", inst, "left-of / right-of / overlapping tests are exact one-sided disjointness", why, find.loc(bs_loop))

    # no row is accepted before it has been compared with the bait: when the window is exhausted without a hit
    # (loop left through its test, not through the found-break) the function returns None before anything else
    ext_first = next((n for n in body[body.index(bs_loop) + 1:] if isinstance(n, ast.While | ast.For)), None)
    seg = body[body.index(bs_loop): body.index(ext_first)] if ext_first is not None else body[body.index(bs_loop):]
    exh = [r for r in ex.run_block(seg, st1.clone(), find, loop_iters=(0,)) if r.status != "infeasible"]
    ok_exh = bool(exh) and all(r.status == "return" and isinstance(r.ret, Const) and r.ret.v is None for r in exh)
    fv_txt = found_var or "hit"
    L.check(
        ok_exh, "R5", f"{find.short}:hit-init", "an exhausted search window returns None (every hit comes out of the comparison)",
        f"with an empty search window (no row compared) the function does not return None: the hit index '{fv_txt}' is "
        + (f"{st1.env.get(found_var)!r}" if found_var and found_var in st1.env else "unset")
        + " and a row can be returned without ever being compared with the query (e.g. a single-row scaffold queried beyond its end)",
        find.loc(bs_loop), witness={"scaffold": "[frag(1..100)]", "query": "200..300", "expected": None},
    )
    # not found => None
    after_bs = body[body.index(bs_loop) + 1:]
    # ---- R5b extension loops
    ext_whiles = [w for w in whiles if w is not bs_loop and body.index(w) > body.index(bs_loop) and any(isinstance(x, ast.Subscript) and is_name(x.value, idx_var) for x in ast.walk(w.test))]
    if len(fors) + len(ext_whiles) < 2:
        raise AnalysisError(f"expected two extension loops in find_overlaps, found {len(fors) + len(ext_whiles)}")
    seen_dirs = set()
    first_v = last_v = None
    for w in ext_whiles:
        s3 = st1.clone()
        if found_var:
            s3.env[found_var] = Lin.atom("ovr")
        for stmt in after_bs:
            if stmt is w:
                break
            if isinstance(stmt, ast.Assign):
                for r in ex.run_block([stmt], s3, find, loop_iters=(0,)):
                    s3 = r
        if w.orelse:
            raise AnalysisError("extension while-loop with an else clause: not understood")
        moved_vars = sorted({t.id for b in w.body for x in [b, *walk_shallow(b)] if isinstance(x, ast.AugAssign | ast.Assign) for t in ([x.target] if isinstance(x, ast.AugAssign) else x.targets) if isinstance(t, ast.Name)})
        if len(moved_vars) != 1 or _moves(w.body, moved_vars[0]) not in ({1}, {-1}):
            raise AnalysisError(f"extension while-loop at line {w.lineno}: the boundary index it moves is not recognised ({moved_vars})")
        var = moved_vars[0]
        d = _moves(w.body, var).pop()
        direction = "left" if d == -1 else "right"
        seen_dirs.add(direction)
        try:
            ok_init = as_lin(s3.env.get(var)) == Lin.atom("ovr")
        except Exception:
            ok_init = False
        L.check(ok_init, "R5", f"{find.short}:extend-{direction}:range", f"{direction} extension starts at the hit and visits every row {direction} of it", f"{direction} extension starts from {s3.env.get(var)!r}, not from the hit", find.loc(w))
        k = Lin.atom("k")
        s4 = s3.clone()
        s4.env[var] = k - d
        tb = ex.truth(ex.eval(w.test, s4, find))
        bound = cmp_lin(">=", k, Lin.const(0)) if d == -1 else cmp_lin("<", k, Lin.atom("len(idx)"))
        excl = cmp_lin("<", row_end(k), bs) if d == -1 else cmp_lin(">", row_start_nz(k), be)
        want = b_and([bound, b_not(excl)])
        conj_got = set(map(repr, tb.a if tb.kind == "and" else [tb]))
        conj_want = set(map(repr, want.a if want.kind == "and" else [want]))
        okx, whyx = conj_got == conj_want, f"{direction} extension continues while {tb!r}; it must continue exactly while the next row exists and is not disjoint on that side: {want!r}"
        outs = [r for r in ex.run_block(w.body, s4.clone(), find, loop_iters=(0,)) if r.status != "infeasible"]
        for r in outs:
            try:
                stepped = as_lin(r.env.get(var)) == k
            except Exception:
                stepped = False
            if r.status != "run" or not stepped:
                okx, whyx = False, f"{direction} extension body does not simply step the boundary onto the accepted row (status {r.status}, {var} = {r.env.get(var)!r})"
        L.check(okx, "R5", f"{find.short}:extend-{direction}", f"extends while the row intersects the bait on the {direction} side", whyx, find.loc(w))
        if direction == "left":
            first_v = var
        else:
            last_v = var
    for fl in fors:
        s3 = st1.clone()
        if found_var:
            s3.env[found_var] = Lin.atom("ovr")
        # variables initialised from ovr before the loops (i_ovr = j_ovr = ovr)
        for stmt in after_bs:
            if stmt is fl:
                break
            if isinstance(stmt, ast.Assign):
                for r in ex.run_block([stmt], s3, find, loop_iters=(0,)):
                    s3 = r
        itv = ex.eval(fl.iter, s3, find)
        if not isinstance(itv, Range):
            raise AnalysisError(f"extension loop iterates over {norm(fl.iter)}, not a range")
        lo, hi, step = (as_lin(x) for x in itv.bounds())
        ovr = Lin.atom("ovr")
        kv = fl.target.id
        if step == Lin.const(-1):
            direction = "left"
            ok_rng = lo == ovr - 1 and hi == Lin.const(-1)
            rng_txt = "range(ovr-1, -1, -1)"
        else:
            direction = "right"
            def is_len_of_index(h):
                if h == Lin.atom("len(idx)"):
                    return True
                ts = dict(h.t)
                # len(<the local that holds the scaffold's row-end index>), whatever that local is called
                index_locals = {t_.id for n_ in walk_shallow(find.node) if isinstance(n_, ast.Assign) and "_scaffold_index" in norm(n_.value) for t_ in n_.targets if isinstance(t_, ast.Name)}
                return h.c == 0 and len(ts) == 1 and all(isinstance(a, str) and a.startswith("len(") and ("index" in a or "idx" in a or a[4:-1] in index_locals) and k_ == 1 for a, k_ in ts.items())

            ok_rng = lo == ovr + 1 and step == Lin.const(1) and is_len_of_index(hi)
            rng_txt = "range(ovr+1, len(idx))"
        seen_dirs.add(direction)
        L.check(ok_rng, "R5", f"{find.short}:extend-{direction}:range", f"visits every row {direction} of the hit: {rng_txt}", f"{direction} extension iterates range({lo}, {hi}, {step}), expected {rng_txt}", find.loc(fl))
        k = Lin.atom("k")
        s4 = s3.clone()
        s4.env[kv] = k
        s4.pc.append(b_not(eq0(k)))  # k > 0 for the right loop (k >= ovr+1); for the left loop use row_end only
        outs = ex.run_block(fl.body, s4, find, loop_iters=(0,))
        excl = cmp_lin("<", row_end(k), bs) if direction == "left" else cmp_lin(">", row_start_nz(k), be)
        okx, whyx = True, ""
        got_break = got_ext = False
        for r in outs:
            facts = [f for f in r.pc if f not in s4.pc]
            moved = [v for v in r.env if isinstance(v, str) and v != kv and isinstance(r.env.get(v), Lin) and r.env[v] == k and repr(s4.env.get(v)) != repr(k)]
            if r.status == "break":
                got_break = True
                if excl not in facts:
                    okx, whyx = False, f"{direction} extension stops under {facts}; it must stop exactly when the row is disjoint on that side: {excl}"
                if moved:
                    okx, whyx = False, "boundary index updated on the stopping path"
            else:
                got_ext = True
                if b_not(excl) not in facts:
                    okx, whyx = False, f"{direction} extension continues under {facts}; expected not({excl})"
                if len(moved) != 1:
                    okx, whyx = False, f"{direction} extension does not record the row index on the continuing path (updated: {moved})"
                else:
                    if direction == "left":
                        first_v = moved[0]
                    else:
                        last_v = moved[0]
        if not (got_break and got_ext):
            okx, whyx = False, "extension loop lacks a stopping or a continuing path"
        L.check(okx, "R5", f"{find.short}:extend-{direction}", f"extends while the row intersects the bait on the {direction} side", whyx, find.loc(fl))
    L.check(seen_dirs == {"left", "right"}, "R5", f"{find.short}:extend-both", "extension in both directions", f"extension directions: {sorted(seen_dirs)}", find.loc())

    # ---- R3 / R6: result construction
    ret = None
    for n in walk_shallow(find.node):
        if isinstance(n, ast.Return) and isinstance(n.value, ast.Call) and dotted(n.value.func) == "OverlapResult":
            ret = n
    if ret is None:
        raise AnalysisError("find_overlaps does not return an OverlapResult(...)")
    if first_v is None or last_v is None:
        raise AnalysisError("first/last index variables not identified")
    last_loop = max(body.index(l) for l in loops)
    # the top-level statement that holds the construction (the return itself, or an if/else whose branches each return one); with
    # several constructions (a fast path before the search) the one after the search loops is the general result
    cands_ = [n for n in walk_shallow(find.node) if isinstance(n, ast.Return) and isinstance(n.value, ast.Call) and dotted(n.value.func) == "OverlapResult"]
    for c_ in cands_:
        t_ = next((b_ for b_ in body if any(x is c_ for x in ast.walk(b_))), None)
        if t_ is not None and body.index(t_) > max(body.index(l) for l in loops):
            ret = c_
    top_ = next((b_ for b_ in body if any(x is ret for x in ast.walk(b_))), None)
    tail = body[last_loop + 1: body.index(top_) + 1] if top_ is not None and body.index(top_) > last_loop else None
    if tail is None:
        raise AnalysisError("result construction is not at the top level of find_overlaps")
    i, j = Lin.atom("FIRST"), Lin.atom("LAST")
    for zero in (True, False):
        s5 = st1.clone()
        s5.env[first_v], s5.env[last_v] = i, j
        s5.pc.append(eq0(i) if zero else b_not(eq0(i)))

        class _Cap(SymExec):
            captured = None

            def construct(self_, st, n, cls, args, kwargs, func, depth):
                if cls.name == "OverlapResult":
                    _Cap.captured = (args, kwargs, list(st.pc))
                    return Sym("result")
                return super().construct(st, n, cls, args, kwargs, func, depth)

        cx = _Cap(repo, loop_iters=(0,))
        _Cap.captured = None
        outs = cx.run_block(tail, s5, find, loop_iters=(0,))
        if _Cap.captured is None:
            raise AnalysisError("OverlapResult construction not reached symbolically")
        args, kwargs, pc = _Cap.captured
        init = repo.find_method(repo.cls("OverlapResult"), "__init__")
        names = init.params()[1:]
        bound = dict(zip(names, args))
        bound.update(kwargs)
        inst = f"{find.short}:result[i{'==0' if zero else '>0'}]"
        want_start = Lin.const(1) if zero else row_start_nz(i)
        try:
            ok_s = as_lin(bound.get("start")) == want_start
            ok_e = as_lin(bound.get("end")) == row_end(j)
        except (NotNumeric, TypeError):
            ok_s = ok_e = False
        L.check(ok_s, "R3", inst + ":start", f"start == {want_start}", f"returned start is {bound.get('start')!r}, expected the scaffold coordinate of the first returned row {want_start}", find.loc(ret))
        L.check(ok_e, "R3", inst + ":end", "end == idx[j]", f"returned end is {bound.get('end')!r}, expected the cumulative end of the last returned row idx[j]", find.loc(ret))
        rows = bound.get("rows")
        ok_r = isinstance(rows, Slice) and isinstance(rows.obj, Sym) and rows.obj.name.endswith(".rows") and rows.step is None
        if ok_r:
            try:
                ok_r = (as_lin(rows.lo) == i if rows.lo is not None else zero) and as_lin(rows.hi) == j + 1
            except (NotNumeric, TypeError):
                ok_r = False
        L.check(ok_r, "R3", inst + ":rows", "rows == scaffold.rows[i : j+1]", f"returned rows are {rows!r}, expected the slice [i : j+1] of the scaffold's rows", find.loc(ret))
        b = bound.get("bait")
        L.check(isinstance(b, Sym) and b.name == "bait", "R3", inst + ":bait", "bait passed through", f"bait is {b!r}", find.loc(ret))
        # R6
        guard = cmp_lin("<=", i, j)
        L.check(guard in pc, "R6", inst, "constructed only under i <= j", "a result is constructed without the test first <= last: a query touching only gap rows would return an empty or inverted slice", find.loc(ret))
