"""C13 — streaming is memory-bounded (memory clause; byte identity across buffer sizes is a runtime fact).

 R1 the indexer consumes the FASTA handle by line iteration only
 R2 the residue buffer is the only per-residue accumulator and is flushed: every write is followed on all paths
    by the size test against the buffer_size parameter and the flush; the flush empties the buffer; the
    parameter is the index object's configured size
 R3 every chunk handed out is at most buffer_size residues (sequence chunks and gap chunks), one per yield
 R4 the scaffold writer accumulates nothing across chunks
 R5 the CLI's streaming call graph does not reach the whole-record readers; only the chunkers fetch bytes
"""

from __future__ import annotations

import ast

from ..flow import PathEnum, cond_facts
from ..fold import try_fold
from ..model import AnalysisError, Func, Repo, dotted, is_name, norm, walk_shallow
from ..report import Ledger
from ..sym import Lin, State, Sym, SymExec, as_lin, NotNumeric
from ..util import end_pos, pos, arg_for_param, contains, names_in, paths
from .shared import analyse_chunker, chunk_spec, fetch_call, gap_iter_exact, _ChunkExec

PROP = "C13"
LEVEL = "other"
EXPLANATION = (
    "Memory-boundedness is decided structurally: the indexer's use of the file handle (iteration and tell() only), the "
    "pairing of every buffer write with the size test and flush on all paths, the emptying of the buffer by the flush, and an "
    "affine upper-bound argument for chunk sizes (chunk_end − chunk_start + 1 ≤ buffer_size by substituting one argument of "
    "min(); gap chunks likewise) over the symbolic summaries of the chunk generators; the writer is checked to consume chunks "
    "with bounded reads only, and a who-may-call rule keeps whole-record readers out of the CLI's call graph. Assumes "
    "sequence_bytes(s, e) holds e − s + 1 residues. Byte identity across buffer sizes is not decided."
)


def _write_back_bounded(proc: Func, call: ast.Call, bp: str):
    """buf.write(X[-k:]) / buf.write(X[a:]) inside the flush: True when every path to it carries a condition `k <= E` (or
    `k < E`) with E an expression over the buffer-size parameter and constants only; False when some path has no upper bound
    on k at all; None when the written expression is not a tail slice with a local length."""
    from ..flow import cond_facts
    from ..util import resolve_on_path

    if not call.args:
        return None
    x = call.args[0]
    if not (isinstance(x, ast.Subscript) and isinstance(x.slice, ast.Slice) and x.slice.upper is None and x.slice.step is None and isinstance(x.slice.lower, ast.UnaryOp) and isinstance(x.slice.lower.op, ast.USub) and isinstance(x.slice.lower.operand, ast.Name)):
        return None
    k = x.slice.lower.operand.id

    def const_in_bp(e):
        return all((isinstance(n, ast.Name) and n.id == bp) or not isinstance(n, ast.Name | ast.Call | ast.Attribute | ast.Subscript) for n in ast.walk(e)) and any(isinstance(n, ast.Name) and n.id == bp for n in ast.walk(e)) or (try_fold(e, default=None) is not None and isinstance(try_fold(e, default=None), int))

    n_paths = 0
    for p in paths(proc, (0, 1), exc_edges=False):
        hit = next((i for i, e in enumerate(p.events) if e.kind == "stmt" and any(c is call for c in [e.node, *walk_shallow(e.node)])), None)
        if hit is None:
            continue
        n_paths += 1
        bounded = False
        for e in p.events[:hit]:
            if e.kind != "cond":
                continue
            for t, v in cond_facts(e.node, e.val):
                if not isinstance(t, ast.Compare):
                    continue
                # split chains a < k <= E into pairs
                ops = [t.left, *t.comparators]
                for (l, op, r) in zip(ops, t.ops, ops[1:]):
                    o = op
                    if not v:
                        if len(t.ops) != 1:
                            continue
                        o = {ast.Gt: ast.LtE(), ast.GtE: ast.Lt(), ast.Lt: ast.GtE(), ast.LtE: ast.Gt()}.get(type(op))
                        if o is None:
                            continue
                    if isinstance(l, ast.Name) and l.id == k and isinstance(o, ast.Lt | ast.LtE) and const_in_bp(r):
                        bounded = True
                    if isinstance(r, ast.Name) and r.id == k and isinstance(o, ast.Gt | ast.GtE) and const_in_bp(l):
                        bounded = True
        if not bounded:
            return False
    return True if n_paths else None


def run(repo: Repo, L: Ledger, tier: str):
    L.rule("R1", "FASTA handle used only by `for line in fh` and tell()")
    L.rule("R2", "buffer write → size test vs buffer_size → flush on all paths; flush empties; parameter = configured size")
    L.rule("R3", "chunk_end − chunk_start + 1 ≤ buffer_size; gap chunk ≤ buffer_size; one chunk per yield")
    L.rule("R4", "writer: bounded reads of the current chunk only; nothing accumulates")
    L.rule("R5", "CLI does not reach whole-record readers; sequence_bytes called only by the chunkers")
    L.rule("R6", "where a flush falls does not matter: the residue counter changes outside the flush only with the buffer empty (shared with C04.R4)")

    idx = repo.try_func("index_fasta_file", "tola.fasta.index")
    if idx is None:
        raise AnalysisError("anchor index.index_fasta_file vanished")
    proc = idx.nested.get("process_seq_buffer")
    if proc is None:
        raise AnalysisError("anchor process_seq_buffer vanished")

    # ---- R1
    handles = []
    for w in walk_shallow(idx.node):
        if isinstance(w, ast.With):
            for it in w.items:
                if isinstance(it.context_expr, ast.Call) and isinstance(it.context_expr.func, ast.Attribute) and it.context_expr.func.attr == "open" and it.optional_vars is not None:
                    handles.append((it.optional_vars.id, w))
    if len(handles) != 1:
        raise AnalysisError(f"index_fasta_file: {len(handles)} file handles opened")
    fh, wnode = handles[0]
    bad = []
    n_uses = 0
    for f in [idx, *idx.nested.values()]:
        for n in walk_shallow(f.node):
            if isinstance(n, ast.Name) and n.id == fh and isinstance(n.ctx, ast.Load):
                par = getattr(n, "_parent", None)
                n_uses += 1
                if isinstance(par, ast.For) and par.iter is n:
                    continue
                if isinstance(par, ast.Attribute) and par.attr in ("tell", "seek", "readline", "close", "name", "closed", "fileno", "mode"):
                    continue
                # lazy wrappers around line iteration: for i, line in enumerate(fh, 1) / iter(fh) / zip(count(), fh)
                if isinstance(par, ast.Call) and dotted(par.func) in ("enumerate", "iter", "zip", "itertools.chain", "chain") and n in par.args:
                    gp = getattr(par, "_parent", None)
                    if isinstance(gp, ast.For) and gp.iter is par:
                        continue
                # consumers of the whole file
                whole = (isinstance(par, ast.Call) and dotted(par.func) in ("list", "tuple", "sorted", "set", "frozenset", "bytes", "bytearray") and n in par.args) or (
                    isinstance(par, ast.Call) and isinstance(par.func, ast.Attribute) and par.func.attr == "join" and n in par.args
                ) or (isinstance(par, ast.Attribute) and par.attr in ("readlines", "readall"))
                if isinstance(par, ast.Attribute) and par.attr == "read":
                    rc_ = getattr(par, "_parent", None)
                    if isinstance(rc_, ast.Call) and rc_.func is par:
                        if not rc_.args and not rc_.keywords:
                            whole = True
                        else:
                            continue  # sized read: bounded by its argument (R2/R3 look at the buffer arithmetic)
                if whole:
                    bad.append(norm(par)[:60])
                else:
                    raise AnalysisError(f"{f.short}: the FASTA handle is used as '{norm(par)[:70]}': neither line iteration nor a read of the whole file — form not understood")
    # whole-file reads through the path object
    for f in [idx, *idx.nested.values()]:
        for c in repo.calls_in(f):
            if isinstance(c.func, ast.Attribute) and c.func.attr in ("read_bytes", "read_text", "readlines"):
                bad.append(norm(c)[:60])
            if isinstance(c.func, ast.Attribute) and c.func.attr == "read" and not c.args:
                bad.append(norm(c)[:60])
    L.check(not bad, "R1", idx.short + ":handle", f"{n_uses} uses of the handle: line iteration / tell()", f"the FASTA is read other than line by line: {bad[:3]} — a whole file or chromosome can be held in memory", idx.loc(wnode))

    # ---- R2
    loop = next((n for n in walk_shallow(wnode) if isinstance(n, ast.For) and is_name(n.iter, fh)), None)
    if loop is None:
        raise AnalysisError("line loop not found")
    line = loop.target.id
    buf_params = [p for p in idx.params() if "buffer" in p]
    if not buf_params:
        raise AnalysisError("index_fasta_file has no buffer size parameter")
    bp = buf_params[0]
    # buffer variable: BytesIO created in idx
    bufs = [n.targets[0].id for n in walk_shallow(idx.node) if isinstance(n, ast.Assign) and isinstance(n.value, ast.Call) and (dotted(n.value.func) or "").endswith("BytesIO") and isinstance(n.targets[0], ast.Name)]
    if len(bufs) != 1:
        raise AnalysisError(f"{len(bufs)} residue buffers in index_fasta_file")
    buf = bufs[0]
    ok, why = True, ""
    n_w = 0
    for p in PathEnum((0, 1), exc_edges=False).block(loop.body):
        wi = [i for i, e in enumerate(p.events) if e.kind == "stmt" and any(isinstance(c, ast.Call) and isinstance(c.func, ast.Attribute) and c.func.attr == "write" and is_name(c.func.value, buf) for c in [e.node, *walk_shallow(e.node)])]
        if not wi:
            continue
        n_w += 1
        tested = flushed = False
        for e in p.events[wi[-1] + 1:]:
            if e.kind == "cond":
                t = e.node
                if isinstance(t, ast.Compare) and len(t.ops) == 1:
                    l, r = norm(t.left), norm(t.comparators[0])
                    if (l in (f"{buf}.tell()", f"len({buf}.getvalue())", f"{buf}.getbuffer().nbytes") and r == bp and isinstance(t.ops[0], ast.Gt | ast.GtE)) or (r in (f"{buf}.tell()",) and l == bp and isinstance(t.ops[0], ast.Lt | ast.LtE)):
                        tested = True
                        if e.val:
                            nxt = p.events[p.events.index(e) + 1:]
                            flushed = any(ev.kind == "stmt" and any(isinstance(c, ast.Call) and dotted(c.func) == proc.name for c in [ev.node, *walk_shallow(ev.node)]) for ev in nxt)
                            if not flushed:
                                ok, why = False, "buffer over the limit but not flushed on a path"
        if not tested:
            ok, why = False, f"a path writes a line into the buffer without afterwards testing its size against '{bp}': the buffer grows with the record"
    if n_w == 0:
        ok, why = False, "no buffer write found in the line loop"
    L.check(ok, "R2", idx.short + ":flush", "every buffered line is followed by the size test and flush", why, idx.loc(loop))
    # other accumulators of line data
    acc = []
    for s in loop.body:
        for n in [s, *walk_shallow(s)]:
            if isinstance(n, ast.Call) and isinstance(n.func, ast.Attribute) and n.func.attr in ("append", "extend", "add") and any(line in names_in(a) for a in n.args):
                acc.append(norm(n)[:50])
            if isinstance(n, ast.AugAssign) and line in names_in(n.value) and not (isinstance(n.value, ast.Call) and dotted(n.value.func) == "len"):
                acc.append(norm(n)[:50])
    L.check(not acc, "R2", idx.short + ":accumulators", "no other container collects line data", f"line data is also accumulated by {acc[:2]} without a flush", idx.loc(loop))
    # flush empties the buffer on all paths
    ok, why = True, ""
    for p in paths(proc, (0, 1), exc_edges=False):
        if p.status != "return":
            continue
        ops = [c.func.attr for e in p.events if e.kind == "stmt" for c in [e.node, *walk_shallow(e.node)] if isinstance(c, ast.Call) and isinstance(c.func, ast.Attribute) and is_name(c.func.value, buf)]
        if "truncate" not in ops or "getvalue" not in ops or "seek" not in ops:
            ok, why = False, f"flush path performs {ops} on the buffer: it must take the value, rewind and truncate"
    truncs = [c for c in walk_shallow(proc.node) if isinstance(c, ast.Call) and isinstance(c.func, ast.Attribute) and c.func.attr == "truncate" and is_name(c.func.value, buf)]
    if truncs and not (truncs[0].args and norm(truncs[0].args[0]) == "0"):
        # truncate() without size truncates at the current position: needs seek(0) before
        seeks = [c for c in walk_shallow(proc.node) if isinstance(c, ast.Call) and isinstance(c.func, ast.Attribute) and c.func.attr == "seek" and pos(c) < pos(truncs[0])]
        if not seeks:
            ok, why = False, "buffer truncated at its current position, i.e. not emptied"
    # ... and nothing is put back after it was emptied (a flush that re-buffers the unfinished run keeps a whole
    # uninterrupted run in memory: the buffer then grows with the run, not with buffer_size)
    if ok and truncs:
        back = [c for c in walk_shallow(proc.node) if isinstance(c, ast.Call) and isinstance(c.func, ast.Attribute) and c.func.attr in ("write", "writelines") and is_name(c.func.value, buf) and pos(c) > pos(truncs[0])]
        # a write-back whose size is bounded by the configured buffer size on every path that reaches it is a bounded buffer
        for bc in list(back):
            verdict = _write_back_bounded(proc, bc, bp)
            if verdict is True:
                back.remove(bc)
            elif verdict is None:
                raise AnalysisError(f"{proc.short}: size of the data written back into the buffer ('{norm(bc)[:50]}') is not understood")
        if back:
            ok, why = False, f"after emptying the buffer the flush writes data back into it ({norm(back[0])[:50]}): an uninterrupted run longer than buffer_size is carried from flush to flush, so memory grows with the run length"
    L.check(ok, "R2", proc.short + ":empties", "flush takes the value and empties the buffer on every path", why, proc.loc())
    # configured size at the call site
    fi = repo.cls("FastaIndex")
    callers = [(f, c) for f, c in repo.callers_of(idx) if f.cls is fi]
    okc = bool(callers)
    for f, c in callers:
        a = arg_for_param(c, idx, bp, bound_self=False)
        if a is None or norm(a) != "self.buffer_size":
            okc = False
    L.check(okc, "R2", "FastaIndex.run_indexing:buffer_size", "indexer called with the object's configured buffer size", "the indexer is not given the FastaIndex's configured buffer_size (default used instead)", fi.module.relpath)

    # ---- R3
    cs, ce, q = chunk_spec()
    B = Lin.atom("B")
    for name in ("fwd_chunks", "rev_chunks"):
        f = fi.methods.get(name)
        if f is None:
            raise AnalysisError(f"anchor FastaIndex.{name} vanished")
        # materialisation of a whole fragment's chunks (list()/sorted()/comprehension over a chunk generator)
        mats = []
        for c in repo.calls_in(f):
            d = dotted(c.func)
            if d in ("list", "tuple", "sorted", "b''.join", "bytes") and c.args and any(isinstance(x, ast.Call) for x in ast.walk(c.args[0])):
                mats.append(norm(c)[:60])
        for n in walk_shallow(f.node):
            if isinstance(n, ast.ListComp) and any(isinstance(x, ast.Call) and "chunk" in norm(x.func) for x in ast.walk(n)):
                mats.append(norm(n)[:60])
        if mats:
            L.fail("R3", f.short + ":generator", f"all chunks of a fragment are materialised before the first is handed out ({mats[0]}): memory grows with the fragment, not with buffer_size (output bytes are unchanged)", f.loc())
            continue
        info = analyse_chunker(repo, f)
        node, args = fetch_call(info)
        if node is None:
            L.fail("R3", f.short, "no sequence_bytes fetch in the chunk generator", f.loc())
            continue
        try:
            a_s, a_e = as_lin(args[-2]), as_lin(args[-1])
        except (NotNumeric, IndexError):
            raise AnalysisError(f"{f.short}: the chunk bounds ({', '.join(repr(x)[:40] for x in args[-2:])}) are not linear integer forms: no verdict")
        ok, why = _bounded(a_e - a_s + 1, B)
        L.check(ok, "R3", f.short + ":size", "chunk_end − chunk_start + 1 ≤ buffer_size", f"requested span [{a_s}, {a_e}] is not bounded by buffer_size: {why}", f.loc(node), witness={"span": f"{a_e - a_s + 1}"})
        L.check(len(info["yields"]) == 1, "R3", f.short + ":yield", "one chunk per iteration", f"{len(info['yields'])} yields per iteration", f.loc())
        def chunk_data(e, depth=0):
            """does the expression carry sequence bytes (a fetch / BytesIO / read result, possibly through a local)?"""
            for x in ast.walk(e):
                if isinstance(x, ast.Call):
                    nm = (dotted(x.func) or "").split(".")[-1]
                    if nm in ("sequence_bytes", "revcomp_bytes_io", "BytesIO", "read", "getvalue", "translate"):
                        return True
                if isinstance(x, ast.Name) and depth < 3:
                    from ..util import local_defs

                    if any(chunk_data(d, depth + 1) for d in local_defs(f, x.id)):
                        return True
            return False

        collects = [c for c in walk_shallow(f.node) if isinstance(c, ast.Call) and isinstance(c.func, ast.Attribute) and c.func.attr in ("append", "extend", "join") and any(chunk_data(a) for a in c.args)]
        L.check(not collects and not any(isinstance(n, ast.Return) and n.value is not None for n in walk_shallow(f.node)), "R3", f.short + ":generator", "chunks are yielded, not collected", "chunks are collected into a container before being returned", f.loc())
    g = fi.methods.get("get_gap_iter")
    if g is None:
        raise AnalysisError("anchor FastaIndex.get_gap_iter vanished")
    ex = _ChunkExec(repo)
    st = State()
    st.heap[("self", "buffer_size")] = Lin.atom("B")
    ps = g.params()
    args = {ps[0]: Sym("self", fi), ps[1]: Sym("gap")}
    for p in ps[2:]:
        args[p] = Sym(p)
    finals = ex.run_function(g, st, args)
    if len(finals) != 1:
        raise AnalysisError("get_gap_iter: path count")
    r = finals[0]
    ys = [e for e in r.effects if e[0] == "yield"]
    okg, whyg = len(ys) == 1, f"{len(ys)} yields per iteration"
    if okg:
        yn = ys[0][1].value
        mult = [n for n in ast.walk(yn) if isinstance(n, ast.BinOp) and isinstance(n.op, ast.Mult)]
        if len(mult) != 1:
            raise AnalysisError(f"{g.short}: gap chunk '{norm(yn)[:60]}' is not written as <character> * <count>: form not understood")
        else:
            stt = State()
            stt.env = r.callee_env
            stt.heap = r.heap
            cnt = None
            for side in (mult[0].right, mult[0].left):
                v = ex.eval(side, stt, g)
                if isinstance(v, Lin) and (v.t or v.c):
                    cnt = v
                    break
            if cnt is None:
                okg, whyg = False, "repeat count of the gap chunk is not an integer form"
            else:
                okg, whyg = _bounded(cnt, B)
                whyg = f"gap chunk of {cnt} characters is not bounded by buffer_size: {whyg}"
    L.check(okg, "R3", g.short + ":size", "gap chunk ≤ buffer_size characters", whyg, g.loc())

    # buffer-size independence of gap rendering (structural half of "byte-identical for every buffer size")
    gap_iter_exact(repo, L, "R3")
    # the byte fetcher reads exactly the requested interval (no over-read that is sliced afterwards):
    # discharges the assumption "sequence_bytes(s, e) holds e − s + 1 residues" algebraically (shared with C03.R6)
    from .c03 import _random_access

    _random_access(repo, L, fi, rule="R3")

    # ---- R4
    fs = repo.cls("FastaStream")
    ws = fs.methods.get("write_scaffold")
    if ws is None:
        raise AnalysisError("anchor FastaStream.write_scaffold vanished")
    bad = []
    for c in repo.calls_in(ws):
        if isinstance(c.func, ast.Attribute):
            if c.func.attr in ("getvalue", "getbuffer", "readlines", "append", "extend", "join"):
                bad.append(norm(c)[:50])
            if c.func.attr == "read" and not c.args:
                bad.append(norm(c)[:50])
        if dotted(c.func) in ("list", "tuple", "b''.join", "bytes"):
            bad.append(norm(c)[:50])
    for n in walk_shallow(ws.node):
        if isinstance(n, ast.AugAssign) and isinstance(n.op, ast.Add) and not (isinstance(n.value, ast.Call) and dotted(n.value.func) == "len") and not isinstance(n.value, ast.Constant):
            bad.append(norm(n)[:50])
    L.check(not bad, "R4", ws.short, "bounded read(want) of the current chunk only", f"the writer materialises or accumulates chunk data: {bad[:3]}", ws.loc())
    reads = [c for c in repo.calls_in(ws) if isinstance(c.func, ast.Attribute) and c.func.attr == "read"]
    L.check(len(reads) >= 1 and all(len(c.args) == 1 for c in reads), "R4", ws.short + ":read", "chunk consumed by read(<remaining line width>)", "chunk not consumed by a size-limited read", ws.loc())

    # ---- R5
    eps = repo.entry_points()
    cli = eps.get("pretext-to-asm")
    if cli is None:
        raise AnalysisError("entry point pretext-to-asm not found")
    reach = repo.reachable_from([cli])
    whole = [fi.methods.get(n) for n in ("get_fasta_seq", "all_fasta_seq")]
    hit = [w.short for w in whole if w is not None and w.qualname in reach]
    L.check(not hit, "R5", "pretext-to-asm:reach", f"{len(reach)} reachable functions, none reads a whole record", f"the CLI can reach {hit}, which read a whole sequence into memory", cli.loc())
    sb = fi.methods.get("sequence_bytes")
    if sb is None:
        raise AnalysisError("anchor FastaIndex.sequence_bytes vanished")
    callers = sorted({f.short for f, c in repo.callers_of(sb)})
    allowed = {"FastaIndex.fwd_chunks", "FastaIndex.rev_chunks", "FastaIndex.get_fasta_seq"}
    L.check(set(callers) <= allowed, "R5", sb.short + ":callers", f"fetched only by {callers}", f"sequence_bytes is also called from {sorted(set(callers) - allowed)} (span not bounded by the chunk rule)", sb.loc())
    L.assume("each read of sequence_bytes stays inside one FASTA line")

    # ---- R6 (structural half of "byte-identical for every buffer size" on the indexing side)
    from . import c04 as _c04

    store_ = idx.nested.get("store_info")
    if store_ is None:
        raise AnalysisError("anchor index_fasta_file.store_info vanished")

    class _Relabel:
        """the shared rule reports under its C04 id; here it is C13.R6"""

        def __init__(self, led):
            self._l = led

        def fail(self, rule, *a, **k):
            return self._l.fail("R6", *a, **k)

        def ok(self, rule, *a, **k):
            return self._l.ok("R6", *a, **k)

        def __getattr__(self, nm):
            return getattr(self._l, nm)

    _c04._r4_counter(repo, _Relabel(L), idx, proc, _c04._roles(repo, idx, store_, proc))

def _bounded(expr: Lin, B: Lin):
    """expr <= B by one-step upper-bound substitution through min()/max()."""
    d = expr - B
    if d.is_const():
        return (d.c <= 0, f"exceeds by {d.c}" if d.c > 0 else "")
    # substitute each min atom by each of its arguments (min(a,b) <= a, <= b) when its coefficient is positive
    for a, c in expr.t.items():
        if isinstance(a, tuple) and a[0] == "min" and c > 0:
            for arg in a[1:]:
                cand = expr - Lin({a: c}) + arg.scale(c)
                dd = cand - B
                if dd.is_const() and dd.c <= 0:
                    return True, ""
        if isinstance(a, tuple) and a[0] == "max" and c < 0:
            for arg in a[1:]:
                cand = expr - Lin({a: c}) + arg.scale(c)
                dd = cand - B
                if dd.is_const() and dd.c <= 0:
                    return True, ""
    # not provable by one substitution: look for a concrete counterexample on a small grid of (buffer size, lengths, index);
    # a witness refutes, no witness on the whole grid is accepted (recorded as grid-checked, not proved)
    import itertools as _it

    from ..sym import _base_atoms, _eval_lin

    atoms = sorted(_base_atoms(expr) | _base_atoms(B))
    if len(atoms) > 5:
        raise AnalysisError(f"size bound of {expr} not decided (too many free quantities)")
    dom = {a: (range(1, 6) if a == "B" else range(0, 14)) for a in atoms}
    n_eval = 0
    for vals in _it.product(*[dom[a] for a in atoms]):
        asg = dict(zip(atoms, vals))
        ve, vb = _eval_lin(expr, asg), _eval_lin(B, asg)
        if ve is None or vb is None:
            continue
        n_eval += 1
        if ve > vb:
            return False, f"with {asg} the chunk is {ve} long, more than buffer_size {vb}"
    if n_eval == 0:
        raise AnalysisError(f"size bound of {expr} not decided (form cannot be evaluated)")
    return True, ""
