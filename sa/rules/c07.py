"""C07 — every join carries a gap and retained neighbours keep their input gap.

 R1 every fuse (`append_scaffold` onto a scaffold that may already hold rows) passes the configured join gap
 R2 the CLI configures the join gap as Gap(200, "scaffold")
 R3 append_scaffold inserts the gap only between existing rows and the appended ones, then appends all rows
 R4 the lookup strips terminal gaps inward from both ends before slicing
 R5 re-added left-over contigs: a gap row is only inserted between two fragment rows, and it is the input
    row preceding the fragment (if that is a gap) or the join gap
"""

from __future__ import annotations

import ast

from ..flow import PathEnum
from ..fold import try_fold
from ..model import AnalysisError, Repo, dotted, is_name, norm, walk_shallow
from ..report import Ledger
from ..util import end_pos, pos, arg_for_param, kw, local_defs, paths

PROP = "C07"
LEVEL = "other"
EXPLANATION = (
    "Gap discipline is decided at the sites that join rows: every call resolving to Scaffold.append_scaffold must pass a "
    "gap whose definition flows from the builder's configured join gap (def-use), the CLI must configure Gap(200, 'scaffold'), "
    "append_scaffold's own paths insert the gap exactly when both the gap and existing rows are present and always append all "
    "rows, the lookup's two inward gap walks exist for the indices used in the slice, and in the re-add loop every gap insertion "
    "is dominated by an earlier fragment insertion and followed by one. Which gap a junction *should* carry is a fact about "
    "runtime adjacency and is not decided."
)


def _is_name(n, name):
    return isinstance(n, ast.Name) and n.id == name


def _group_members_guarded(f, mname: str, cond_facts):
    """`for <mname> in D.values()` (or `for k, <mname> in D.items()`): True when every element ever put into a list of D was
    inserted on a path that had established `<elt>.rows`; False when some insertion is unguarded; None when <mname> is not such
    a group; raises AnalysisError when the way D is filled is not one of the recognised forms."""
    outer = [n for n in walk_shallow(f.node) if isinstance(n, ast.For) and any(isinstance(t, ast.Name) and t.id == mname for t in ast.walk(n.target))]
    if len(outer) != 1 or not (isinstance(outer[0].iter, ast.Call) and isinstance(outer[0].iter.func, ast.Attribute) and outer[0].iter.func.attr in ("values", "items") and isinstance(outer[0].iter.func.value, ast.Name)):
        return None
    D = outer[0].iter.func.value.id
    inserts = []  # (site, element expr)
    for n in walk_shallow(f.node):
        if isinstance(n, ast.Call) and isinstance(n.func, ast.Attribute) and n.func.attr == "append" and len(n.args) == 1:
            r = n.func.value
            if (isinstance(r, ast.Call) and isinstance(r.func, ast.Attribute) and r.func.attr == "setdefault" and _is_name(r.func.value, D)) or (isinstance(r, ast.Subscript) and _is_name(r.value, D)):
                inserts.append((n, n.args[0]))
        if isinstance(n, ast.Assign) and any(isinstance(t, ast.Subscript) and _is_name(t.value, D) for t in n.targets):
            if isinstance(n.value, ast.List) and all(isinstance(e, ast.Name) for e in n.value.elts):
                for e in n.value.elts:
                    inserts.append((n, e))
            else:
                raise AnalysisError(f"{f.short}: group dict '{D}' is filled by '{norm(n)[:60]}': form not understood")
    if not inserts:
        raise AnalysisError(f"{f.short}: how the group dict '{D}' is filled is not understood")
    for site, elt in inserts:
        if not isinstance(elt, ast.Name):
            raise AnalysisError(f"{f.short}: element '{norm(elt)}' put into group dict '{D}' is not a local: form not understood")
        for p_ in paths(f, (0, 1), exc_edges=False):
            hit = next((i for i, e in enumerate(p_.events) if e.kind == "stmt" and (e.node is site or any(x is site for x in walk_shallow(e.node)))), None)
            if hit is None:
                continue
            ok = False
            for e in p_.events[:hit]:
                if e.kind == "cond":
                    for t, v in cond_facts(e.node, e.val):
                        if norm(t).replace(" ", "") in (f"{elt.id}.rows", f"len({elt.id}.rows)") and v:
                            ok = True
                if e.kind == "iter" and e.val[0] == "next" and any(isinstance(t, ast.Name) and t.id == elt.id for t in ast.walk(e.node.target)):
                    ok = False
            if not ok:
                return False
    return True


def run(repo: Repo, L: Ledger, tier: str):
    L.rule("R1", "append_scaffold call sites pass a gap flowing from self.default_gap")
    L.rule("R2", "CLI: default_gap=Gap(200, 'scaffold')")
    L.rule("R3", "append_scaffold: gap iff (gap and existing rows); all rows appended")
    L.rule("R4", "lookup walks both slice indices inward over Gap rows")
    L.rule("R5", "re-add: gap rows only between fragments; input gap or join gap")

    scf = repo.cls("Scaffold")
    app = scf.methods.get("append_scaffold")
    if app is None:
        raise AnalysisError("anchor Scaffold.append_scaffold vanished")
    gap_param = next((p for p in app.params()[1:] if "gap" in p), None)
    if gap_param is None:
        raise AnalysisError("Scaffold.append_scaffold has no gap parameter")

    # ---- R1
    n_sites = 0
    for f in repo.functions.values():
        for c in repo.calls_in(f):
            if not (isinstance(c.func, ast.Attribute) and c.func.attr == "append_scaffold"):
                continue
            targets, _, _ = repo.resolve_call(c, f)
            if app not in targets and targets:
                continue
            n_sites += 1
            inst = f"{f.short}:{norm(c)[:70]}"
            actual = arg_for_param(c, app, gap_param)
            if actual is None:
                L.fail("R1", inst, f"scaffold '{norm(c.args[0]) if c.args else '?'}' is appended to '{norm(c.func.value)}' without a gap: when the target already holds rows the last existing fragment and the first appended fragment become directly adjacent", f.loc(c), witness={"input": "S = [a(1000), gap200, b(50)]", "map": "S:1-1000 at 100 bp/texel (b falls in the final partial texel)", "output": "S = [a, b] with no gap row"})
                continue
            # def-use: the actual must be the configured join gap
            srcs = []
            if isinstance(actual, ast.Name):
                srcs = local_defs(f, actual.id)
            else:
                srcs = [actual]
            ok = bool(srcs) and all(norm(s) == "self.default_gap" for s in srcs)
            if not ok:
                # refuted by a source that is recognisably not the configured gap: None, or a Gap(...) made on the spot with other
                # constants; a parameter, a helper's result, anything else is not decided here
                def _bad_src(s_):
                    if isinstance(s_, ast.Constant) and s_.value is None:
                        return True
                    if isinstance(s_, ast.IfExp):
                        return _bad_src(s_.body) or _bad_src(s_.orelse)  # no gap under a condition on the data
                    if isinstance(s_, ast.Call) and dotted(s_.func) == "Gap":
                        vals_ = [try_fold(a_, default=NotImplemented) for a_ in s_.args]
                        return bool(vals_) and NotImplemented not in vals_ and vals_ != [200, "scaffold"]
                    return False

                if not any(_bad_src(s_) for s_ in srcs):
                    raise AnalysisError(f"C07.R1 {inst}: the gap argument '{norm(actual)}' comes from {[norm(s)[:40] for s in srcs]}: whether that is the configured join gap is not decided (a parameter, a helper's result or another attribute)")
            L.check(ok, "R1", inst, "gap argument is the configured join gap", f"gap argument '{norm(actual)}' is defined as {[norm(s) for s in srcs]}, not the configured join gap self.default_gap", f.loc(c))
    L.floor("R1", "append_scaffold call sites", n_sites, 1)

    # ---- R6: a piece without rows is never appended with the join gap (append_scaffold adds the gap whenever the
    # receiver already holds rows: an empty piece would leave a trailing gap / two consecutive gaps)
    L.rule("R6", "an empty piece is never appended with the join gap")
    from ..flow import cond_facts

    oth_p = app.params()[1]
    callee_guards = any(isinstance(n, ast.If) and any(norm(t) == f"{oth_p}.rows" and v for t, v in cond_facts(n.test, True)) and any(isinstance(c, ast.Call) and "add_row" in norm(c) or "append" in norm(c) for s_ in n.body for c in [s_, *walk_shallow(s_)]) for n in walk_shallow(app.node))
    for f in repo.functions.values():
        sites = [c for c in repo.calls_in(f) if isinstance(c.func, ast.Attribute) and c.func.attr == "append_scaffold" and arg_for_param(c, app, gap_param) is not None]
        if not sites or f.cls is None or f.cls.name != "BuildAssembly":
            continue
        for c in sites:
            piece = c.args[0] if c.args else None
            root = piece
            while isinstance(root, ast.Call | ast.Attribute):
                root = root.func if isinstance(root, ast.Call) else root.value
            inst = f"{f.short}:{norm(c)[:60]}:non-empty"
            if not isinstance(root, ast.Name):
                raise AnalysisError(f"{inst}: appended piece '{norm(piece)}' is not derived from a local")
            if callee_guards:
                L.ok("R6", inst, "append_scaffold itself adds the gap only for a piece that has rows", f.loc(c))
                continue
            bad_path = None
            n_p = 0
            for p_ in paths(f, (0, 1), exc_edges=False):
                if not any(e.kind == "stmt" and (e.node is c or any(x is c for x in walk_shallow(e.node))) for e in p_.events):
                    continue
                n_p += 1
                guarded = False
                # the piece as this path computed it (locals that merely hold the scaffold / its to_scaffold() are followed)
                from ..util import resolve_on_path as _rop

                i_c = next(i for i, e in enumerate(p_.events) if e.kind == "stmt" and (e.node is c or any(x is c for x in walk_shallow(e.node))))
                root_p = _rop(p_, i_c, piece)
                while isinstance(root_p, ast.Call | ast.Attribute):
                    root_p = root_p.func if isinstance(root_p, ast.Call) else root_p.value
                if not isinstance(root_p, ast.Name):
                    raise AnalysisError(f"{inst}: appended piece '{norm(piece)}' is not derived from a local on every path")
                rid = root_p.id
                for e in p_.events:
                    if e.kind == "stmt" and (e.node is c or any(x is c for x in walk_shallow(e.node))):
                        break
                    if e.kind == "cond":
                        for t, v in cond_facts(e.node, e.val):
                            if norm(t).replace(" ", "") in (f"{rid}.rows", f"len({rid}.rows)") and v:
                                guarded = True
                    if e.kind == "iter" and e.val[0] == "next" and isinstance(e.node.target, ast.Name) and e.node.target.id == rid:
                        guarded = False  # a new element: earlier facts were about another piece
                        it_ = e.node.iter
                        if isinstance(it_, ast.GeneratorExp | ast.ListComp) and len(it_.generators) == 1 and isinstance(it_.generators[0].target, ast.Name) and isinstance(it_.elt, ast.Name) and it_.elt.id == it_.generators[0].target.id:
                            gv = it_.generators[0].target.id
                            if any(norm(t).replace(" ", "") in (f"{gv}.rows", f"len({gv}.rows)") and v for c_ in it_.generators[0].ifs for t, v in cond_facts(c_, True)):
                                guarded = True  # the loop runs over a filtered view: only pieces that have rows
                        elif isinstance(it_, ast.Name):
                            # the loop runs over a group list taken from a dict of lists: every insertion into those lists
                            # must be of a piece already known to have rows
                            if _group_members_guarded(f, it_.id, cond_facts) is True:
                                guarded = True
                if not guarded and bad_path is None:
                    bad_path = p_
            L.check(
                bad_path is None and n_p > 0, "R6", inst, f"every path to the fuse call ({n_p}) has established that the piece has rows",
                f"'{norm(piece)}' can be appended with the join gap although it has no rows (an overlap result emptied by the overhang resolver): the fused scaffold then ends in a gap row, or carries two consecutive gaps ({bad_path.describe()[:120] if bad_path else ''})",
                f.loc(c), witness={"map": "a single-texel piece inside a longer contig, painted into the same scaffold as its neighbours"},
            )

    # ---- R2
    cli = repo.try_func("cli", "pretext_to_asm")
    if cli is None:
        raise AnalysisError("anchor pretext_to_asm.cli vanished")
    ctors = [c for c in repo.calls_in(cli) if dotted(c.func) == "BuildAssembly"]
    ok2, why2 = False, "BuildAssembly is not constructed with a default_gap"
    if len(ctors) == 1:
        g = kw(ctors[0], "default_gap")
        if g is not None and not (isinstance(g, ast.Call) and dotted(g.func) == "Gap"):
            raise AnalysisError(f"{cli.short}: the join gap is computed by '{norm(g)[:50]}', not written as Gap(...): form not understood")
        if isinstance(g, ast.Call) and dotted(g.func) == "Gap":
            # arguments may be command line options: their click defaults are what a plain invocation uses
            from ..finite import module_consts

            consts = module_consts(cli.module)
            opt_defaults = {}
            for d_ in cli.node.decorator_list:
                if isinstance(d_, ast.Call) and (dotted(d_.func) or "").endswith(("option", "argument")):
                    names_ = [try_fold(a_, default=None) for a_ in d_.args]
                    long_ = next((n_ for n_ in names_ if isinstance(n_, str) and n_.startswith("--")), None)
                    pname_ = next((n_ for n_ in names_ if isinstance(n_, str) and not n_.startswith("-")), None) or (long_[2:].split("/")[0].replace("-", "_") if long_ else None)
                    dv_ = kw(d_, "default")
                    if pname_ and dv_ is not None:
                        opt_defaults[pname_] = try_fold(dv_, env=dict(consts), default="?")

            def val_of(a):
                if isinstance(a, ast.Name) and a.id in opt_defaults:
                    return opt_defaults[a.id]
                return try_fold(a, env=dict(consts), default="?")

            vals = [val_of(a) for a in g.args] + [val_of(k.value) for k in g.keywords]
            if "?" in vals:
                raise AnalysisError(f"{cli.short}: the join gap '{norm(g)[:50]}' does not fold to constants (option defaults followed): form not understood")
            ok2 = vals == [200, "scaffold"]
            why2 = f"join gap configured as Gap{tuple(vals)}, documented join gap is 200 bp of type scaffold"
    L.check(ok2, "R2", cli.short, "Gap(200, 'scaffold')", why2, cli.loc())
    # the builder stores it unchanged
    ba = repo.cls("BuildAssembly")
    init = ba.methods.get("__init__")
    stores = [n for n in walk_shallow(init.node) if isinstance(n, ast.Assign) and norm(n.targets[0]) == "self.default_gap"]
    L.check(len(stores) == 1 and norm(stores[0].value) == "default_gap", "R2", init.short, "self.default_gap = default_gap", "the builder does not store the configured join gap unchanged", init.loc())
    others = [n for f in ba.methods.values() if f is not init for n in walk_shallow(f.node) if isinstance(n, ast.Assign | ast.AugAssign) and any(norm(t) == "self.default_gap" for t in (n.targets if isinstance(n, ast.Assign) else [n.target]))]
    L.check(not others, "R2", ba.name + ":default_gap", "never reassigned", "join gap is reassigned after construction", ba.module.relpath)

    # ---- R3
    ok3, why3 = True, ""
    oth = app.params()[1]
    for p in paths(app, (0, 1), exc_edges=False):
        adds = []
        ext = []
        gap_true = rows_true = None
        for i, e in enumerate(p.events):
            if e.kind == "cond":
                from ..flow import cond_facts

                for t, v in cond_facts(e.node, e.val):
                    if norm(t) == gap_param:
                        gap_true = v
                    elif norm(t) == "self.rows":
                        rows_true = v
                    elif isinstance(t, ast.BoolOp):
                        # (gap and self.rows) false: unknown which one
                        pass
                    elif "len(" in norm(t) and ("self.rows" in norm(t) or gap_param in norm(t)):
                        pass  # the len()-spelling of a fact that cond_facts also reports on the operand itself
                    else:
                        raise AnalysisError(f"{app.short}: condition '{norm(t)[:50]}' is not one the append rule understands")
            if e.kind == "stmt":
                for c in [x for x in [e.node, *walk_shallow(e.node)] if isinstance(x, ast.Call)]:
                    t = norm(c)
                    if t in (f"self.add_row({gap_param})", f"self.rows.append({gap_param})"):
                        adds.append(i)
                    if t in (f"self.rows.extend({oth}.rows)",):
                        ext.append(i)
        if len(ext) != 1:
            ok3, why3 = False, f"a path appends the other scaffold's rows {len(ext)} times"
        if adds:
            if not (gap_true is True and rows_true is True):
                ok3, why3 = False, "gap row inserted although the receiving scaffold may be empty (leading gap) or no gap was given"
            if len(adds) != 1 or (ext and adds[0] > ext[0]):
                ok3, why3 = False, "gap row not inserted exactly once before the appended rows"
        else:
            if gap_true is True and rows_true is True:
                ok3, why3 = False, "no gap row inserted although a gap was given and rows exist"
    L.check(ok3, "R3", app.short, "gap between existing and appended rows only; all rows appended", why3, app.loc())

    # ---- R4
    ia = repo.cls("IndexedAssembly")
    find = ia.methods.get("find_overlaps")
    if find is None:
        raise AnalysisError("anchor IndexedAssembly.find_overlaps vanished")
    slices = [n for n in walk_shallow(find.node) if isinstance(n, ast.Subscript) and isinstance(n.slice, ast.Slice) and norm(n.value).endswith(".rows")]
    ok4, why4 = False, "result slice of the scaffold's rows not found"
    if len(slices) == 1 and isinstance(slices[0].slice.lower, ast.Name):
        lo = slices[0].slice.lower.id
        up = slices[0].slice.upper
        hi = up.left.id if isinstance(up, ast.BinOp) and isinstance(up.left, ast.Name) else up.id if isinstance(up, ast.Name) else None
        rows_txt = norm(slices[0].value)

        def origin(var, depth=0):
            """follow plain copies (`a = b`, `a, b = (x, y)`) backwards from the slice to the variable the walks move"""
            if var is None or depth > 4:
                return var
            last = None
            for st_ in find.node.body:
                if pos(st_) >= pos(slices[0]):
                    break
                if isinstance(st_, ast.Assign) and len(st_.targets) == 1:
                    tg, val = st_.targets[0], st_.value
                    if isinstance(tg, ast.Name) and tg.id == var:
                        last = val
                    elif isinstance(tg, ast.Tuple) and isinstance(val, ast.Tuple) and len(tg.elts) == len(val.elts):
                        for te, ve in zip(tg.elts, val.elts):
                            if isinstance(te, ast.Name) and te.id == var:
                                last = ve
                elif any(isinstance(x, ast.Name) and x.id == var and isinstance(x.ctx, ast.Store) for x in ast.walk(st_)):
                    last = None
            return origin(last.id, depth + 1) if isinstance(last, ast.Name) else var

        lo, hi = origin(lo), origin(hi)
        walks = {}
        recognised_walks = []
        for w in walk_shallow(find.node):
            if isinstance(w, ast.While) and pos(w) < pos(slices[0]):
                t = norm(w.test).replace(" ", "")
                for var, d in ((lo, 1), (hi, -1)):
                    if var and f"isinstance({rows_txt}[{var}],Gap)" in t:
                        moves = [x for x in walk_shallow(w) if isinstance(x, ast.AugAssign) and is_name(x.target, var)]
                        if len(moves) == 1 and isinstance(moves[0].op, ast.Add if d == 1 else ast.Sub) and try_fold(moves[0].value, default=None) == 1:
                            walks[var] = True
                            recognised_walks.append(w)
        ok4 = walks.get(lo) and walks.get(hi)
        why4 = f"no inward Gap-stripping walk for index {[v for v in (lo, hi) if not walks.get(v)]}: a returned result could start or end with a gap row"
    if not ok4:
        # refuted only when nothing in the lookup looks at Gap rows at all; any other way of stripping is "not understood"
        gap_tests = [c for c in walk_shallow(find.node) if isinstance(c, ast.Call) and dotted(c.func) == "isinstance" and len(c.args) == 2 and dotted(c.args[1]) == "Gap"]
        helper_calls = [c for c in repo.calls_in(find) if repo.resolve_call(c, find)[0] and dotted(c.func) not in ("OverlapResult",)]
        missing = [v for v in (lo, hi) if v and not walks.get(v)] if len(slices) == 1 and isinstance(slices[0].slice.lower, ast.Name) else []
        mention = lambda c, v: any(isinstance(x, ast.Name) and x.id == v for x in ast.walk(c))  # noqa: E731
        # Gap tests that are not the test of a recognised inward walk: stripping done some other way (next(<generator>), helper ...)
        walk_tests = {id(c) for w in (recognised_walks if len(slices) == 1 and isinstance(slices[0].slice.lower, ast.Name) else []) for c in ast.walk(w.test)}
        other_gap_tests = [c for c in gap_tests if id(c) not in walk_tests]
        # positive refutation: the walk of a slice index is there but as a single conditional step (`if`, not `while`) -- it
        # passes one Gap row, and the rows of an input scaffold may hold several in a row
        single_step = {}
        if missing:
            from ..util import ancestors as _anc0

            for w in walk_shallow(find.node):
                if isinstance(w, ast.If) and not w.orelse and len(w.body) == 1 and pos(w) < pos(slices[0]) and not any(isinstance(a_, ast.While | ast.For) for a_ in _anc0(w)):
                    t = norm(w.test).replace(" ", "")
                    for var, d in ((lo, 1), (hi, -1)):
                        mv = w.body[0]
                        if var in missing and f"isinstance({rows_txt}[{var}],Gap)" in t and isinstance(mv, ast.AugAssign) and is_name(mv.target, var) and isinstance(mv.op, ast.Add if d == 1 else ast.Sub) and try_fold(mv.value, default=None) == 1:
                            single_step[var] = w
            step_tests = {id(c) for w in single_step.values() for c in ast.walk(w.test)}
            if single_step and set(single_step) == set(missing) and not [c for c in other_gap_tests if id(c) not in step_tests] and not any(mention(c, v) for v in missing for c in helper_calls):
                other_gap_tests = []
                gap_tests = [c for c in gap_tests if id(c) not in step_tests]
                why4 = f"index {sorted(single_step)} is moved past one Gap row only (`if` at line {', '.join(str(w.lineno) for w in single_step.values())}, not a loop): with two gap rows in a row at that end of the overlapping span the returned result starts or ends with a gap row"
        unclear = "not found" in why4 or not missing or bool(other_gap_tests) or any(mention(c, v) for v in missing for c in [*gap_tests, *helper_calls])
        # the refutation "nothing strips gaps" presumes an index with one entry per row: an index built from the non-gap rows
        # only (or of another layout) makes every index position a contig already
        add_ = ia.methods.get("add_scaffold")
        if add_ is None:
            raise AnalysisError("anchor IndexedAssembly.add_scaffold vanished")
        apps = [c for c in walk_shallow(add_.node) if isinstance(c, ast.Call) and isinstance(c.func, ast.Attribute) and c.func.attr == "append" and isinstance(c.func.value, ast.Name)]
        from ..util import ancestors as _anc

        plain_index = len(apps) == 1 and len(apps[0].args) == 1 and isinstance(apps[0].args[0], ast.Name) and not any(isinstance(a_, ast.If) for a_ in _anc(apps[0]) if a_ is not add_.node and not isinstance(a_, ast.FunctionDef))
        if not plain_index:
            unclear = True
        if unclear:
            raise AnalysisError(f"{find.short}: terminal-gap stripping is not written as two inward while-walks over the slice indices ({why4}): form not understood")
    L.check(bool(ok4), "R4", find.short, "leading and trailing gap rows are walked off before slicing", why4, find.loc())

    # every end removal of an overlap result strips the gaps it exposes (pairing rule shared with C18.R4)
    from .c18 import _r4 as _strip_pairing, mutators

    ovr = repo.cls("OverlapResult")
    direct, _all = mutators(repo, ovr)
    _strip_pairing(repo, L, ovr, direct)

    # ---- R5
    addm = ba.methods.get("add_missing_scaffolds_from_input")
    if addm is None:
        raise AnalysisError("anchor BuildAssembly.add_missing_scaffolds_from_input vanished")
    inner = [n for n in walk_shallow(addm.node) if isinstance(n, ast.For) and "idx_fragments" in norm(n.iter)]
    if len(inner) != 1:
        raise AnalysisError("re-add loop over idx_fragments() not found")
    lp = inner[0]
    iv, fv = (e.id for e in lp.target.elts)
    ok5, why5 = True, ""
    kinds = set()

    def _rows_receiver(r_):
        """<x>.rows, or a local that stands for some scaffold's rows list (new_rows = new_scffld.rows)"""
        if isinstance(r_, ast.Attribute) and r_.attr == "rows":
            return True
        if isinstance(r_, ast.Name):
            ds_ = [d_ for d_ in local_defs(addm, r_.id) if not (isinstance(d_, ast.Constant) and d_.value is None)]
            return bool(ds_) and all(isinstance(d_, ast.Attribute) and d_.attr == "rows" for d_ in ds_)
        return False

    def _input_row_before(e_):
        """<input scaffold>.rows[i - 1], directly or through a local standing for the rows list"""
        if isinstance(e_, ast.Subscript) and norm(e_.slice).replace(" ", "") == f"{iv}-1":
            return _rows_receiver(e_.value)
        return False

    for p in PathEnum((0, 1), exc_edges=False).block(lp.body):
        frag_adds, gap_adds = [], []
        had_prev = None
        nonconsec = None
        for i, e in enumerate(p.events):
            if e.kind == "cond":
                from ..flow import cond_facts

                for t, v in cond_facts(e.node, e.val):
                    tx = norm(t).replace(" ", "")
                    if tx.endswith("isnotNone") and v:
                        had_prev = True
                    if isinstance(t, ast.Compare) and len(t.ops) == 1 and isinstance(t.ops[0], ast.NotEq | ast.Eq):
                        sides = {norm(t.left).replace(" ", ""), norm(t.comparators[0]).replace(" ", "")}
                        # last != i - 1   /   last + 1 != i   (either operand order)
                        if f"{iv}-1" in sides or (iv in sides and any(x.endswith("+1") or x.startswith("1+") for x in sides)):
                            nonconsec = v if isinstance(t.ops[0], ast.NotEq) else (not v)
            if e.kind == "stmt":
                for c in [x for x in [e.node, *walk_shallow(e.node)] if isinstance(x, ast.Call) and isinstance(x.func, ast.Attribute) and x.args and (x.func.attr == "add_row" or (x.func.attr == "append" and _rows_receiver(x.func.value)))]:
                    a = c.args[0]
                    if is_name(a, fv):
                        frag_adds.append(i)
                    else:
                        gap_adds.append((i, a))
        if frag_adds and had_prev and nonconsec is True and not gap_adds:
            ok5, why5 = False, "two left-over contigs that were NOT consecutive rows in the input are placed next to each other with no gap row on a path (e.g. input a,b,c without gaps, only b found: a and c become directly adjacent)"
        if gap_adds:
            if nonconsec is not True:
                ok5, why5 = False, "a gap row is added between two left-over contigs on a path that has not established that they were NOT consecutive rows of the input: contigs that abut in the input (no gap row between them) come back separated by a gap"
            if not had_prev:
                ok5, why5 = False, "a gap row is added without a test that a fragment was added before it (scaffold could start with a gap)"
            if not frag_adds or frag_adds[-1] < gap_adds[-1][0]:
                ok5, why5 = False, "a gap row is added that is not followed by a fragment row (scaffold could end with a gap)"
            if len(gap_adds) != 1:
                ok5, why5 = False, "several gap rows added between two fragments"
            def classify(a):
                """-> set of kinds {'join','input'} or None when not recognised"""
                src = norm(a)
                if src == "self.default_gap":
                    return {"join"}
                if isinstance(a, ast.Name):
                    defs = [norm(d).replace(" ", "") for d in local_defs(addm, a.id)]
                    if defs and all(_input_row_before(d) for d in local_defs(addm, a.id)):
                        return {"input"}
                    if defs and all(d == "self.default_gap" for d in defs):
                        return {"join"}
                    if len(defs) == 1 and isinstance(local_defs(addm, a.id)[0], ast.IfExp):
                        return classify(local_defs(addm, a.id)[0])
                    # v = <input row before>; if not isinstance(v, Gap): v = <join gap>
                    if len(defs) == 2 and sorted(d == "self.default_gap" for d in defs) == [False, True] and any(_input_row_before(d) for d in local_defs(addm, a.id)):
                        from ..flow import cond_facts as _cf

                        for g_ in walk_shallow(addm.node):
                            if isinstance(g_, ast.If) and any(isinstance(b_, ast.Assign) and is_name(b_.targets[0], a.id) and norm(b_.value) == "self.default_gap" for b_ in g_.body):
                                if any(norm(t_).replace(" ", "") == f"isinstance({a.id},Gap)" and v_ is False for t_, v_ in _cf(g_.test, True)):
                                    return {"input", "join"}
                if _input_row_before(a):
                    return {"input"}
                if isinstance(a, ast.IfExp):
                    x, y = classify(a.body), classify(a.orelse)
                    if x is not None and y is not None:
                        # the input row may only be used when it is a Gap
                        t = norm(a.test).replace(" ", "")
                        if "input" in x and not (t.startswith("isinstance(") and t.endswith(",Gap)")):
                            return None
                        return x | y
                return None

            for _, a in gap_adds:
                ks = classify(a)
                if ks is None:
                    # refuted only by a value that is recognisably something else: another input row, a freshly made gap
                    cands_ = [a] if not isinstance(a, ast.Name) else list(local_defs(addm, a.id))
                    other_row = bool(cands_) and all(isinstance(d_, ast.Subscript) and _rows_receiver(d_.value) and not _input_row_before(d_) for d_ in cands_)
                    fresh = isinstance(a, ast.Call) and dotted(a.func) == "Gap"
                    if not (other_row or fresh):
                        raise AnalysisError(f"{addm.short}: where the inserted gap '{norm(a)[:40]}' comes from is not understood (neither the row before the fragment nor the configured join gap, directly or through a local)")
                    ok5, why5 = False, f"inserted gap '{norm(a)}' is neither the input row preceding the fragment nor the join gap"
                else:
                    kinds |= ks
        if len(frag_adds) > 1:
            ok5, why5 = False, "fragment added twice"
    if ok5 and not kinds:
        # no gap insertion recognised at all: refuted only when the loop adds nothing but the fragment itself
        others_ = [c for c in walk_shallow(lp) if isinstance(c, ast.Call) and isinstance(c.func, ast.Attribute) and c.func.attr in ("append", "extend", "insert", "add_row", "append_scaffold") and not (c.args and is_name(c.args[0], fv))]
        if others_:
            raise AnalysisError(f"{addm.short}: rows are added by '{norm(others_[0])[:50]}', which is not one of the forms the gap rule reads: no verdict")
    if kinds != {"join", "input"}:
        ok5, why5 = False, why5 or f"gap insertion kinds {sorted(kinds)}: both the input gap and the join gap case are needed"
    L.check(ok5, "R5", addm.short, "gaps only between two fragments; input gap or join gap", why5, addm.loc(lp))
