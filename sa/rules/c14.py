"""C14 — reversal and reverse-complement are involutions that commute with output.

 R1 complement table: exhaustive over 256 bytes (involution, fixes non-IUPAC, case preserving, IUPAC pairs)
 R2 reverse_complement = reversal ∘ translate(table) applied to the whole value
 R3 Fragment.reverse: same class, same fields, strand negated
 R4 Scaffold.reverse: full reversed copy, every fragment row replaced by its reverse(), gaps untouched
 R5 forward / reverse chunkers are siblings (shared with C03.R2)   R6 to_scaffold reverses iff bait strand is -1
"""

from __future__ import annotations

import ast

from ..fold import Folder, NotConstant, try_fold
from ..model import AnalysisError, Func, Repo, dotted, is_name, norm, walk_shallow
from ..report import Ledger
from ..sym import B, Const, Lin, State, Str, Sym, SymExec, Tup, as_lin, NotNumeric
from ..util import names_in, paths

PROP = "C14"
LEVEL = "other"
EXPLANATION = (
    "The complement table is folded from the source (bytes.maketrans on literals) and checked exhaustively over all "
    "256 byte values: involution, identity outside the IUPAC alphabet, case preservation, and agreement with the IUPAC "
    "complement pairs. reverse_complement is matched as the composition (reversal, translate by that table) in either "
    "order on the whole value. Fragment.reverse is executed symbolically: the constructed object has the same class, "
    "identical name/start/end/tags normal forms and the negated strand, so reverse∘reverse is the identity by "
    "construction. Scaffold.reverse is decided structurally (complete reversed copy; every Fragment row replaced by "
    "its reverse; no row dropped). The chunker sibling rule is shared with C03. Streaming equality itself rests on "
    "seek arithmetic that is not decided here."
)

IUPAC = {
    "A": "T", "C": "G", "G": "C", "T": "A", "R": "Y", "Y": "R", "M": "K", "K": "M",
    "S": "S", "W": "W", "H": "D", "D": "H", "B": "V", "V": "B", "N": "N",
}


def _revcomp_by_probes(repo, simple, rc):
    """-> (ok, why, witness, table name, n probes) or None when the function does not fold on the probes."""
    from ..finite import UNKNOWN, Opaque, run_paths

    params = rc.params()
    # extra parameters must have defaults and no call site may pass them
    a = rc.node.args
    pos_defaults = dict(zip([x.arg for x in (a.posonlyargs + a.args)][::-1], a.defaults[::-1]))
    kw_defaults = {x.arg: d for x, d in zip(a.kwonlyargs, a.kw_defaults) if d is not None}
    env0 = {}
    for pn in params[1:]:
        d = pos_defaults.get(pn, kw_defaults.get(pn))
        if d is None:
            return None
        v = try_fold(d, default=NotImplemented)
        if v is NotImplemented:
            return None
        env0[pn] = v
    for g, c in repo.callers_of(rc):
        if len(c.args) > 1 or c.keywords:
            return None
    tables = [nm for nm in simple.assigns if nm in names_in(rc.node) and isinstance(try_fold(simple.assigns[nm], default=None), bytes) and len(try_fold(simple.assigns[nm], default=None)) == 256]
    if len(tables) != 1:
        return None
    table = try_fold(simple.assigns[tables[0]], default=None)
    probes = [bytes(range(256)), b"ACGTNacgtn", b"A", b"", b"AAC\nGT\r\n", b"RYKMSWBDHVN-*.", bytes(range(255, -1, -1)) + b"ACCGT"]
    for pb in probes:
        res = [r for r in run_paths(rc.node.body, {params[0]: pb, **env0}, loop_iters=(0,), opaque_calls=False) if r["path"].status == "return"]
        if len(res) != 1 or res[0]["unknown_conds"]:
            return None
        rv = [e.node for e in res[0]["path"].events if e.kind == "return"][0].value
        if rv is None:
            return None
        from ..finite import fold_env
        from ..fold import NotConstant

        try:
            val = fold_env(rv, res[0]["env"])
        except NotConstant:
            return None
        if val is UNKNOWN or isinstance(val, Opaque) or not isinstance(val, bytes | bytearray):
            return None
        want = pb[::-1].translate(table)
        if bytes(val) != want:
            k = next((i for i in range(min(len(val), len(want))) if val[i] != want[i]), min(len(val), len(want)))
            return (
                False,
                f"reverse_complement({pb[:12]!r}{'…' if len(pb) > 12 else ''}) folds to a value of length {len(val)} that differs from the reversed, complemented input (length {len(want)}) at offset {k}: the minus-strand sequence written for a reversed piece is not the reverse complement of its residues",
                {"input": repr(pb[:24]), "got": repr(bytes(val)[:24]), "expected": repr(want[:24])}, tables[0], len(probes),
            )
    return True, "", None, tables[0], len(probes)


def run(repo: Repo, L: Ledger, tier: str):
    L.rule("R1", "complement table over all 256 bytes")
    L.rule("R2", "reverse_complement == reversal ∘ translate(table) on the whole value")
    L.rule("R3", "Fragment.reverse: same class and fields, strand negated")
    L.rule("R4", "Scaffold.reverse: reversed copy, fragments reversed, gaps kept, nothing dropped")
    L.rule("R5", "rev_chunks is the mirrored sibling of fwd_chunks with reverse-complemented chunks")
    L.rule("R6", "to_scaffold reverses iff bait strand == -1")

    simple = repo.modules.get("tola.fasta.simple")
    if simple is None:
        raise AnalysisError("module tola.fasta.simple vanished")
    rc = simple.functions.get("reverse_complement")
    if rc is None:
        raise AnalysisError("anchor simple.reverse_complement vanished")

    # ---- R2 first (it tells us which table is used)
    rets = [n for n in walk_shallow(rc.node) if isinstance(n, ast.Return)]
    param = rc.params()[0]
    table_expr = None
    # (a) decided by constant propagation on probe inputs: the function applied to probe byte strings (extra parameters at their
    # defaults -- no call site passes them) must give the reversed, table-translated probe
    probe_verdict = _revcomp_by_probes(repo, simple, rc)
    if probe_verdict is not None:
        ok2, why2, wit2, tname_p, n_pr = probe_verdict
        L.check(ok2, "R2", rc.short, f"reverse_complement(probe) == translate(reversed(probe)) on {n_pr} probes covering all 256 byte values, by constant propagation", why2, rc.loc(), witness=wit2)
        table_expr = ast.Name(id=tname_p, ctx=ast.Load())
    else:
        ok2 = False
        e = None
        ops = []
        if len(rets) == 1 and rets[0].value is not None:
            e = rets[0].value
            from ..util import resolve_local

            guard = 0
            while guard < 8:
                guard += 1
                e = resolve_local(rc, e) if isinstance(e, ast.Name) and e.id != param else e
                if isinstance(e, ast.Subscript) and isinstance(e.slice, ast.Slice) and e.slice.lower is None and e.slice.upper is None and try_fold(e.slice.step, default=None) == -1:
                    ops.append("rev")
                    e = e.value
                elif isinstance(e, ast.Call) and isinstance(e.func, ast.Attribute) and e.func.attr == "translate" and len(e.args) == 1:
                    ops.append("comp")
                    table_expr = e.args[0]
                    e = e.func.value
                elif isinstance(e, ast.Call) and dotted(e.func) == "bytes" and len(e.args) == 1 and isinstance(e.args[0], ast.Call) and dotted(e.args[0].func) == "reversed":
                    ops.append("rev")
                    e = e.args[0].args[0]
                else:
                    break
            ok2 = is_name(e, param) and sorted(ops) == ["comp", "rev"]
        if not ok2:
            raise AnalysisError(f"{rc.short}: neither foldable on probe inputs nor a plain reversal∘translate of the parameter (found {ops}): form not understood")
        L.ok("R2", rc.short, "seq reversed once and translated once", rc.loc())

    # ---- R1
    table = None
    tname = dotted(table_expr) if table_expr is not None else "IUPAC_COMPLEMENT"
    if tname and tname in simple.assigns:
        table = try_fold(simple.assigns[tname], default=None)
    if not isinstance(table, bytes) or len(table) != 256:
        raise AnalysisError(f"complement table {tname} does not fold to a 256-byte translation table")
    bad_inv = [b for b in range(256) if table[table[b]] != b]
    L.check(not bad_inv, "R1", f"{tname}:involution", "table[table[b]] == b for all 256 bytes", f"complement table is not an involution at bytes {[chr(b) if 32 < b < 127 else b for b in bad_inv[:6]]}: reverse-complementing twice changes the sequence", simple.relpath, witness={"byte": chr(bad_inv[0]) if bad_inv else None})
    letters = set()
    for k in IUPAC:
        letters |= {ord(k), ord(k.lower())}
    bad_fix = [b for b in range(256) if b not in letters and table[b] != b]
    L.check(not bad_fix, "R1", f"{tname}:non-iupac-fixed", "every non-IUPAC byte maps to itself", f"non-IUPAC bytes are altered: {[chr(b) if 32 < b < 127 else b for b in bad_fix[:6]]}", simple.relpath)
    bad_pair = []
    for k, v in IUPAC.items():
        if table[ord(k)] != ord(v):
            bad_pair.append(f"{k}->{chr(table[ord(k)])} (IUPAC {v})")
        if table[ord(k.lower())] != ord(v.lower()):
            bad_pair.append(f"{k.lower()}->{chr(table[ord(k.lower())])} (IUPAC {v.lower()})")
    L.check(not bad_pair, "R1", f"{tname}:iupac-pairs", "all 15 IUPAC codes × 2 cases complement correctly (case preserved)", f"complement table disagrees with IUPAC: {bad_pair[:6]}", simple.relpath, witness=bad_pair[:3])
    L.extra["table_bytes_checked"] = 256
    L.exhaustive = True

    # BytesIO helper applies it to the whole value
    helper = simple.functions.get("revcomp_bytes_io")
    if helper is not None:
        hp = helper.params()[0]
        calls = [n for n in walk_shallow(helper.node) if isinstance(n, ast.Call) and dotted(n.func) == rc.name]
        ok = len(calls) == 1 and len(calls[0].args) == 1 and isinstance(calls[0].args[0], ast.Call) and isinstance(calls[0].args[0].func, ast.Attribute) and calls[0].args[0].func.attr in ("getvalue", "getbuffer") and is_name(calls[0].args[0].func.value, hp)
        L.check(ok, "R2", helper.short, "whole buffer value reverse-complemented", "helper does not reverse-complement the complete buffer value (position-dependent read or partial slice)", helper.loc())
        rets = [n for n in walk_shallow(helper.node) if isinstance(n, ast.Return)]
        fresh = len(rets) == 1 and isinstance(rets[0].value, ast.Call) and (dotted(rets[0].value.func) or "").endswith("BytesIO")
        mutates = [norm(c)[:40] for c in walk_shallow(helper.node) if isinstance(c, ast.Call) and isinstance(c.func, ast.Attribute) and is_name(c.func.value, hp) and c.func.attr in ("write", "seek", "truncate")]
        L.check(fresh and not mutates, "R2", helper.short + ":fresh", "returns a new buffer, leaves its argument untouched", f"helper overwrites the buffer it is given ({mutates[:2]}): a caller that still holds (or re-uses) that chunk sees reverse-complemented bytes — complementing is then applied an odd number of times to re-used chunks", helper.loc())

    # ---- R3 Fragment.reverse
    frag = repo.cls("Fragment")
    rev = repo.find_method(frag, "reverse")
    if rev is None:
        raise AnalysisError("anchor Fragment.reverse vanished")
    ex = SymExec(repo, loop_iters=(0, 1))
    st = State()
    f = Sym("f", frag)
    finals = ex.run_function(rev, st, {rev.params()[0]: f})
    ok3, why3 = True, ""
    if len(finals) != 1:
        ok3, why3 = False, f"{len(finals)} returning paths"
    else:
        r = finals[0]
        new = r.ret
        if not (isinstance(new, Sym) and new.cls is not None and new.cls.qualname == frag.qualname and new.name != "f"):
            ok3, why3 = False, f"result is {new!r}, not a newly constructed object of the receiver's class"
        else:
            st2 = State()
            st2.heap = dict(r.heap)
            for attr in ("name", "start", "end", "tags", "strand"):
                nv = _unwrap(ex.get_attr(st2, new, attr, None, rev))
                ov = _unwrap(ex.get_attr(st2, f, attr, None, rev))
                if attr == "strand":
                    try:
                        same = as_lin(nv) == -as_lin(ov)
                    except NotNumeric:
                        same = False
                    if not same:
                        ok3, why3 = False, f"strand of the reversed fragment is {nv!r}, expected the negation of {ov!r}"
                else:
                    if repr(nv) != repr(ov):
                        ok3, why3 = False, f"field '{attr}' of the reversed fragment is {nv!r}, expected {ov!r} unchanged"
    L.check(ok3, "R3", rev.short, "new Fragment(name, start, end, -strand, tags)", why3, rev.loc())

    # ---- R4 Scaffold.reverse
    scf = repo.cls("Scaffold")
    srev = scf.methods.get("reverse")
    if srev is None:
        raise AnalysisError("anchor Scaffold.reverse vanished")
    from .shared import rows_memo_verdict

    mv = rows_memo_verdict(repo, scf, srev)
    if mv is not None:
        _, mm, attr_, g_, node_ = mv
        L.fail(
            "R4", srev.short + ":memo",
            f"the reversed rows are kept in self.{attr_} by {mm.short} and reused without looking at the rows again, but {g_.short} changes the rows in place ('{norm(node_)[:50]}') without dropping that memo: "
            "a later reverse() returns the reversal of rows the scaffold no longer has, so reversing twice does not give back the scaffold and the streamed minus-strand sequence is not the reverse complement of the plus-strand one",
            g_.loc(node_), witness={"history": f"s.reverse(); {g_.name}(...); s.reverse()"},
        )
    else:
        _scaffold_reverse(repo, L, scf, srev)

    # ---- R5 siblings
    from .shared import chunker_siblings

    chunker_siblings(repo, L, "R5")

    # ---- R6
    from .shared import to_scaffold_orientation

    to_scaffold_orientation(repo, L, "R6")


def _unwrap(v):
    while isinstance(v, Str):
        v = v.v
    return v


def _scaffold_reverse(repo, L, scf, srev):
    # (a) rows copy reversed
    assigns = [n for n in walk_shallow(srev.node) if isinstance(n, ast.Assign) and len(n.targets) == 1 and isinstance(n.targets[0], ast.Attribute) and n.targets[0].attr == "rows"]
    ctor_rows = None
    ok_a = False
    form = None
    for a in assigns:
        v = a.value
        if isinstance(v, ast.Subscript) and norm(v.value) == "self.rows" and isinstance(v.slice, ast.Slice) and v.slice.lower is None and v.slice.upper is None and try_fold(v.slice.step, default=None) == -1:
            ok_a, form = True, "slice"
        elif isinstance(v, ast.Call) and dotted(v.func) == "list" and v.args and isinstance(v.args[0], ast.Call) and dotted(v.args[0].func) == "reversed" and norm(v.args[0].args[0]) == "self.rows":
            ok_a, form = True, "reversed"
        elif isinstance(v, ast.ListComp) and len(v.generators) == 1 and not v.generators[0].ifs:
            g = v.generators[0]
            it = norm(g.iter)
            if it in ("reversed(self.rows)", "self.rows[::-1]") and isinstance(g.target, ast.Name):
                r = g.target.id
                e = v.elt
                if isinstance(e, ast.IfExp) and norm(e.test) == f"isinstance({r}, Fragment)" and norm(e.body) == f"{r}.reverse()" and norm(e.orelse) == r:
                    ok_a, form = True, "comprehension"
    L.check(ok_a, "R4", srev.short + ":copy", f"rows = complete reversed copy of self.rows ({form})", "reversed scaffold's rows are not a complete reversed copy of the original rows", srev.loc())
    if form == "comprehension":
        L.ok("R4", srev.short + ":fragments", "each Fragment row replaced by its reverse() in the comprehension", srev.loc())
        return
    # (b) every fragment row replaced by its reverse
    loops = [n for n in walk_shallow(srev.node) if isinstance(n, ast.For)]
    ok_b, why_b = False, "no loop replacing fragment rows by their reverse()"
    for lp in loops:
        it = lp.iter
        if isinstance(it, ast.Call) and isinstance(it.func, ast.Attribute) and it.func.attr == "idx_fragments" and isinstance(lp.target, ast.Tuple) and len(lp.target.elts) == 2:
            iv, fv = (e.id for e in lp.target.elts)
            recv = norm(it.func.value)
            body_ok = (
                len(lp.body) == 1
                and isinstance(lp.body[0], ast.Assign)
                and norm(lp.body[0].targets[0]) == f"{recv}.rows[{iv}]"
                and norm(lp.body[0].value) == f"{fv}.reverse()"
            )
            if body_ok and not lp.orelse:
                ok_b = True
            else:
                why_b = f"loop body '{norm(lp.body[0]) if lp.body else ''}' does not store frag.reverse() at its own index"
    L.check(ok_b, "R4", srev.short + ":fragments", "rows[i] = frag.reverse() for every (i, frag) of idx_fragments()", why_b, srev.loc())
    from .shared import check_row_iter

    check_row_iter(repo, L, "R4", scf, "idx_fragments", "Fragment", "idx", "yields (index, row) for exactly the Fragment rows", "idx_fragments() no longer yields every Fragment row with its own index")
