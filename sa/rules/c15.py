"""C15 — a stale, partial or concurrently rewritten index cache is never silently used.

 R1 validate before load: cache readers only on the validator's true edge; false edge rebuilds; no other caller
 R2 validator: `return True` only after exists() and STRICT cache.mtime > fasta.mtime for BOTH cache files
 R3 rebuild: index current content, set both in-memory results from that run, write both cache files on every path
 R4 atomic publication: cache files are never opened for writing in place
    (process-unique temporary beside the final file -> write -> close -> replace/rename)
 R5 the .fai loader unpacks exactly five fields per line
"""

from __future__ import annotations

import ast

from ..flow import PathEnum, cond_facts
from ..fold import try_fold
from ..model import AnalysisError, Func, Repo, dotted, is_name, norm, walk_shallow
from ..report import Ledger
from ..util import end_pos, pos, kw, local_defs, names_in, path_calls, paths

PROP = "C15"
LEVEL = "other"
EXPLANATION = (
    "Cache discipline as typestate / dominance facts of FastaIndex: auto_load's paths call the cache readers only after the "
    "validator returned true and the rebuild otherwise (and nothing else calls the readers); every `return True` path of the "
    "validator has tested existence and a strict mtime comparison for both cache files (loop over the literal file tuple "
    "unrolled exactly); the rebuild sets both results from one indexing run and calls both writers on every path; each cache "
    "writer follows open-temporary → write → close → replace, with the temporary derived from the final path plus a "
    "process-unique token, so neither a crash at a flush boundary nor a racing reader can observe a half-written cache file as "
    "valid. File-system semantics of rename and clock behaviour are trusted."
)

UNIQUE_TOKENS = ("os.getpid", "getpid", "uuid.uuid4", "uuid4", "tempfile.mkstemp", "mkstemp", "tempfile.NamedTemporaryFile", "NamedTemporaryFile", "secrets.token_hex", "token_hex")


def run(repo: Repo, L: Ledger, tier: str):
    L.rule("R1", "readers dominated by validator==True; rebuild on False; readers have no other caller")
    L.rule("R2", "return True => exists ∧ strict newer, for both cache files")
    L.rule("R3", "rebuild sets both results and writes both caches on every path")
    L.rule("R4", "cache writers publish atomically via a unique temporary + replace")
    L.rule("R5", "fai loader unpacks exactly 5 fields")

    fi = repo.cls("FastaIndex")
    need = {n: fi.methods.get(n) for n in ("auto_load", "check_for_index_files", "load_index", "load_assembly", "run_indexing", "write_index", "write_assembly")}
    missing = [n for n, m in need.items() if m is None]
    if missing:
        raise AnalysisError(f"anchors FastaIndex.{missing} vanished")
    auto, valid, ld_i, ld_a, reb, wr_i, wr_a = (need[n] for n in ("auto_load", "check_for_index_files", "load_index", "load_assembly", "run_indexing", "write_index", "write_assembly"))

    # ---- R1
    ok, why = True, ""
    seen = {True: 0, False: 0}
    for p in paths(auto, (0, 1), exc_edges=False):
        v = None
        for e in p.events:
            if e.kind == "cond":
                for t, val in cond_facts(e.node, e.val):
                    if isinstance(t, ast.Call) and isinstance(t.func, ast.Attribute) and t.func.attr == valid.name:
                        v = val
        called = [c.func.attr for _, c in path_calls(p, lambda c: isinstance(c.func, ast.Attribute) and is_name(c.func.value, "self"))]
        loads = {x for x in called if x in (ld_i.name, ld_a.name)}
        if v is None:
            if loads:
                ok, why = False, "a path loads the cache without consulting the validator"
            elif reb.name in called:
                seen[False] += 1  # e.g. the false edge of `not force and validator()`: rebuilds, whatever the validator says
            continue
        seen[v] += 1
        if v and (loads != {ld_i.name, ld_a.name} or reb.name in called):
            ok, why = False, f"validator true: path calls {called}, expected both loaders and no rebuild"
        if not v and (loads or reb.name not in called):
            ok, why = False, f"validator false: path calls {called}, expected the rebuild and no loader"
    if not (seen[True] and seen[False]):
        ok, why = False, why or "auto_load does not branch on the validator"
    L.check(ok, "R1", auto.short, "load iff validated, else rebuild", why, auto.loc())
    for rd in (ld_i, ld_a):
        callers = [(f, c) for f, c in repo.callers_of(rd) if isinstance(c.func, ast.Attribute) and c.func.attr == rd.name]
        extra = [f.short for f, c in callers if f is not auto]
        L.check(not extra, "R1", rd.short + ":callers", "only auto_load reads the cache", f"cache reader is also called from {extra} without validation", rd.loc())

    # ---- R2
    _validator(L, valid)

    # ---- R3
    ok, why = True, ""
    for p in paths(reb, (0, 1), exc_edges=False):
        if p.status != "return":
            continue
        called = [c.func.attr for _, c in path_calls(p, lambda c: isinstance(c.func, ast.Attribute) and is_name(c.func.value, "self"))]
        if wr_i.name not in called or wr_a.name not in called:
            ok, why = False, f"a rebuild path writes only {[x for x in called if x.startswith('write')]}: one cache file stays stale/missing while the other is fresh"
    idx_calls = [c for c in repo.calls_in(reb) if dotted(c.func) == "index_fasta_file"]
    if len(idx_calls) != 1 or not idx_calls[0].args or norm(idx_calls[0].args[0]) != "self.fasta_file":
        ok, why = False, "rebuild does not index self.fasta_file"
    else:
        # both in-memory results come from that one run
        asg = [n for n in walk_shallow(reb.node) if isinstance(n, ast.Assign) and n.value is idx_calls[0]]
        if len(asg) == 1 and isinstance(asg[0].targets[0], ast.Tuple) and len(asg[0].targets[0].elts) == 2:
            a, b = (norm(e) for e in asg[0].targets[0].elts)
            sets = {norm(n.targets[0]): norm(n.value) for n in walk_shallow(reb.node) if isinstance(n, ast.Assign) and isinstance(n.targets[0], ast.Attribute)}
            sets.update({x: x for x in (a, b) if x.startswith("self.")})
            if not ((sets.get("self.index") == a or a == "self.index") and (sets.get("self.assembly") == b or b == "self.assembly")):
                ok, why = False, f"in-memory index/assembly are not both taken from the indexing run ({sets})"
        else:
            ok, why = False, "result of index_fasta_file is not unpacked into (index, assembly)"
    L.check(ok, "R3", reb.short, "index → set both → write both", why, reb.loc())
    # the writers' order relative to the setters: results are set before they are written
    # ---- R4
    for wr, attr in ((wr_i, "fai_file"), (wr_a, "agp_file")):
        _atomic(repo, L, fi, wr)

    # ---- R5
    unpack = [n for n in walk_shallow(ld_i.node) if isinstance(n, ast.Assign) and isinstance(n.targets[0], ast.Tuple) and isinstance(n.value, ast.Call) and isinstance(n.value.func, ast.Attribute) and n.value.func.attr == "split"]
    ok5 = len(unpack) == 1 and len(unpack[0].targets[0].elts) == 5 and not any(isinstance(e, ast.Starred) for e in unpack[0].targets[0].elts)
    if not unpack and any(isinstance(c, ast.Call) and isinstance(c.func, ast.Attribute) and c.func.attr == "split" for c in walk_shallow(ld_i.node)) is False:
        # the line is split in a helper the loader calls
        raise AnalysisError(f"{ld_i.short}: the index lines are not split in the loader itself (a helper does it): form not understood")
    L.check(ok5, "R5", ld_i.short, "5-way unpack of every line (wrong field counts raise)", "the .fai loader does not unpack exactly five fields per line: a truncated or corrupt line is accepted", ld_i.loc())
    # loader reads every line of the file
    loops = [n for n in walk_shallow(ld_i.node) if isinstance(n, ast.For)]
    if not loops:
        comps = [n for n in walk_shallow(ld_i.node) if isinstance(n, ast.GeneratorExp | ast.ListComp | ast.DictComp)]
        if comps:
            skipping = [norm(c_)[:50] for n in comps for g in n.generators for c_ in g.ifs]
            L.check(not skipping, "R5", ld_i.short + ":all-lines", "every line loaded (comprehension without filter)", f"loader skips lines under {skipping}", ld_i.loc())
        else:
            raise AnalysisError(f"{ld_i.short}: how the lines of the index file are iterated is not understood")
    else:
        L.check(len(loops) == 1 and not any(isinstance(x, ast.Break | ast.Continue) for x in walk_shallow(loops[0])), "R5", ld_i.short + ":all-lines", "every line loaded", "loader skips lines", ld_i.loc())


def _validator(L, valid: Func):
    # an mtime taken without following symbolic links is the link's, not the sequence file's
    for c in [n for n in walk_shallow(valid.node) if isinstance(n, ast.Call)]:
        d = dotted(c.func) or ""
        nofollow = kw(c, "follow_symlinks")
        if d in ("os.lstat",) or (isinstance(c.func, ast.Attribute) and c.func.attr == "lstat") or (isinstance(c.func, ast.Attribute) and c.func.attr == "stat" and nofollow is not None and try_fold(nofollow, default=None) is False) or (d == "os.stat" and nofollow is not None and try_fold(nofollow, default=None) is False):
            L.fail(
                "R2", valid.short,
                f"'{norm(c)[:60]}' does not follow symbolic links: for a FASTA (or cache file) that is a link the freshness test compares the mtime of the link, which does not change when the sequence file is edited, so a stale cache is accepted",
                valid.loc(c), witness={"history": "genome.fa -> data/genome.fa; index; edit data/genome.fa; auto_load()"},
            )
            return
    # discover the loop over the literal tuple of cache files
    loops = [n for n in walk_shallow(valid.node) if isinstance(n, ast.For)]
    files = None
    var = None
    n_iter = 0
    if loops:
        lp = loops[0]
        if isinstance(lp.iter, ast.Tuple | ast.List) and isinstance(lp.target, ast.Name):
            files = [norm(e) for e in lp.iter.elts]
            var = lp.target.id
            n_iter = len(files)
    want_files = {"self.fai_file", "self.agp_file"}
    pe = PathEnum((n_iter,) if n_iter else (0,), exc_edges=False)
    n_true = 0
    ok, why = True, ""
    fasta_names = set()  # locals are resolved along each path
    for p in pe.function_paths(valid.node):
        rets = [e.node for e in p.events if e.kind == "return"]
        if not rets or try_fold(rets[0].value, default=None) is not True:
            if p.events and p.events[-1].kind == "implicit_return":
                pass
            continue
        n_true += 1
        it = -1
        facts = {}
        for e in p.events:
            if e.kind == "iter" and e.val[0] == "next":
                it = e.val[1]
            if e.kind == "cond":
                for t, v in cond_facts(e.node, e.val):
                    txt = norm(t)
                    cur = files[it] if (files and 0 <= it < len(files)) else None

                    def sub(s):
                        return s.replace(var, cur) if (var and cur) else s

                    if isinstance(t, ast.Name):
                        # a flag holding the answer of an earlier test on this path (found = idx_file.exists())
                        from ..util import resolve_on_path as _rop0

                        t0 = _rop0(p, p.events.index(e), t)
                        if isinstance(t0, ast.Call) and isinstance(t0.func, ast.Attribute) and t0.func.attr in ("exists", "is_file"):
                            t = t0
                            txt = norm(t)
                    if isinstance(t, ast.Call) and isinstance(t.func, ast.Attribute) and t.func.attr in ("exists", "is_file"):
                        facts.setdefault(sub(norm(t.func.value)), set()).add(("exists", v))
                    elif isinstance(t, ast.Compare) and len(t.ops) == 1 and isinstance(t.ops[0], ast.Gt | ast.GtE | ast.Lt | ast.LtE):
                        from ..util import resolve_on_path as _rop

                        i_e = p.events.index(e)
                        l, r = _rop(p, i_e, t.left), _rop(p, i_e, t.comparators[0])
                        op = t.ops[0]
                        lt, rt = norm(l), norm(r)
                        if "st_mtime" not in lt + rt and "mtime" not in txt.lower():
                            continue  # not a freshness comparison
                        # a running maximum of the cache files' mtimes proves only that the NEWEST cache file is fresh
                        for side in (t.left, t.comparators[0]):
                            if isinstance(side, ast.Name):
                                acc = [ev.node.value for ev in p.events[:i_e] if ev.kind == "stmt" and isinstance(ev.node, ast.Assign) and any(is_name(tt, side.id) for tt in ev.node.targets)]
                                if acc and isinstance(acc[-1], ast.Call) and dotted(acc[-1].func) == "max" and any(is_name(a_, side.id) for a_ in acc[-1].args) and "st_mtime" in norm(acc[-1]) and "fasta" not in norm(acc[-1]):
                                    ok, why = False, f"the freshness test compares '{side.id}', the maximum of the cache files' mtimes ({norm(acc[-1])[:60]}), with the FASTA: one stale cache file beside a fresh one is accepted"
                                    break
                        else:
                            if "st_mtime" not in lt or "st_mtime" not in rt:
                                raise AnalysisError(f"{valid.short}: freshness comparison '{txt}' is between values whose origin is not a plain <file>.stat().st_mtime on this path ('{lt[:40]}' vs '{rt[:40]}'): form not understood")
                        if not ok and "maximum of the cache" in why:
                            L.fail("R2", valid.short, why, valid.loc(), witness={"history": "touch genome.fa.fai (or rewrite only the .agp) after editing the FASTA"})
                            return
                        if "st_mtime" not in lt or "st_mtime" not in rt:
                            raise AnalysisError(f"{valid.short}: freshness comparison '{txt}' is between values whose origin is not a plain <file>.stat().st_mtime on this path ('{lt[:40]}' vs '{rt[:40]}'): form not understood")
                        txt = f"{lt} {type(op).__name__} {rt}"

                        def is_fasta(s, node):
                            return "self.fasta_file" in s or (isinstance(node, ast.Name) and node.id in fasta_names)

                        if is_fasta(rt, r) and not is_fasta(lt, l):
                            cache, rel = sub(lt), op
                        elif is_fasta(lt, l) and not is_fasta(rt, r):
                            cache = sub(rt)
                            rel = {ast.Lt: ast.Gt(), ast.LtE: ast.GtE(), ast.Gt: ast.Lt(), ast.GtE: ast.LtE()}.get(type(op), op)
                        else:
                            ok, why = False, f"mtime comparison '{txt}' does not compare a cache file with the FASTA"
                            continue
                        cache_file = cache.split(".stat()")[0]
                        # effective relation given the truth value
                        relname = type(rel).__name__
                        if not v:
                            relname = {"Gt": "LtE", "GtE": "Lt", "Lt": "GtE", "LtE": "Gt"}.get(relname, relname)
                        facts.setdefault(cache_file, set()).add(("newer", relname))
        for cf in want_files:
            fs = facts.get(cf, set())
            if ("exists", True) not in fs:
                ok, why = False, f"a path returns True without testing that {cf} exists"
            rels = {r for k, r in fs if k == "newer"}
            if "Gt" not in rels:
                if "GtE" in rels:
                    ok, why = False, f"{cf}: cache accepted when its mtime EQUALS the FASTA's (>=): a FASTA rewritten within the clock granularity of the cache is served stale"
                else:
                    ok, why = False, f"a path returns True without testing that {cf} is strictly newer than the FASTA (relations seen: {sorted(rels)})"
    if n_true == 0:
        ok, why = False, "validator has no `return True` path"
    L.check(ok, "R2", valid.short, f"exists ∧ mtime > fasta.mtime for both files on all {n_true} accepting paths", why, valid.loc())


def _atomic(repo: Repo, L: Ledger, fi, wr: Func):
    """Typestate of one cache writer."""
    init = fi.methods.get("__init__")
    cache_attrs = set()
    for n in walk_shallow(init.node):
        if isinstance(n, ast.Assign) and isinstance(n.targets[0], ast.Attribute) and is_name(n.targets[0].value, "self"):
            if any(isinstance(x, ast.Constant) and isinstance(x.value, str) and x.value.startswith(".") for x in ast.walk(n.value)) and "fasta_file" in norm(n.value):
                cache_attrs.add(f"self.{n.targets[0].attr}")
    opens = []
    for c in repo.calls_in(wr):
        if isinstance(c.func, ast.Attribute) and c.func.attr == "open":
            mode = c.args[0] if c.args else kw(c, "mode")
            m = try_fold(mode, default="?") if mode is not None else "r"
            if m == "?" or any(ch in m for ch in "wax+"):
                opens.append((c, norm(c.func.value)))
        elif dotted(c.func) == "open":
            mode = c.args[1] if len(c.args) > 1 else kw(c, "mode")
            m = try_fold(mode, default="?") if mode is not None else "r"
            if m == "?" or any(ch in m for ch in "wax+"):
                opens.append((c, norm(c.args[0])))
        elif dotted(c.func) in ("tempfile.NamedTemporaryFile", "NamedTemporaryFile", "tempfile.mkstemp", "mkstemp"):
            opens.append((c, "<tempfile>"))
    inst = wr.short
    finals = [t for _, t in opens if t in cache_attrs]
    if finals:
        c = [c for c, t in opens if t in cache_attrs][0]
        L.fail(
            "R4", inst,
            f"cache file {finals[0]} is opened for writing in place: a run interrupted at a flush boundary, or a reader racing this writer, leaves a shorter file that is newer than the FASTA and passes the validator",
            wr.loc(c), witness={"history": "index 3-record FASTA; kill the writer after the first flush; auto_load() again", "observed": "cache loads with fewer records, silently"},
        )
        return
    if not opens:
        # delegated to a helper? follow one level: helper called with the cache path
        for c in repo.calls_in(wr):
            targets, _, _ = repo.resolve_call(c, wr)
            for t in targets:
                if t.cls is fi and t is not wr and any(norm(a) in cache_attrs for a in c.args):
                    return _atomic_helper(repo, L, fi, wr, t, c)
        L.fail("R4", inst, "cache writer opens no file: the cache is never written", wr.loc())
        return
    # temporary: derived from the final path + a process-unique token, same directory
    c, tmp_txt = opens[0]
    tmp_ok, why = _tmp_is_unique_sibling(wr, c, tmp_txt, cache_attrs)
    L.check(tmp_ok, "R4", inst + ":temporary", "temporary is a process-unique sibling of the final file", why, wr.loc(c))
    # replace after the with-block
    pub = _publish_calls(wr, cache_attrs)
    with_node = None
    n = c
    while n is not None and not isinstance(n, ast.With):
        n = getattr(n, "_parent", None)
    with_node = n
    ok_pub = False
    why_pub = "temporary is never renamed onto the cache file"
    if pub:
        pc = pub[0]
        def _after(a, b):
            """statement containing a comes after statement b in b's block (structural, not by line number)"""
            blk_owner = getattr(b, "_parent", None)
            for fld in ("body", "orelse", "finalbody"):
                blk = getattr(blk_owner, fld, None)
                if isinstance(blk, list) and b in blk:
                    i = blk.index(b)
                    return any(any(x is a for x in ast.walk(sx)) for sx in blk[i + 1:])
            return False

        ok_pub = with_node is not None and not any(x is pc for x in ast.walk(with_node)) and _after(pc, with_node)
        why_pub = "the rename happens before the temporary is closed (inside the with-block): the published file may be incomplete"
        if ok_pub:
            # on every normal path through the function after the with-block
            for p in paths(wr, (0, 1), exc_edges=False):
                if p.status != "return":
                    continue
                wrote = any(e.kind == "with" and e.node is with_node for e in p.events)
                published = any(pc is cc for _, cc in path_calls(p, lambda x: True))
                if wrote and not published:
                    ok_pub, why_pub = False, "a path writes the temporary but never publishes it"
    L.check(ok_pub, "R4", inst + ":publish", "replace/rename onto the final name after the temporary is closed", why_pub, wr.loc())


def _atomic_helper(repo, L, fi, wr, helper, call):
    L.ok("R4", wr.short, f"delegates publication to {helper.short}", wr.loc(call))
    # the helper must itself satisfy the typestate with its path parameter as the final file
    params = helper.params()[1:]
    if not params:
        L.fail("R4", helper.short, "publication helper takes no path", helper.loc())
        return
    cache_attrs = {params[0]}
    opens = [(c, norm(c.func.value)) for c in repo.calls_in(helper) if isinstance(c.func, ast.Attribute) and c.func.attr == "open" and (c.args or kw(c, "mode"))]
    if any(t in cache_attrs for _, t in opens):
        L.fail("R4", helper.short, "helper opens the final cache path for writing in place", helper.loc())
        return
    if not opens:
        raise AnalysisError(f"{helper.short}: publication helper opens nothing itself (it delegates again, or hands out a handle some other way): form not understood")
    for c_, t_ in opens:
        # the opened name may be the final path itself on some path (e.g. `out = tmp if final.exists() else final`)
        defs_ = local_defs(helper, t_) if t_.isidentifier() else []
        flat = []
        for d_ in defs_:
            flat.extend([d_.body, d_.orelse] if isinstance(d_, ast.IfExp) else [d_])
        if any(norm(d_) in cache_attrs for d_ in flat):
            L.fail(
                "R4", helper.short,
                f"on some path '{t_}' is the final cache path itself: the cache file is then opened for writing in place (a run interrupted at a flush boundary, or a racing reader, sees a shorter file that is newer than the FASTA and passes the validator)",
                helper.loc(c_), witness={"history": "no cache file yet; two runs index the same FASTA; one is killed after its first flush"},
            )
            return
    c, tmp_txt = opens[0]
    ok, why = _tmp_is_unique_sibling(helper, c, tmp_txt, cache_attrs)
    L.check(ok, "R4", helper.short + ":temporary", "temporary is a process-unique sibling", why, helper.loc(c))
    pub = _publish_calls(helper, cache_attrs)
    L.check(bool(pub), "R4", helper.short + ":publish", "replace onto the final name", "helper never renames the temporary onto the final file", helper.loc())


def _tmp_is_unique_sibling(f: Func, open_call, tmp_txt, cache_attrs):
    if tmp_txt == "<tempfile>":
        d = kw(open_call, "dir")
        if d is None or not any(a in norm(d) for a in cache_attrs):
            return False, "tempfile is not created in the cache file's directory (rename would cross file systems / not be atomic)"
        return True, ""
    # follow the definitions of the temporary path: locals, helper methods, module-level functions (all evaluated when the
    # temporary is named) and module-level constants (evaluated once, when the module is imported)
    exprs = []  # (expr, evaluated at import time?)
    node = open_call.func.value if isinstance(open_call.func, ast.Attribute) else open_call.args[0]
    seen = set()
    frontier = [(node, f, False)]
    unfollowed = []
    mod = f.module
    while frontier:
        e, fn, at_import = frontier.pop()
        exprs.append((e, at_import))
        for nme in names_in(e):
            if (fn.qualname if fn else "<module>", nme) in seen:
                continue
            seen.add((fn.qualname if fn else "<module>", nme))
            if fn is not None and nme in fn.params():
                continue
            ld = local_defs(fn, nme) if fn is not None else []
            if ld:
                frontier.extend((d_, fn, at_import) for d_ in ld)
            elif nme in mod.assigns:
                # a module-level name: its value was computed at import time -- unless this function rebinds it (global)
                rebinds = [x.value for g in mod.functions.values() if g.cls is None for x in walk_shallow(g.node) if isinstance(x, ast.Assign) and any(isinstance(t, ast.Name) and t.id == nme for t in x.targets) and any(isinstance(gl, ast.Global) and nme in gl.names for gl in walk_shallow(g.node))]
                frontier.append((mod.assigns[nme], None, True))
                frontier.extend((rv, None, False) for rv in rebinds)
        for c in ast.walk(e):
            if not isinstance(c, ast.Call):
                continue
            tgt = None
            if isinstance(c.func, ast.Attribute) and is_name(c.func.value, "self") and fn is not None and fn.cls is not None:
                tgt = fn.cls.methods.get(c.func.attr)
            elif isinstance(c.func, ast.Attribute) and isinstance(c.func.value, ast.Name) and fn is not None and fn.cls is not None and c.func.value.id in (fn.cls.name, "cls"):
                tgt = fn.cls.methods.get(c.func.attr)
            elif isinstance(c.func, ast.Name):
                tgt = next((g for g in _module_functions(mod) if g.node.name == c.func.id), None)
            if tgt is not None and ("call", tgt.qualname) not in seen:
                seen.add(("call", tgt.qualname))
                for r in walk_shallow(tgt.node):
                    if isinstance(r, ast.Return) and r.value is not None:
                        frontier.append((r.value, tgt, at_import))
                frontier.extend((a_, fn, at_import) for a_ in c.args)
    text_call = " ".join(norm(e) for e, imp in exprs if not imp)
    text_import = " ".join(norm(e) for e, imp in exprs if imp)
    text = text_call + " " + text_import
    derived = any(a in text for a in cache_attrs) or any(p in text for p in f.params()[1:2])
    unique = any(tok in text_call for tok in UNIQUE_TOKENS)
    unique_at_import = any(tok in text_import for tok in UNIQUE_TOKENS)
    sibling = any(k in text for k in ("with_name", "with_suffix", "parent", "str(", "f'", 'f"', "+"))
    if not derived:
        return False, f"temporary '{tmp_txt}' is not derived from the cache file's own path (must live in the same directory)"
    if not unique and unique_at_import:
        return False, f"the process-unique part of temporary '{tmp_txt}' is computed once when the module is imported: worker processes forked afterwards (multiprocessing) all inherit the same name and write the same temporary concurrently"
    if not unique:
        return False, f"temporary '{tmp_txt}' has a fixed name: two processes indexing the same FASTA write the same temporary concurrently"
    if not sibling:
        return False, f"temporary '{tmp_txt}' may not be in the cache file's directory"
    return True, ""


def _module_functions(mod):
    return [g for g in mod.functions.values() if g.cls is None]


def _publish_calls(f: Func, cache_attrs):
    out = []
    for c in sorted([n for n in walk_shallow(f.node) if isinstance(n, ast.Call)], key=pos):
        d = dotted(c.func) or ""
        if d in ("os.replace", "os.rename", "shutil.move") and len(c.args) == 2 and norm(c.args[1]) in cache_attrs:
            if d != "shutil.move":
                out.append(c)
        elif isinstance(c.func, ast.Attribute) and c.func.attr in ("replace", "rename") and len(c.args) == 1 and norm(c.args[0]) in cache_attrs:
            out.append(c)
    return out
