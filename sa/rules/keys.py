"""Extraction of the fuse key and the destination (assembly) key of BuildAssembly — shared
by C09 (routing) and C10 (uniqueness)."""

from __future__ import annotations

import ast
import itertools

from ..finite import UNKNOWN, fold_env, run_paths
from ..fold import NotConstant
from ..model import AnalysisError, Repo, dotted, is_name, norm, walk_shallow

TAGS = (None, "Contaminant", "Haplotig", "FalseDuplicate")
HAPS = (None, "H1", "H2")
NAMES = ("N1", "N2")


def fuse_site(repo: Repo):
    ba = repo.cls("BuildAssembly")
    f = ba.methods.get("scaffolds_fused_by_name")
    if f is None:
        raise AnalysisError("anchor BuildAssembly.scaffolds_fused_by_name vanished")
    for loop in walk_shallow(f.node):
        if isinstance(loop, ast.For) and norm(loop.iter) == "self.scaffolds" and isinstance(loop.target, ast.Name):
            for n in walk_shallow(loop):
                if isinstance(n, ast.Call) and isinstance(n.func, ast.Attribute) and n.func.attr == "setdefault" and len(n.args) == 2:
                    if not (isinstance(n.args[1], ast.Call) and dotted(n.args[1].func) == "Scaffold"):
                        raise AnalysisError("scaffolds_fused_by_name: fusing is not written as one pass with `<dict>.setdefault(key, Scaffold(...))` (e.g. members are grouped first): form not understood by the fuse rules")
                    return f, loop, loop.target.id, n.args[0], n.args[1], n
    raise AnalysisError("fuse site `<dict>.setdefault(key, Scaffold(...))` not found in scaffolds_fused_by_name")


def asm_site(repo: Repo):
    ba = repo.cls("BuildAssembly")
    f = ba.methods.get("assemblies_with_scaffolds_fused")
    if f is None:
        raise AnalysisError("anchor BuildAssembly.assemblies_with_scaffolds_fused vanished")
    for loop in walk_shallow(f.node):
        if isinstance(loop, ast.For) and "scaffolds_fused_by_name" in norm(loop.iter) and isinstance(loop.target, ast.Name):
            for n in walk_shallow(loop):
                if isinstance(n, ast.Call) and isinstance(n.func, ast.Attribute) and n.func.attr == "setdefault" and len(n.args) == 2:
                    return f, loop, loop.target.id, n
    raise AnalysisError("destination site `assemblies.setdefault(key, Assembly(...))` not found")


def valuations():
    for t, h, n in itertools.product(TAGS, HAPS, NAMES):
        yield {"tag": t, "haplotype": h, "name": n}


def env_for(var, val):
    e = {f"{var}.{k}": v for k, v in val.items()}
    e.update({f"{var}.rank": 1, f"{var}.original_name": "O", f"{var}.original_tags": None})
    return e


def fuse_key(repo: Repo, val):
    f, loop, var, key_expr, ctor, call = fuse_site(repo)
    env = env_for(var, val)
    try:
        return fold_env(key_expr, env)
    except NotConstant:
        pass
    # the key is held in a local: evaluate the loop body up to the fuse site
    env[f"{var}.rows"] = ("row",)

    def stop(node):
        return any(x is call for x in ast.walk(node))

    res = [r for r in run_paths(loop.body, env, loop_iters=(0,), stop_at=stop) if r["stopped"] is not None]
    if len(res) != 1 or res[0]["unknown_conds"]:
        raise AnalysisError(f"fuse key '{norm(key_expr)}': {len(res)} feasible paths reach the fuse site for {val} (or a condition on the way is not a function of tag/haplotype/name)")
    try:
        return fold_env(key_expr, res[0]["env"])
    except NotConstant as e:
        raise AnalysisError(f"fuse key '{norm(key_expr)}' is not a function of the piece's tag/haplotype/name: {e}")


def asm_key(repo: Repo, val):
    """-> (destination key, curated flag) for a fused scaffold with these attributes."""
    f, loop, var, call = asm_site(repo)
    env = env_for(var, val)
    env["self.name"] = "ASM"

    def stop(node):
        return any(x is call for x in ast.walk(node))

    res = [r for r in run_paths(loop.body, env, loop_iters=(0,), stop_at=stop) if r["stopped"] is not None]
    if len(res) != 1:
        raise AnalysisError(f"destination key: {len(res)} feasible paths reach the setdefault for {val}")
    e = res[0]["env"]
    if res[0]["unknown_conds"]:
        raise AnalysisError(f"destination key depends on '{norm(res[0]['unknown_conds'][0][0])}' which is not a function of tag/haplotype")
    try:
        key = fold_env(call.args[0], e)
    except NotConstant as ex:
        raise AnalysisError(f"destination key '{norm(call.args[0])}' not constant under {val}: {ex}")
    ctor = call.args[1]
    curated = None
    if isinstance(ctor, ast.Call):
        for k in ctor.keywords:
            if k.arg == "curated":
                try:
                    curated = fold_env(k.value, e)
                except NotConstant:
                    curated = UNKNOWN
    return key, curated
