"""C20 — scaffold ordering is total, numeric-aware and never fails.

 R1 totality: every token the split regex can capture is in the conversion's domain
 R2 typing: exactly one capture group; even positions stay text, odd positions become int
 R3 table values are the Roman values of their keys; decimal tokens convert by value
 R4 output sort key is (rank, natural key), ascending, no cmp/reverse
"""

from __future__ import annotations

import ast

from ..fold import ASCII, Folder, NotConstant, Rx, charset, enumerate_language, to_text, try_fold
from ..model import AnalysisError, Func, Repo, dotted, is_name, norm, walk_shallow
from ..report import Ledger
from ..util import kw

PROP = "C20"
LEVEL = "other"
EXPLANATION = (
    "The natural-sort key is decided as a table/regex problem: the language of the split regex's capture group is "
    "enumerated from its parsed AST (finite enumeration up to a length bound plus detection of unbounded repeats) and "
    "every captured token is pushed through the folded conversion expression (numeral table lookup, then int()); a "
    "token outside the domain is reported with a concrete witness name. Typing (one capture group => text/number "
    "alternation, odd positions int, even positions str), the Roman values of the table and the (rank, key) sort "
    "structure are checked on the AST. Exhaustive over the regex language up to the bound; digit-only alternatives "
    "are discharged symbolically (int() is total on digit strings)."
)

ROMAN = {"I": 1, "V": 5, "X": 10, "L": 50, "C": 100, "D": 500, "M": 1000}


def roman_value(s):
    if not s or any(c not in ROMAN for c in s):
        return None
    total = 0
    for i, c in enumerate(s):
        v = ROMAN[c]
        if i + 1 < len(s) and ROMAN[s[i + 1]] > v:
            total -= v
        else:
            total += v
    return total


def key_function(repo: Repo) -> Func:
    """The natural-key function: discovered as the `key=` of the by-name sort in class Assembly."""
    cls = repo.cls("Assembly")
    cands = set()
    for m in cls.methods.values():
        for n in walk_shallow(m.node):
            if isinstance(n, ast.Call) and (dotted(n.func) == "sorted" or (isinstance(n.func, ast.Attribute) and n.func.attr == "sort")):
                k = kw(n, "key")
                if isinstance(k, ast.Attribute) and is_name(k.value, "self"):
                    f = repo.find_method(cls, k.attr)
                    if f:
                        cands.add(f)
    if len(cands) != 1:
        f = repo.find_method(cls, "name_natural_key")
        if f is None:
            raise AnalysisError("natural key function of Assembly not found")
        return f
    return cands.pop()


def run(repo: Repo, L: Ledger, tier: str):
    L.rule("R1", "L(capture group of the split regex) ⊆ domain of the token conversion")
    L.rule("R2", "one capture group; conversion applied exactly to odd split positions and yields int; even positions stay str")
    L.rule("R3", "numeral table value == Roman value of key; decimal tokens convert by value")
    L.rule("R4", "output sort key = (rank, natural key), ascending")

    keyf = key_function(repo)
    cls = keyf.cls
    # --- locate re.split and the element expression
    splits = [n for n in walk_shallow(keyf.node) if isinstance(n, ast.Call) and dotted(n.func) == "re.split"]
    if len(splits) != 1:
        raise AnalysisError(f"{keyf.short}: expected one re.split call, found {len(splits)}")
    sp = splits[0]
    pat = try_fold(sp.args[0], default=None)
    if not isinstance(pat, str):
        raise AnalysisError("split pattern is not a constant string")
    flags = 0
    rx = Rx(pat, flags)
    loc = keyf.loc(sp)

    # the comprehension whose iterable is enumerate(re.split(...))
    comp = None
    for n in walk_shallow(keyf.node):
        if isinstance(n, ast.GeneratorExp | ast.ListComp) and len(n.generators) == 1:
            it = n.generators[0].iter
            if isinstance(it, ast.Call) and dotted(it.func) == "enumerate" and it.args and it.args[0] is sp:
                comp = n
    if comp is None:
        # explicit loop appending one element per token to a list that is returned as the key
        from .shared import append_loop_elt

        for n in walk_shallow(keyf.node):
            if isinstance(n, ast.For) and isinstance(n.iter, ast.Call) and dotted(n.iter.func) == "enumerate" and n.iter.args and n.iter.args[0] is sp:
                got = append_loop_elt(n)
                if got is None:
                    continue
                lv, elt = got
                inits = [a for a in walk_shallow(keyf.node) if isinstance(a, ast.Assign) and is_name(a.targets[0], lv)]
                rets = [r for r in walk_shallow(keyf.node) if isinstance(r, ast.Return)]
                uses = [x for x in walk_shallow(keyf.node) if isinstance(x, ast.Name) and x.id == lv]
                if (
                    len(inits) == 1 and isinstance(inits[0].value, ast.List) and not inits[0].value.elts
                    and len(rets) == 1 and norm(rets[0].value) in (f"tuple({lv})", lv)
                    and len(uses) == 2 + sum(1 for _ in [x for x in ast.walk(n) if isinstance(x, ast.Name) and x.id == lv])
                ):
                    comp = ast.copy_location(ast.GeneratorExp(elt=elt, generators=[ast.comprehension(target=n.target, iter=n.iter, ifs=[], is_async=0)]), n)
    if comp is None:
        raise AnalysisError(f"{keyf.short}: element expression over enumerate(re.split(...)) not found")
    gen = comp.generators[0]
    if not (isinstance(gen.target, ast.Tuple) and len(gen.target.elts) == 2 and all(isinstance(e, ast.Name) for e in gen.target.elts)):
        raise AnalysisError("unexpected comprehension target")
    ivar, xvar = gen.target.elts[0].id, gen.target.elts[1].id
    start = 0
    if len(gen.iter.args) > 1 or kw(gen.iter, "start") is not None:
        start = try_fold(gen.iter.args[1] if len(gen.iter.args) > 1 else kw(gen.iter, "start"), default=None)
        if not isinstance(start, int):
            raise AnalysisError("enumerate start is not constant")
    if gen.ifs:
        L.fail("R2", keyf.short, "tokens are filtered out of the key (positions no longer alternate text/number)", loc)

    def resolver(name):
        head, _, attr = name.partition(".")
        tgt = repo.resolve_dotted(keyf.module, head)
        from ..model import Class

        if isinstance(tgt, Class) and attr:
            ca = repo.find_class_attr(tgt, attr)
            if ca is not None:
                return Folder(resolver=resolver).fold(ca)
        if head in ("self", "cls") and attr and cls is not None:
            ca = repo.find_class_attr(cls, attr)
            if ca is not None:
                return Folder(resolver=resolver).fold(ca)
        if name in keyf.module.assigns:
            return Folder(resolver=resolver).fold(keyf.module.assigns[name])
        raise NotConstant(name)

    def elem(i, x):
        return Folder({ivar: i + start, xvar: x}, resolver).fold(comp.elt)

    # --- R2: one group, alternation, typing
    L.check(rx.groups() == 1, "R2", f"{keyf.short}:groups", "exactly one capture group: re.split alternates text, token, text, …", f"split regex {pat!r} has {rx.groups()} capture groups: tokens and text no longer alternate", loc)
    if rx.groups() != 1:
        return
    for pos in range(0, 6, 2):
        for text in ("", "SUPER_", "_unloc_", "x"):
            try:
                v = elem(pos, text)
                ok = isinstance(v, str) and v == text
            except NotConstant as e:
                v, ok = f"error {e}", False
            if not ok:
                L.fail("R2", f"{keyf.short}:even", f"text at even split position {pos} is not kept as the same str (got {v!r} for {text!r})", loc, witness={"position": pos, "text": text})
                break
        else:
            L.ok("R2", f"{keyf.short}:even[{pos}]", "text positions stay str", loc)

    # --- R1: language of the group vs conversion domain
    alts = rx.top_alternatives_of_group(1)
    n_tokens = 0
    max_len = 6 if tier == "quick" else 8
    for k, alt in enumerate(alts):
        inst = f"{keyf.short}:alt[{k}]"
        if _digit_only(alt):
            # int() is total on non-empty ASCII digit strings; check on representatives incl. leading zeros
            bad = None
            for w in ("0", "7", "10", "007", "123456789012"):
                if not _in_alt(alt, w):
                    continue
                for pos in (1, 3):
                    try:
                        v = elem(pos, w)
                        n_tokens += 1
                        if type(v) is not int or v != int(w):
                            bad = (w, v)
                    except NotConstant as e:
                        bad = (w, f"error: {e}")
            L.check(bad is None, "R1", inst, "digit-only alternative: conversion total (int) and by value", f"decimal token {bad[0]!r} converts to {bad[1]!r}" if bad else "", loc, witness=bad)
            continue
        lang, infinite = enumerate_language(alt, max_len, ASCII)
        witnesses = []
        for cps in sorted(lang, key=lambda t: (len(t), t)):
            w = to_text(cps)
            if w == "":
                witnesses.append((w, "empty token"))
                continue
            n_tokens += 1
            for pos in (1, 3):
                try:
                    v = elem(pos, w)
                    if type(v) is not int:
                        witnesses.append((w, f"converts to {type(v).__name__} {v!r}, not int"))
                        break
                except NotConstant as e:
                    witnesses.append((w, f"conversion raises: {e}"))
                    break
            if len(witnesses) >= 3:
                break
        if witnesses:
            w, why = witnesses[0]
            L.fail(
                "R1",
                keyf.short,
                f"split regex {pat!r} captures token {w!r} which the conversion '{norm(comp.elt)}' cannot handle ({why}); sorting any assembly with a scaffold named like 'SUPER_{w}' fails",
                loc,
                witness={"token": w, "name": f"SUPER_{w}", "more": [x[0] for x in witnesses[1:]]},
            )
        else:
            if infinite:
                L.fail("R1", keyf.short, f"alternative {k} of {pat!r} is an unbounded non-digit language but every token up to length {max_len} converts — conversion domain cannot be enumerated", loc)
            else:
                L.ok("R1", inst, f"finite alternative, all {len(lang)} tokens convert to int", loc)
    L.extra["tokens_enumerated"] = n_tokens
    L.exhaustive = True

    # --- R3 (tokenisation): ordered alternation is leftmost-first, so an earlier alternative that
    # matches a proper prefix of a later alternative's token shadows it (e.g. I{1,3}|IV turns
    # IV into I + "V"); lazy repeats split a numeral into shorter ones.
    from ..fold import sre_c

    langs = [enumerate_language(a, 5, ASCII)[0] for a in alts]
    shadow = None
    for bi in range(len(alts)):
        for ai in range(bi):
            for v in langs[bi]:
                for u in langs[ai]:
                    if u and len(u) < len(v) and v[: len(u)] == u and v not in langs[ai]:
                        # is v still matched as a whole by the earlier alternative's language? no -> shadowed
                        shadow = shadow or (to_text(u), to_text(v), ai, bi)
    L.check(shadow is None, "R3", f"{keyf.short}:alternation-order", "no alternative shadows a longer token of a later alternative", f"in {pat!r} alternative {shadow[2]} matches {shadow[0]!r}, a proper prefix of {shadow[1]!r} from alternative {shadow[3]}: {shadow[1]!r} is never captured whole, so it does not compare by value" if shadow else "", loc, witness=shadow)
    lazy = [1 for op, av in rx._walk(rx.tree) if op is sre_c.MIN_REPEAT]
    L.check(not lazy, "R3", f"{keyf.short}:greedy", "token repeats are greedy (maximal numerals / numbers)", f"split regex {pat!r} uses a lazy repeat: numbers and numerals are split into shorter tokens", loc)

    # --- R3: table values
    tables = []
    for n in walk_shallow(ast.Module(body=[comp.elt], type_ignores=[])):
        pass
    for n in ast.walk(comp.elt):
        if isinstance(n, ast.Call) and isinstance(n.func, ast.Attribute) and n.func.attr == "get":
            d = dotted(n.func.value)
            if d:
                try:
                    t = resolver(d)
                    if isinstance(t, dict):
                        tables.append((d, t))
                except NotConstant:
                    pass
        if isinstance(n, ast.Subscript):
            d = dotted(n.value)
            if d:
                try:
                    t = resolver(d)
                    if isinstance(t, dict):
                        tables.append((d, t))
                except NotConstant:
                    pass
    for d, t in tables:
        for key, val in t.items():
            rv = roman_value(key) if isinstance(key, str) else None
            L.check(rv is not None and rv == val, "R3", f"{d}[{key!r}]", f"{key} = {val}", f"numeral table maps {key!r} to {val!r}, Roman value is {rv!r}", keyf.loc(), witness={"key": key, "value": val})
    if tables:
        L.floor("R3", "numeral table entries", sum(len(t) for _, t in tables), 3)
    # order of numerals and decimals by value
    try:
        seq = [elem(1, w) for w in ("I", "II", "III", "IV") if any(w in t for _, t in tables)]
        L.check(seq == sorted(seq) and len(set(seq)) == len(seq), "R3", f"{keyf.short}:numeral-order", f"numerals convert to increasing values {seq}", f"numerals I..IV convert to {seq}, not increasing", loc)
    except NotConstant:
        pass
    try:
        L.check(elem(1, "2") < elem(1, "10"), "R3", f"{keyf.short}:decimal-order", "2 < 10 by value", "decimal tokens do not compare by value", loc)
    except NotConstant as e:
        L.fail("R3", f"{keyf.short}:decimal-order", f"decimal token conversion fails: {e}", loc)

    # --- R4: sort sites
    _check_sort_sites(repo, L, cls, keyf)


def _digit_only(alt) -> bool:
    from ..fold import sre_c

    def ok(items):
        for op, av in items:
            if op in (sre_c.MAX_REPEAT, sre_c.MIN_REPEAT):
                if av[0] < 1 and len(items) == 1:
                    return False
                if not ok(av[2]):
                    return False
            elif op is sre_c.SUBPATTERN:
                if not ok(av[3]):
                    return False
            elif op in (sre_c.LITERAL, sre_c.IN, sre_c.CATEGORY):
                cs = charset((op, av), ASCII)
                if not cs or not all(chr(c).isdigit() for c in cs):
                    return False
            else:
                return False
        return bool(items)

    return ok(list(alt))


def _in_alt(alt, w) -> bool:
    lang, _ = enumerate_language(alt, len(w), ASCII) if len(w) <= 3 else (None, None)
    if lang is None:
        return True
    return tuple(map(ord, w)) in lang


def _check_sort_sites(repo: Repo, L: Ledger, cls, keyf: Func):
    n_sites = 0
    for m in cls.methods.values():
        for n in walk_shallow(m.node):
            is_sorted = isinstance(n, ast.Call) and dotted(n.func) == "sorted"
            is_sort = isinstance(n, ast.Call) and isinstance(n.func, ast.Attribute) and n.func.attr == "sort"
            if not (is_sorted or is_sort):
                continue
            subject = n.args[0] if is_sorted and n.args else (n.func.value if is_sort else None)
            if subject is None or "scaffolds" not in norm(subject):
                continue
            n_sites += 1
            inst = f"{m.short}:{'sorted' if is_sorted else 'sort'}"
            rev = kw(n, "reverse")
            rv = try_fold(rev, default="?") if rev is not None else False
            L.check(rv is False, "R4", inst + ":ascending", "no reverse", f"scaffold sort uses reverse={norm(rev) if rev is not None else None}", m.loc(n))
            k = kw(n, "key")
            if k is None:
                L.fail("R4", inst, "scaffolds sorted without a key function", m.loc(n))
                continue
            shape = _key_shape(repo, m, k, keyf)
            if shape == "natural" and is_sort:
                L.fail("R4", inst, f"'{norm(n)[:60]}' sorts the assembly's own scaffold list in place by name only: a by-name listing taken after the rank-first sort re-orders the output (rank no longer takes precedence), and it fails on assemblies whose scaffolds are a view", m.loc(n))
            elif shape == "natural":
                L.ok("R4", inst, "key = natural key", m.loc(n))
            elif shape == "rank+natural":
                L.ok("R4", inst, "key = (rank, natural key): rank takes precedence", m.loc(n))
            else:
                L.fail("R4", inst, f"sort key is {shape}, expected the natural key or (rank, natural key)", m.loc(n))
    L.floor("R4", "scaffold sort sites in Assembly", n_sites, 2)
    # nothing stores a by-name-only ordering back into an assembly's scaffold list (that would undo the rank-first order)
    by_name = {m.name for m in cls.methods.values() for n in walk_shallow(m.node) if isinstance(n, ast.Return) and isinstance(n.value, ast.Call) and dotted(n.value.func) == "sorted" and kw(n.value, "key") is not None and _key_shape(repo, m, kw(n.value, "key"), keyf) == "natural"}
    n_st = 0
    for f in repo.functions.values():
        for n in walk_shallow(f.node):
            if isinstance(n, ast.Assign) and any(isinstance(t, ast.Attribute) and t.attr == "scaffolds" for t in n.targets):
                n_st += 1
                calls = [c for c in ast.walk(n.value) if isinstance(c, ast.Call) and isinstance(c.func, ast.Attribute) and c.func.attr in by_name]
                if calls:
                    L.fail("R4", f"{f.short}:scaffolds=", f"'{norm(n)[:70]}' replaces an assembly's scaffold list by its by-name listing ({calls[0].func.attr}() ignores the rank): unplaced scaffolds whose names sort first are written before the chromosomes", f.loc(n), witness={"names": "HAP2_SCAFFOLD_4 (rank 3) < SUPER_1 (rank 1)"})
    L.ok("R4", "scaffolds= stores", f"{n_st} stores into a scaffolds attribute: none takes a by-name-only listing", cls.module.relpath)
    # the first component of the output sort key is the rank: it must be an integer for every scaffold, including those
    # built without one (parsers, Scaffold(name), Scaffold.reverse()) — a None default makes the sort raise TypeError
    scf = repo.cls("Scaffold")
    init = scf.methods.get("__init__")
    if init is not None and "rank" in init.params():
        from ..util import param_default

        d = param_default(init, "rank")
        # defaults are evaluated in the class body: class-level and module-level constants are visible
        from ..finite import module_consts

        env_d = dict(module_consts(scf.module))
        for nm_, val_ in scf.attrs.items():
            v_ = try_fold(val_, env=dict(env_d), default=NotImplemented)
            if v_ is not NotImplemented:
                env_d[nm_] = v_
        dv = try_fold(d, env=env_d, default="?") if d is not None else "?"
        if dv == "?" and d is not None:
            raise AnalysisError(f"Scaffold.__init__: default of 'rank' ('{norm(d)}') does not fold to a constant")
        stores = [n for n in walk_shallow(init.node) if isinstance(n, ast.Assign) and any(norm(t) == "self.rank" for t in n.targets)]
        plain = len(stores) == 1 and norm(stores[0].value) == "rank"
        L.check(
            isinstance(dv, int) and not isinstance(dv, bool) and plain, "R4", "Scaffold.__init__:rank-default", f"a scaffold built without a rank gets the integer {dv}",
            f"a scaffold built without a rank gets rank {dv!r}: the output sort key (rank, natural key) then compares None with int and smart_sort_scaffolds() raises TypeError as soon as ranked and unranked scaffolds share an assembly",
            init.loc(), witness={"assembly": "[Scaffold('a') (no rank), Scaffold('b', rank=1)]"},
        )
    # the output order (smart sort) must put rank first
    smart = [m for m in cls.methods.values() if any(isinstance(n, ast.Attribute) and n.attr == "rank" for n in ast.walk(m.node))]
    if not smart:
        L.fail("R4", cls.name, "no sort in Assembly orders by rank before name", cls.module.relpath)


def _key_shape(repo, m: Func, k, keyf: Func) -> str:
    def is_keyf_ref(e):
        if isinstance(e, ast.Attribute) and e.attr == keyf.name:
            return True
        return isinstance(e, ast.Name) and e.id == keyf.name

    if is_keyf_ref(k):
        return "natural"
    body = None
    param = None
    if isinstance(k, ast.Lambda):
        body, param = k.body, k.args.args[0].arg if k.args.args else None
    elif isinstance(k, ast.Name) and k.id in m.nested:
        f = m.nested[k.id]
        rets = [n for n in walk_shallow(f.node) if isinstance(n, ast.Return)]
        if len(rets) == 1:
            body, param = rets[0].value, (f.params() or [None])[0]
            # locals of the key function that merely name parts of the key are followed
            from ..util import resolve_local as _rl

            if isinstance(body, ast.Tuple):
                body = ast.Tuple(elts=[_rl(f, e) for e in body.elts], ctx=ast.Load())
            else:
                body = _rl(f, body)
    if body is None or param is None:
        raise AnalysisError(f"{m.short}: sort key '{norm(k)[:50]}' is neither the natural-key function, a lambda nor a local function with one return: form not understood")

    def is_nat(e):
        return isinstance(e, ast.Call) and is_keyf_ref(e.func) and len(e.args) == 1 and is_name(e.args[0], param)

    if is_nat(body):
        return "natural"
    if isinstance(body, ast.Tuple) and len(body.elts) == 2:
        a, b = body.elts
        if isinstance(a, ast.Attribute) and a.attr == "rank" and is_name(a.value, param) and is_nat(b):
            return "rank+natural"
        if is_nat(a):
            return f"'{norm(body)}' (name before rank)"
    return f"'{norm(body)}'"
