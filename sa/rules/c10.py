"""C10 — chromosome, unloc and haplotig names are unique and ranked by size (uniqueness and
ranking *structure*; statements about actual lengths are runtime facts and are not decided).

 R1 (assembly, name) determines the fused scaffold:  dest(s)==dest(t) ∧ name(s)==name(t) => fuse(s)==fuse(t)
 R2 counters: H_n incremented before every use and never reset; unloc counter reset only with the scaffold name
 R3 rename-by-size is a permutation of the same names, largest first, applied after lengths are final (haplotigs)
 R4 chromosome numbers are enumerate-index + 1 over the groups sorted by first-haplotype length, descending
"""

from __future__ import annotations

import ast

from ..fold import try_fold
from ..model import AnalysisError, Repo, dotted, is_name, norm, walk_shallow
from ..report import Ledger
from ..sym import Const, Fmt, Lin, State, Sym, SymExec, Tup, as_lin, NotNumeric
from ..util import end_pos, pos, kw
from .keys import asm_key, fuse_key, fuse_site, valuations

PROP = "C10"
LEVEL = "other"
EXPLANATION = (
    "Uniqueness is decided as a finite model check of the extracted fuse key against the destination key: two pieces that "
    "end in the same output assembly under the same name must be fused into ONE scaffold, otherwise the file contains two "
    "records with the same name. The generated-name counters are interpreted symbolically (incremented before use, no "
    "reset), the by-size renaming and the chromosome numbering are checked structurally (same list, length key, descending, "
    "enumerate index + 1, no filter). Ranking statements about actual lengths, ties, sort order of the output and CSV "
    "contents are runtime facts and are not decided."
)


def run(repo: Repo, L: Ledger, tier: str):
    L.rule("R1", "dest(s)==dest(t) ∧ name(s)==name(t) => fuse(s)==fuse(t)")
    L.rule("R2", "name counters incremented before use, never reset out of step")
    L.rule("R3", "rename_by_size: same names, sorted by length descending")
    L.rule("R4", "chromosome number == index + 1 over groups sorted by length descending")

    # ---- R1
    f, loop, var, key_expr, ctor, call = fuse_site(repo)
    vals = list(valuations())
    fk = [fuse_key(repo, v) for v in vals]
    ak = [asm_key(repo, v)[0] for v in vals]
    bad = None
    n = 0
    for i, s in enumerate(vals):
        for j, t in enumerate(vals):
            n += 1
            if ak[i] == ak[j] and s["name"] == t["name"] and fk[i] != fk[j] and bad is None:
                bad = (s, t, ak[i])
    if bad:
        s, t, dest = bad
        L.fail(
            "R1", f.short,
            f"fuse key '{norm(key_expr)}' keeps apart pieces that share a destination and a name: {s} and {t} both go to assembly {dest!r} as two scaffolds named {s['name']!r} — duplicate record names in one output file",
            f.loc(call), witness={"piece_1": s, "piece_2": t, "assembly": dest},
        )
    else:
        L.ok("R1", f.short, f"(destination, name) determines the fused scaffold on all {n} pairs", f.loc(call))
    L.extra["key_pairs"] = n

    # ---- R2 counters
    namer = repo.cls("ScaffoldNamer")
    ex = SymExec(repo)
    for meth, counter, prefix_parts in (("haplotig_name", "haplotig_n", 1), ("unloc_name", "unloc_n", 2)):
        m = namer.methods.get(meth)
        if m is None:
            raise AnalysisError(f"anchor ScaffoldNamer.{meth} vanished")
        st = State()
        st.heap[("self", counter)] = Lin.atom("n0")
        st.heap[("self", "current_scaffold_name")] = Sym("CUR")
        finals = ex.run_function(m, st, {m.params()[0]: Sym("self", namer)})
        ok, why = len(finals) == 1, f"{len(finals)} paths"
        if ok:
            r = finals[0]
            try:
                after = as_lin(r.heap[("self", counter)])
            except (KeyError, NotNumeric):
                after = None
            ok = after == Lin.atom("n0") + 1
            why = f"counter after the call is {after}, expected n0 + 1"
            if ok:
                used = [p.v for p in (r.ret.items if isinstance(r.ret, Tup) else []) if isinstance(p, Fmt)]
                nums = [u for u in used if isinstance(u, Lin)]
                ok = len(nums) == 1 and nums[0] == after
                why = f"generated name uses {nums}, not the incremented counter"
        L.check(ok, "R2", m.short, "counter incremented, then used in the name", why, m.loc())
    # stores to the counters
    for counter in ("haplotig_n", "unloc_n"):
        for name, m in namer.methods.items():
            for nnode in walk_shallow(m.node):
                tg = nnode.targets if isinstance(nnode, ast.Assign) else [nnode.target] if isinstance(nnode, ast.AugAssign) else []
                for t in tg:
                    if isinstance(t, ast.Attribute) and is_name(t.value, "self") and t.attr == counter:
                        inst = f"{m.short}:{counter}"
                        if isinstance(nnode, ast.AugAssign):
                            ok = isinstance(nnode.op, ast.Add) and try_fold(nnode.value, default=None) == 1 and name in ("haplotig_name", "unloc_name")
                            L.check(ok, "R2", inst, "+= 1 in the name generator", f"counter {counter} modified by '{norm(nnode)}' in {name}", m.loc(nnode))
                        else:
                            if name == "__init__":
                                L.ok("R2", inst, "initialised", m.loc(nnode))
                            elif counter == "unloc_n":
                                # reset allowed only where the current scaffold name is (re)assigned
                                sets_name = any(isinstance(x, ast.Assign) and any(isinstance(tt, ast.Attribute) and tt.attr == "current_scaffold_name" for tt in x.targets) for x in walk_shallow(m.node))
                                L.check(sets_name and try_fold(nnode.value, default=None) == 0, "R2", inst, "reset together with the current scaffold name", f"unloc counter reset in {name} without a new scaffold name: names <chr>_unloc_1.. repeat within one chromosome", m.loc(nnode))
                            else:
                                L.fail("R2", inst, f"haplotig counter reset by '{norm(nnode)}' in {name}: names H_1.. repeat", m.loc(nnode))

    # the per-chromosome unloc state is reset for EVERY Pretext scaffold (on every normal path)
    mk = namer.methods.get("make_scaffold_name")
    if mk is None:
        raise AnalysisError("anchor ScaffoldNamer.make_scaffold_name vanished")
    from ..flow import PathEnum

    okr, whyr, npaths = True, "", 0
    for p in PathEnum((0, 1), exc_edges=False).function_paths(mk.node):
        if p.status != "return":
            continue
        npaths += 1
        sets = {norm(e.node.targets[0]): norm(e.node.value) for e in p.events if e.kind == "stmt" and isinstance(e.node, ast.Assign) and isinstance(e.node.targets[0], ast.Attribute)}
        if sets.get("self.unloc_n") != "0" or sets.get("self.unloc_scaffolds") != "[]":
            okr, whyr = False, f"a path through make_scaffold_name keeps the previous scaffold's unloc counter/list ({p.describe(6)}): unlocs of the next Pretext scaffold continue the numbering (…_unloc_3, _4 instead of _1, _2) and are ranked by size together with the previous chromosome's"
            break
    L.check(okr and npaths > 0, "R2", mk.short + ":unloc-reset", f"unloc counter and list reset on all {npaths} normal paths", whyr, mk.loc())

    # ---- R3 rename_by_size
    rbs = namer.methods.get("rename_by_size")
    if rbs is None:
        raise AnalysisError("anchor ScaffoldNamer.rename_by_size vanished")
    lp = rbs.params()[1]
    srt = [c for c in walk_shallow(rbs.node) if isinstance(c, ast.Call) and dotted(c.func) == "sorted"]
    ok3, why3 = len(srt) == 1, "no single sorted() call"
    if ok3:
        c = srt[0]
        ok3 = bool(c.args) and is_name(c.args[0], lp)
        why3 = "sorted() is not applied to the scaffold list itself"
        k = kw(c, "key")
        rev = kw(c, "reverse")
        if ok3:
            key_attr = None
            if isinstance(k, ast.Lambda) and isinstance(k.body, ast.Attribute) and is_name(k.body.value, k.args.args[0].arg):
                key_attr = k.body.attr
            elif isinstance(k, ast.Call) and (dotted(k.func) or "").split(".")[-1] == "attrgetter" and len(k.args) == 1 and isinstance(k.args[0], ast.Constant):
                key_attr = k.args[0].value
            elif isinstance(k, ast.Name) and k.id in rbs.module.assigns and isinstance(rbs.module.assigns[k.id], ast.Call) and (dotted(rbs.module.assigns[k.id].func) or "").split(".")[-1] == "attrgetter":
                key_attr = rbs.module.assigns[k.id].args[0].value if rbs.module.assigns[k.id].args and isinstance(rbs.module.assigns[k.id].args[0], ast.Constant) else None
            elif k is not None and not isinstance(k, ast.Lambda):
                raise AnalysisError(f"{rbs.short}: sort key '{norm(k)[:50]}' is not a lambda or attrgetter: not understood")
            ok3 = key_attr in ("length", "fragments_length")
            why3 = f"sort key is '{norm(k) if k is not None else None}', expected the scaffold's length"
        if ok3:
            ok3 = rev is not None and try_fold(rev, default=None) is True
            why3 = "not sorted largest first (reverse=True missing): H_1 / unloc_1 would be the smallest"
    L.check(ok3, "R3", rbs.short + ":sort", "sorted(scaffolds, key=length, reverse=True)", why3, rbs.loc())
    def _as_comp(v):
        if isinstance(v, ast.ListComp):
            return v
        if isinstance(v, ast.Call) and dotted(v.func) in ("list", "tuple") and len(v.args) == 1 and isinstance(v.args[0], ast.GeneratorExp | ast.ListComp):
            return v.args[0]
        return None

    names_def = [n for n in walk_shallow(rbs.node) if isinstance(n, ast.Assign) and _as_comp(n.value) is not None]
    ok3b = False
    if len(names_def) == 1:
        g = _as_comp(names_def[0].value)
        ok3b = len(g.generators) == 1 and not g.generators[0].ifs and is_name(g.generators[0].iter, lp) and isinstance(g.elt, ast.Attribute) and g.elt.attr == "name"
    L.check(ok3b, "R3", rbs.short + ":names", "names taken from every scaffold of the same list, in creation order", "names are not collected from all scaffolds of the list", rbs.loc())
    loops = [n for n in walk_shallow(rbs.node) if isinstance(n, ast.For)]
    ok3c = False
    if len(loops) == 1 and isinstance(loops[0].iter, ast.Call) and dotted(loops[0].iter.func) == "zip":
        z = loops[0].iter
        a0 = z.args[0] if z.args else None
        a1 = z.args[1] if len(z.args) > 1 else None
        sorted_var = None
        for n in walk_shallow(rbs.node):
            if isinstance(n, ast.Assign) and n.value in srt:
                sorted_var = n.targets[0].id
        names_var = names_def[0].targets[0].id if names_def else None
        body = loops[0].body
        roles_ok = (is_name(a0, sorted_var) or any(a0 is s_ for s_ in srt)) and is_name(a1, names_var)
        if not roles_ok:
            raise AnalysisError(f"{rbs.short}: zip({norm(a0)[:30] if a0 is not None else None}, {norm(a1)[:30] if a1 is not None else None}) does not pair the size-sorted scaffolds with the list of their names in a form understood")
        if roles_ok and isinstance(loops[0].target, ast.Tuple) and len(loops[0].target.elts) == 2:
            tv, nv = (e.id for e in loops[0].target.elts)
            # exactly one store of a name in the loop, unconditional, and nothing that skips or stops an iteration; other
            # statements (counters, logging) do not matter
            name_stores = [x for x in walk_shallow(loops[0]) if isinstance(x, ast.Assign | ast.AugAssign) and any(isinstance(t, ast.Attribute) and t.attr == "name" for t in (x.targets if isinstance(x, ast.Assign) else [x.target]))]
            jumps = [x for x in walk_shallow(loops[0]) if isinstance(x, ast.Continue | ast.Break | ast.Return)]
            ok3c = len(name_stores) == 1 and any(name_stores[0] is b_ for b_ in body) and norm(name_stores[0]) == f"{tv}.name = {nv}" and not jumps
    if not ok3c and len(loops) == 1 and isinstance(loops[0].iter, ast.Call) and dotted(loops[0].iter.func) == "enumerate" and names_def:
        # for i, s in enumerate(by_size): s.name = names[i]
        it = loops[0].iter
        sorted_var = next((n.targets[0].id for n in walk_shallow(rbs.node) if isinstance(n, ast.Assign) and n.value in srt), None)
        start0 = len(it.args) == 1 and not it.keywords
        body = loops[0].body
        if not (it.args and (is_name(it.args[0], sorted_var) or any(it.args[0] is s_ for s_ in srt))):
            raise AnalysisError(f"{rbs.short}: enumerate({norm(it.args[0])[:40] if it.args else ''}) does not run over the size-sorted scaffolds in a form understood")
        if it.args and start0 and isinstance(loops[0].target, ast.Tuple) and len(body) == 1 and isinstance(body[0], ast.Assign):
            iv_, tv = (e.id for e in loops[0].target.elts)
            ok3c = norm(body[0]).replace(" ", "") == f"{tv}.name={names_def[0].targets[0].id}[{iv_}]"
    if not ok3c and not (len(loops) == 1 and isinstance(loops[0].iter, ast.Call) and dotted(loops[0].iter.func) in ("zip", "enumerate")):
        raise AnalysisError(f"{rbs.short}: how the names are handed out along the size order is not understood (neither zip(sorted, names) nor enumerate(sorted) with names[i])")
    L.check(ok3c, "R3", rbs.short + ":assign", "k-th largest scaffold receives the k-th name (a permutation of the same names)", "names are not handed out along the size order", rbs.loc())
    # haplotig renaming happens after the lengths are final
    ba = repo.cls("BuildAssembly")
    remap = ba.methods.get("remap_to_input_assembly")
    if remap is None:
        raise AnalysisError("anchor BuildAssembly.remap_to_input_assembly vanished")
    order = [c.func.attr for c in repo.calls_in(remap) if isinstance(c.func, ast.Attribute)]
    need = ["discard_overhanging_fragments", "cut_remaining_overhangs", "rename_haplotigs_by_size"]
    pos_ = [order.index(x) if x in order else -1 for x in need]
    L.check(all(p >= 0 for p in pos_) and pos_ == sorted(pos_), "R3", remap.short + ":order", "haplotigs renamed by size after discards and cuts", f"haplotigs are renamed by size before their lengths are final (call order {order})", remap.loc())

    # ---- R4 chromosome numbering
    cn = repo.cls("ChrNamer")
    nc = cn.methods.get("name_chromosomes")
    if nc is None:
        raise AnalysisError("anchor ChrNamer.name_chromosomes vanished")
    sorts = [c for c in walk_shallow(nc.node) if isinstance(c, ast.Call) and isinstance(c.func, ast.Attribute) and c.func.attr == "sort" and norm(c.func.value) == "self.groups"]
    ok4, why4 = len(sorts) == 1, "groups are not sorted in place before numbering"
    if ok4:
        k, rev = kw(sorts[0], "key"), kw(sorts[0], "reverse")
        ok4 = k is not None and "length_of_first_haplotype" in norm(k)
        why4 = f"groups sorted by '{norm(k) if k is not None else None}', not by the first haplotype's length"
        if ok4:
            ok4 = rev is not None and try_fold(rev, default=None) is True
            why4 = "groups not sorted largest first: chromosome 1 would be the smallest"
    L.check(ok4, "R4", nc.short + ":sort", "groups.sort(key=first-haplotype length, reverse=True)", why4, nc.loc())
    loops = [n for n in walk_shallow(nc.node) if isinstance(n, ast.For)]
    ok4b, why4b = False, "numbering loop not found"
    for lp_ in loops:
        it = lp_.iter
        if isinstance(it, ast.Call) and dotted(it.func) == "enumerate" and norm(it.args[0]) == "self.groups":
            start = try_fold(it.args[1], default="?") if len(it.args) > 1 else try_fold(kw(it, "start"), default="?") if kw(it, "start") is not None else 0
            iv, gv = (e.id for e in lp_.target.elts)
            calls = [c for c in walk_shallow(lp_) if isinstance(c, ast.Call) and isinstance(c.func, ast.Attribute) and c.func.attr == "name_chromosome" and is_name(c.func.value, gv)]
            if len(calls) == 1 and len(lp_.body) == 1:
                num = calls[0].args[1] if len(calls[0].args) > 1 else None
                v = try_fold(num, env={iv: 0}, default=None) if num is not None else None
                v2 = try_fold(num, env={iv: 4}, default=None) if num is not None else None
                ok4b = isinstance(start, int) and v is not None and v + start == 1 and v2 + start == 5
                why4b = f"chromosome numbers start at {None if v is None else v + start} (expected 1, 2, 3 … without holes)"
            if sorts and pos(lp_) < pos(sorts[0]):
                ok4b, why4b = False, "numbering happens before the groups are sorted"
    L.check(ok4b, "R4", nc.short + ":number", "chromosome n = index + 1 for every group", why4b, nc.loc())
    _first_haplotype(repo, L)
    _unloc_flush(repo, L)
    _prefix_copies(repo, L)
    _small_rules(repo, L)


def _unloc_summary(repo, namer, meth, depth=0, _memo=None):
    """Effect of a ScaffoldNamer method on the pending-unloc list, as an ordered list of (event, must) with
    event in {'flush','reset','label'}.  Raises AnalysisError for any use of the list outside the recognised forms."""
    _memo = {} if _memo is None else _memo
    if meth.short in _memo:
        return _memo[meth.short]
    if depth > 3:
        raise AnalysisError(f"{meth.short}: unloc effects nested too deep")
    out = []
    has_return_before = []

    def visit(stmts, must):
        for st in stmts:
            if isinstance(st, ast.FunctionDef | ast.AsyncFunctionDef | ast.ClassDef):
                continue
            if isinstance(st, ast.If | ast.For | ast.While | ast.With | ast.Try):
                # the header expression may itself contain calls
                hdr = st.test if isinstance(st, ast.If | ast.While) else st.iter if isinstance(st, ast.For) else None
                if hdr is not None:
                    leaf(hdr, must)
                for blk in ("body", "orelse", "finalbody"):
                    visit(getattr(st, blk, []) or [], must and isinstance(st, ast.With))
                for h in getattr(st, "handlers", []) or []:
                    visit(h.body, False)
                continue
            if isinstance(st, ast.Return):
                has_return_before.append(len(out))
                if st.value is not None:
                    leaf(st.value, must)
                continue
            leaf(st, must)

    def leaf(node, must):
        must = must and not has_return_before
        # assignment to the list
        if isinstance(node, ast.Assign | ast.AnnAssign | ast.AugAssign):
            tgts = node.targets if isinstance(node, ast.Assign) else [node.target]
            if any(norm(t) == "self.unloc_scaffolds" for t in tgts):
                v = getattr(node, "value", None)
                if isinstance(node, ast.AugAssign) or not (isinstance(v, ast.List) and not v.elts or isinstance(v, ast.Call) and dotted(v.func) == "list" and not v.args):
                    raise AnalysisError(f"{meth.short}: pending-unloc list assigned '{norm(node)[:60]}': form not understood")
                out.append(("reset", must))
                return
        for c in sorted([x for x in [node, *walk_shallow(node)] if isinstance(x, ast.Call)], key=lambda x: (x.end_lineno, x.end_col_offset)):
            if isinstance(c.func, ast.Attribute) and norm(c.func.value) == "self.unloc_scaffolds":
                if c.func.attr == "append":
                    out.append(("label", must))
                elif c.func.attr == "clear":
                    out.append(("reset", must))
                else:
                    raise AnalysisError(f"{meth.short}: pending-unloc list used as '{norm(c)[:60]}': form not understood")
                continue
            passes = any(norm(a) == "self.unloc_scaffolds" for a in [*c.args, *[k.value for k in c.keywords]])
            if isinstance(c.func, ast.Attribute) and is_name(c.func.value, "self") and c.func.attr in namer.methods:
                callee = namer.methods[c.func.attr]
                if passes:
                    if c.func.attr != "rename_by_size":
                        raise AnalysisError(f"{meth.short}: pending-unloc list handed to '{c.func.attr}': form not understood")
                    out.append(("flush", must))
                elif callee is not meth:
                    for ev, m2 in _unloc_summary(repo, namer, callee, depth + 1, _memo):
                        out.append((ev, must and m2))
            elif passes:
                raise AnalysisError(f"{meth.short}: pending-unloc list handed to '{norm(c.func)}': form not understood")
        # any other mention
        mentions = [x for x in [node, *ast.walk(node)] if isinstance(x, ast.Attribute) and x.attr == "unloc_scaffolds"]
        handled = 0
        for x in mentions:
            par = getattr(x, "_parent", None)
            if isinstance(par, ast.Attribute) and par.attr in ("append", "clear"):
                handled += 1
            elif isinstance(par, ast.Call) and x in par.args:
                handled += 1
            elif isinstance(par, ast.Assign | ast.AnnAssign) and isinstance(x.ctx, ast.Store):
                handled += 1
        if handled != len(mentions):
            raise AnalysisError(f"{meth.short}: pending-unloc list used in '{norm(node)[:60]}': form not understood")

    _memo[meth.short] = []  # recursion guard
    visit(meth.node.body, True)
    _memo[meth.short] = out
    return out


def _unloc_flush(repo, L):
    """R5: the unlocs of every Pretext scaffold — including the last one — are renumbered by size after all of its pieces were
    labelled and trimmed, on their own.  Decided as a typestate over the namer's pending-unloc list along every path of the
    remapping entry point (two iterations of the scaffold loop): label / trim make the current scaffold's unlocs *unsettled*,
    a flush settles what is in the list, a reset empties it."""
    from ..flow import PathEnum

    L.rule("R5", "unlocs renumbered by size once per Pretext scaffold, after its pieces are labelled")
    ba = repo.cls("BuildAssembly")
    namer = repo.cls("ScaffoldNamer")
    fao = ba.methods.get("find_assembly_overlaps")
    entry = ba.methods.get("remap_to_input_assembly")
    if fao is None or entry is None:
        raise AnalysisError("anchor BuildAssembly.find_assembly_overlaps / remap_to_input_assembly vanished")
    memo = {}
    summ = {nm: _unloc_summary(repo, namer, m, 0, memo) for nm, m in namer.methods.items()}
    if not any(ev == "flush" for evs in summ.values() for ev, _ in evs) or not any(ev == "label" for evs in summ.values() for ev, _ in evs):
        raise AnalysisError("ScaffoldNamer: no method renumbers / fills the pending-unloc list: form not understood")
    for nm, evs in summ.items():
        for ev, must in evs:
            if ev in ("flush", "reset") and not must:
                raise AnalysisError(f"ScaffoldNamer.{nm}: the pending-unloc list is {ev}ed only on some paths: form not understood")

    def scaffold_loop(fn):
        return [n for n in walk_shallow(fn.node) if isinstance(n, ast.For) and norm(n.iter).endswith(".scaffolds") and any(isinstance(c, ast.Call) and isinstance(c.func, ast.Attribute) and c.func.attr in namer.methods and summ[c.func.attr] for c in ast.walk(n))]

    def prim_events(fn, depth=0):
        """list of primitive event sequences, one per path of fn (callees of BuildAssembly that reach the namer are spliced)"""
        loops = scaffold_loop(fn)
        pe = PathEnum((0, 1), exc_edges=False, per_loop=lambda lp: (0, 1, 2) if lp in loops else None)
        seqs = []
        for p in pe.function_paths(fn.node):
            if p.status == "raise":
                continue
            cur = [[]]
            for e in p.events:
                if e.kind == "iter" and e.val[0] == "next" and e.node in loops:
                    for sq in cur:
                        sq.append("begin")
                    continue
                roots = []
                if e.kind in ("stmt", "cond", "return"):
                    roots = [e.node]
                elif e.kind == "iter" and e.val in (("next", 0), ("done", 0)):
                    roots = [e.node.iter]
                for root in roots:
                    if root is None:
                        continue
                    calls = sorted([x for x in [root, *walk_shallow(root)] if isinstance(x, ast.Call) and isinstance(x.func, ast.Attribute)], key=lambda x: (x.end_lineno, x.end_col_offset))
                    for c in calls:
                        at = c.func.attr
                        recv = norm(c.func.value)
                        if at in namer.methods and ("namer" in recv or recv == "self.scaffold_namer"):
                            for ev, must in summ[at]:
                                if ev == "label":  # may add: both outcomes
                                    cur = (cur + [sq + ["label"] for sq in cur]) if not must else [sq + ["label"] for sq in cur]
                                    cur = [list(k) for k in {tuple(sq) for sq in cur}]
                                else:
                                    for sq in cur:
                                        sq.append(ev)
                        elif at == "trim_large_overhangs":
                            for sq in cur:
                                sq.append("touch")
                        elif recv == "self" and at in ba.methods and ba.methods[at] is not fn and depth < 2 and _reaches_namer(ba.methods[at]):
                            sub = prim_events(ba.methods[at], depth + 1)
                            cur = [list(k) for k in {tuple(sq + t) for sq in cur for t in sub}]
                            if len(cur) > 20000:
                                raise AnalysisError("unloc typestate: too many traces")
            seqs.extend(cur)
        return [list(k) for k in {tuple(sq) for sq in seqs}]

    def _reaches_namer(fn):
        return any(isinstance(c, ast.Call) and isinstance(c.func, ast.Attribute) and c.func.attr in namer.methods and summ[c.func.attr] for c in ast.walk(fn.node))

    if not scaffold_loop(fao):
        raise AnalysisError(f"{fao.short}: loop over the Pretext scaffolds that drives the namer not found")
    traces = prim_events(entry)
    if not any("begin" in t for t in traces):
        raise AnalysisError(f"{entry.short}: the scaffold loop is not reached from the remapping entry point")
    bad = None
    seen = set()
    for t in traces:
        key = tuple(t)
        if key in seen:
            continue
        seen.add(key)
        lst, unsettled = set(), set()
        why = None
        for ev in t:
            if ev == "begin":
                lst = {"prev" if x == "cur" else x for x in lst}
                unsettled = {"prev" if x == "cur" else x for x in unsettled}
            elif ev == "label":
                lst.add("cur")
                unsettled.add("cur")
            elif ev == "touch":
                if "cur" in lst:
                    unsettled.add("cur")
            elif ev == "flush":
                if "prev" in lst and "cur" in lst:
                    why = "the unlocs of two different Pretext scaffolds are renumbered by size together (the pending list is not emptied between scaffolds)"
                    break
                unsettled -= lst
            elif ev == "reset":
                if unsettled & lst:
                    why = "the pending unlocs of a Pretext scaffold are dropped before they were renumbered by size"
                    break
                lst = set()
        if why is None and unsettled:
            why = "the unlocs of a Pretext scaffold are not renumbered by size after its pieces were labelled and trimmed — for the last scaffold of the map they never are (…_unloc_1 smaller than …_unloc_2)"
        if why:
            bad = (why, t)
            break
    L.check(
        bad is None, "R5", fao.short + ":unloc-flush", f"pending-unloc typestate holds on {len(seen)} distinct event traces of {entry.short} (2 scaffold iterations)",
        (bad[0] + f" [trace: {' '.join(bad[1])}]") if bad else "", fao.loc(), witness={"map": "the last Pretext scaffold is a painted chromosome with two Unloc pieces, smaller one first"},
    )


def _prefix_copies(repo, L):
    """R6: a long-lived object that is built from the autosome prefix is updated when the prefix is set (or built at use time)."""
    L.rule("R6", "every stored copy of the autosome prefix follows the setter")
    ba = repo.cls("BuildAssembly")
    setter = ba.methods.get("autosome_prefix.setter")
    if setter is None:
        raise AnalysisError("anchor BuildAssembly.autosome_prefix setter vanished")
    updated = set()
    for n in walk_shallow(setter.node):
        if isinstance(n, ast.Assign):
            for t in n.targets:
                if isinstance(t, ast.Attribute) and isinstance(t.value, ast.Attribute) and is_name(t.value.value, "self"):
                    updated.add(t.value.attr)
    n_c = 0
    for m in ba.methods.values():
        for n in walk_shallow(m.node):
            if isinstance(n, ast.Assign) and len(n.targets) == 1 and isinstance(n.targets[0], ast.Attribute) and is_name(n.targets[0].value, "self") and isinstance(n.value, ast.Call):
                uses_prefix = any(isinstance(x, ast.Attribute) and x.attr == "autosome_prefix" and is_name(x.value, "self") for a in [*n.value.args, *[k.value for k in n.value.keywords]] for x in ast.walk(a))
                if uses_prefix:
                    n_c += 1
                    attr = n.targets[0].attr
                    L.check(
                        attr in updated, "R6", f"{m.short}:self.{attr}", "kept in step by the autosome_prefix setter",
                        f"self.{attr} is built from the autosome prefix at that moment and kept; the autosome_prefix setter updates only {sorted(updated)}: with --autosome-prefix the chromosomes are still named with the old prefix",
                        m.loc(n), witness={"option": "--autosome-prefix chr"},
                    )
    L.ok("R6", "prefix copies", f"{n_c} stored object(s) built from the prefix; setter updates {sorted(updated)}", ba.module.relpath)


def _first_haplotype(repo, L):
    """The first haplotype *seen in the map* decides the ranking: insertion orders are kept."""
    cg = repo.cls("ChrGroup")
    cn = repo.cls("ChrNamer")
    init = cg.methods.get("__init__")
    hp = init.params()[1]
    loops = [n for n in walk_shallow(init.node) if isinstance(n, ast.For)]
    comps = [n.value for n in walk_shallow(init.node) if isinstance(n, ast.Assign) and isinstance(n.value, ast.DictComp) and any(norm(t) == "self.data" for t in n.targets)]
    if len(loops) == 1 and not comps:
        it = loops[0].iter
        ok = is_name(it, hp) and len(loops[0].body) == 1 and isinstance(loops[0].body[0], ast.Assign)
    elif len(comps) == 1 and not loops and len(comps[0].generators) == 1:
        g = comps[0].generators[0]
        it = g.iter
        ok = is_name(it, hp) and not g.ifs and isinstance(g.target, ast.Name) and is_name(comps[0].key, g.target.id)
    else:
        raise AnalysisError("ChrGroup.__init__: how the per-haplotype table is filled is not understood (neither one loop nor one dict comprehension)")
    L.check(ok, "R4", "ChrGroup.__init__", "per-haplotype table filled in the order the haplotypes were first seen", f"ChrGroup orders its haplotypes by '{norm(it)}', not in first-seen order: chromosome numbers follow another haplotype's sizes", init.loc())
    lf = cg.methods.get("length_of_first_haplotype")
    ok2 = lf is not None and any(isinstance(n, ast.Assign) and isinstance(n.targets[0], ast.Tuple) and norm(n.value) == "self.data.values()" and isinstance(n.targets[0].elts[0], ast.Name) and len(n.targets[0].elts) == 2 and isinstance(n.targets[0].elts[1], ast.Starred) for n in walk_shallow(lf.node))
    L.check(ok2, "R4", "ChrGroup.length_of_first_haplotype", "takes the first haplotype's scaffolds", "length_of_first_haplotype does not take the first entry of the per-haplotype table", lf.loc() if lf else "")
    ng = cn.methods.get("new_group")
    ok3 = ng is not None and any(isinstance(c, ast.Call) and dotted(c.func) == "ChrGroup" and c.args and norm(c.args[0]) == "self.haplotypes_seen" for c in walk_shallow(ng.node))
    add = cn.methods.get("add_scaffold")
    ok3 = ok3 and add is not None and any(isinstance(n, ast.Assign) and norm(n.targets[0]).startswith("self.haplotypes_seen[") for n in walk_shallow(add.node))
    hs_init = [n for n in walk_shallow(cn.methods["__init__"].node) if isinstance(n, ast.Assign) and norm(n.targets[0]) == "self.haplotypes_seen"]
    ok3 = ok3 and len(hs_init) == 1 and isinstance(hs_init[0].value, ast.Dict)
    L.check(ok3, "R4", "ChrNamer.haplotypes_seen", "haplotypes recorded in a dict (insertion order) and handed to every group", "haplotypes are not recorded in first-seen order (dict) / not handed to ChrGroup unchanged", cn.module.relpath)


def _small_rules(repo, L):
    """R7 the chromosome namer is built with the configured prefix; R8 the chromosome-list CSV loop visits every assembly;
    R9 the name-tag pattern classifies the documented examples."""
    from ..fold import try_fold
    from ..util import arg_for_param

    L.rule("R7", "every ChrNamer is constructed with the builder's configured autosome prefix")
    cn = repo.cls("ChrNamer")
    init = cn.methods.get("__init__")
    if init is None or len(init.params()) < 2:
        raise AnalysisError("anchor ChrNamer.__init__(chr_prefix) vanished")
    pname = init.params()[1]
    n_sites = 0
    for f in repo.functions.values():
        for c in repo.calls_in(f):
            if dotted(c.func) == "ChrNamer":
                n_sites += 1
                a = arg_for_param(c, init, pname, bound_self=True)
                if a is None:
                    L.fail("R7", f"{f.short}:ChrNamer()", f"ChrNamer is constructed without '{pname}': its default {norm(init.node.args.defaults[-1]) if init.node.args.defaults else '?'} names the chromosomes whatever --autosome-prefix says (SUPER_1 instead of <prefix>1, and the same for unlocs and the CSV)", f.loc(c), witness={"option": "-c chr"})
                else:
                    ok = "autosome_prefix" in norm(a) or "chr_prefix" in norm(a)
                    L.check(ok, "R7", f"{f.short}:ChrNamer()", "prefix argument is the configured autosome prefix", f"ChrNamer is given '{norm(a)}' as prefix, not the configured autosome prefix", f.loc(c))
    if n_sites == 0:
        raise AnalysisError("no ChrNamer construction site found")

    L.rule("R8", "the chromosome-list CSV loop visits every output assembly")
    wc = repo.try_func("write_chr_csv_files", "pretext_to_asm")
    if wc is None:
        raise AnalysisError("anchor pretext_to_asm.write_chr_csv_files vanished")
    loops = [n for n in wc.node.body if isinstance(n, ast.For)]
    if len(loops) != 1:
        raise AnalysisError("write_chr_csv_files: loop over the output assemblies not found")
    early = [x for x in walk_shallow(loops[0]) if isinstance(x, ast.Break | ast.Return)]
    L.check(not early, "R8", wc.short, "no break/return inside the loop over the assemblies", f"the loop over the output assemblies is left by '{norm(early[0]) if early else ''}': curated assemblies listed after a non-curated one (e.g. the contaminants) get no chromosome-list CSV", wc.loc(early[0]) if early else wc.loc())

    L.rule("R10", "chromosomes are ranked by sequence length (gaps not counted)")
    cg = repo.cls("ChrGroup")
    lf = cg.methods.get("length_of_first_haplotype")
    if lf is None:
        raise AnalysisError("anchor ChrGroup.length_of_first_haplotype vanished")
    attrs = [n.attr for n in walk_shallow(lf.node) if isinstance(n, ast.Attribute) and n.attr in ("length", "fragments_length", "gaps_length")]
    over_frags = [g for g in walk_shallow(lf.node) if isinstance(g, ast.GeneratorExp | ast.ListComp) and len(g.generators) == 1 and isinstance(g.generators[0].iter, ast.Call) and isinstance(g.generators[0].iter.func, ast.Attribute) and g.generators[0].iter.func.attr == "fragments" and not g.generators[0].ifs and isinstance(g.generators[0].target, ast.Name) and norm(g.elt) == f"{g.generators[0].target.id}.length"]
    if over_frags and set(attrs) <= {"length"} and len(attrs) == len(over_frags):
        L.ok("R10", lf.short, "size of a chromosome group = Σ length over fragments() of the first haplotype's scaffolds", lf.loc())
    elif "fragments_length" in attrs and "length" not in attrs:
        L.ok("R10", lf.short, "size of a chromosome group = Σ fragments_length of the first haplotype's scaffolds", lf.loc())
    elif attrs and set(attrs) <= {"length"} and not any(isinstance(n, ast.Call) and isinstance(n.func, ast.Attribute) and n.func.attr == "fragments" for n in walk_shallow(lf.node)):
        L.fail("R10", lf.short, "the size that ranks the chromosomes sums scaffold.length, which counts gap rows: a gap-rich scaffold outranks one with more sequence, so the numbering is not in non-increasing order of sequence length", lf.loc(), witness={"scaffolds": "A: 900 bp sequence + 50 bp gaps, B: 600 bp sequence + 500 bp gaps"})
    else:
        raise AnalysisError(f"{lf.short}: the size measure ({sorted(set(attrs))}) is not a form understood")

    L.rule("R9", "the chromosome-name tag pattern accepts the documented kinds of name tag and nothing that is a haplotype or routing tag")
    namer = repo.cls("ScaffoldNamer")
    mk = namer.methods.get("make_scaffold_name")
    pats = []
    for f in [mk, *[m for m in repo.functions.values() if m.module is mk.module and m.cls is None]]:
        for c in walk_shallow(f.node):
            if isinstance(c, ast.Call) and (dotted(c.func) or "") in ("re.fullmatch", "re.match") and len(c.args) == 2:
                pat = try_fold(c.args[0], default=None)
                if isinstance(pat, str) and "IVX" in pat:
                    pats.append((f, c, pat, dotted(c.func)))
    if len({(p_[2], p_[3]) for p_ in pats}) != 1:
        raise AnalysisError(f"make_scaffold_name: the chromosome-name tag pattern was not found as one constant regex ({len(pats)} candidates)")
    f, c, pat, how = pats[0]
    import re as _re

    try:
        rx = _re.compile(pat)
    except _re.error as e:
        raise AnalysisError(f"name-tag pattern does not compile: {e}") from e
    match = rx.fullmatch if how == "re.fullmatch" else (lambda s_: (m_ := rx.match(s_)) and m_.end() == len(s_) and m_)
    accept = ["X", "Y", "Z", "W", "B", "X1", "X2", "Z1", "B12", "A123", "I", "II", "III", "IV", "V", "X_X", "I_II", "2RL", "3R", "12AB"]
    reject = ["Hap1", "hap2", "HAP1", "Target", "Primary", "Painted", "Contaminant", "Haplotig", "Unloc", "FalseDuplicate", "Singleton", "x", "12", "", "X-1", "chrX"]
    bad_a = [t for t in accept if not match(t)]
    bad_r = [t for t in reject if match(t)]
    L.check(
        not bad_a and not bad_r, "R9", f"{f.short}:name-tag-pattern", f"{len(accept)} name tags accepted, {len(reject)} other tags rejected (pattern {pat!r})",
        (f"the tag pattern {pat!r} does not recognise {bad_a[:3]} as chromosome names: such a tag is then taken for a haplotype, the scaffold is not named <prefix><tag> and lands in a spurious assembly" if bad_a else f"the tag pattern {pat!r} takes {bad_r[:3]} for chromosome names"),
        f.loc(c), witness={"tags": (bad_a or bad_r)[:3]},
    )
