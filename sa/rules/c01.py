"""C01 — remapping conserves sequence (conservation skeleton + QC guard).

The partition property as a whole depends on trim arithmetic; the code's own argument for it is a
skeleton of disciplines plus one runtime guard (the cut QC) that turns an arithmetic slip into an
error, which the property allows.  Decided here:

 R1 recorded <=> kept: a lookup result is added to the build exactly when its contigs are recorded;
    the recorder visits every fragment, keys it by (name, start, end) and registers the owner
 R2 typestate "nothing is removed unless someone else still owns it": row removal only (i) before a
    result is recorded, (ii) through premises applied under a guard implying >= 2 owners
 R3 bookkeeping: every applied premise is returned; its scaffold is removed from the owner list; a contig
    leaves the shared map only when <= 1 owner is left; every still-shared contig is cut
 R4 the cut QC is total and essential: every piece reaches it, it raises whenever the pieces' lengths do
    not sum to the contig's or two pieces overlap
 R5 re-add completeness: every contig no lookup returned is re-added (same key as the recorder)
 R6 fusing loses nothing: each non-empty build scaffold is appended once; every fused scaffold lands in
    exactly one output assembly
 R7 no invention: remapping constructs fragments only in the cut
"""

from __future__ import annotations

import ast

from ..flow import PathEnum, cond_facts
from ..fold import try_fold
from ..model import AnalysisError, Func, Repo, dotted, is_name, norm, walk_shallow
from ..report import Ledger
from ..util import end_pos, pos, ancestors, contains, local_defs, names_in, path_calls, paths

PROP = "C01"
LEVEL = "other"
EXPLANATION = (
    "Conservation is decided as a set of who-may-call / must-pass-through / typestate facts over BuildAssembly and its helpers: "
    "on every path a lookup result is kept iff its contigs are recorded; rows are removed from an overlap result only before it "
    "is recorded or through a premise whose application is control-dependent on a >= 2 owners guard, after which the owner "
    "list is updated and the contig leaves the shared map only with <= 1 owner; every contig still shared is cut and every piece "
    "flows into the QC, whose raise is reached whenever the piece lengths do not sum to the contig's length or two pieces "
    "overlap (with pieces being sub-intervals by construction — C18.R2 — these two tests are sufficient for an exact tiling); "
    "contigs no lookup returned are re-added under the same key; fusing and splitting into assemblies drop nothing. The suite "
    "never makes the QC fire, so a weakened QC passes all 64 tests. Trim arithmetic itself is guarded at run time by the QC."
)


def resolve_local(func, e, depth=0):
    """follow single-definition locals (and walrus) to the defining expression"""
    from ..util import single_def

    if isinstance(e, ast.NamedExpr):
        return e.value
    while isinstance(e, ast.Name) and depth < 5:
        d = single_def(func, e.id)
        if d is None:
            break
        e, depth = d, depth + 1
    return e


def _calls(node, pred):
    return [c for c in [node, *walk_shallow(node)] if isinstance(c, ast.Call) and pred(c)]


def _mcall(attr, recv=None):
    def pred(c):
        return isinstance(c.func, ast.Attribute) and c.func.attr == attr and (recv is None or norm(c.func.value) == recv)

    return pred


def run(repo: Repo, L: Ledger, tier: str):
    for rid, txt in {
        "R1": "kept <=> recorded; recorder complete", "R2": "row removal only before recording or under a >= 2 owners guard",
        "R3": "applied premises returned; owner lists and shared map updated; all still-shared contigs cut",
        "R4": "every piece reaches the QC; QC raises on length mismatch or overlap", "R5": "unseen contigs re-added under the recorder's key",
        "R6": "fuse/split drops nothing", "R7": "fragments constructed only in the cut",
    }.items():
        L.rule(rid, txt)

    ba = repo.cls("BuildAssembly")
    ovr = repo.cls("OverlapResult")
    need = ["find_assembly_overlaps", "store_fragments_found", "discard_overhanging_fragments", "cut_remaining_overhangs", "cut_fragments", "qc_sub_fragments", "add_missing_scaffolds_from_input", "scaffolds_fused_by_name", "assemblies_with_scaffolds_fused", "remap_to_input_assembly"]
    m = {n: ba.methods.get(n) for n in need}
    missing = [n for n, f in m.items() if f is None]
    if missing:
        raise AnalysisError(f"anchors BuildAssembly.{missing} vanished")

    _r1(repo, L, m, ba)
    removers = _r2(repo, L, m, ba, ovr)
    _r3(repo, L, m, ba)
    _r4(repo, L, m, ba)
    _r5(repo, L, m, ba)
    _r6(repo, L, m, ba)
    _r7(repo, L)
    # the phases run in the order the argument needs
    remap = m["remap_to_input_assembly"]
    order = [c.func.attr for c in repo.calls_in(remap) if isinstance(c.func, ast.Attribute) and is_name(c.func.value, "self")]
    want = ["find_assembly_overlaps", "discard_overhanging_fragments", "cut_remaining_overhangs", "add_missing_scaffolds_from_input"]
    pos = [order.index(w) if w in order else -1 for w in want]
    L.check(all(p >= 0 for p in pos) and pos == sorted(pos), "R3", remap.short + ":phases", "lookup → resolve shared → cut shared → re-add unseen", f"remapping phases run as {order}; a phase is missing or out of order", remap.loc())
    # every phase unconditional
    for w in want:
        cs = [c for c in repo.calls_in(remap) if isinstance(c.func, ast.Attribute) and c.func.attr == w]
        uncond = cs and all(isinstance(getattr(getattr(c, "_parent", None), "_parent", None), ast.FunctionDef) for c in cs)
        L.check(bool(uncond), "R3", f"{remap.short}:{w}", "phase runs unconditionally", f"phase {w} is skipped on some path", remap.loc())


# ------------------------------------------------------------------------------ R1


def _r1(repo, L, m, ba):
    fa = m["find_assembly_overlaps"]
    store = m["store_fragments_found"]
    lookups = [c for c in repo.calls_in(fa) if isinstance(c.func, ast.Attribute) and c.func.attr == "find_overlaps"]
    if len(lookups) != 1:
        raise AnalysisError(f"{len(lookups)} lookup sites in find_assembly_overlaps")
    # variable holding the result
    res = None
    for a in ancestors(lookups[0]):
        if isinstance(a, ast.NamedExpr):
            res = a.target.id
            break
        if isinstance(a, ast.Assign) and isinstance(a.targets[0], ast.Name):
            res = a.targets[0].id
            break
    if res is None:
        raise AnalysisError("lookup result is not bound to a name")
    inner = None
    for a in ancestors(lookups[0]):
        if isinstance(a, ast.For):
            inner = a
            break
    if inner is None:
        raise AnalysisError("lookup is not inside a loop over Pretext fragments")
    ok, why = True, ""
    n_keep = 0
    for p in PathEnum((0, 1), exc_edges=False).block(inner.body):
        adds = [i for i, c in path_calls(p, lambda c: _mcall("add_scaffold", "self")(c) and c.args and is_name(c.args[0], res))]
        recs = [i for i, c in path_calls(p, lambda c: _mcall(store.name, "self")(c) and c.args and is_name(c.args[0], res))]
        mutating = {n for n, f2 in repo.cls("OverlapResult").methods.items() if not f2.is_property and any(isinstance(x, ast.Call) and isinstance(x.func, ast.Attribute) and (norm(x.func.value) == "self.rows" and x.func.attr == "pop" or (is_name(x.func.value, "self") and x.func.attr.startswith(("discard", "trim")))) for x in walk_shallow(f2.node))}
        trims = [i for i, c in path_calls(p, lambda c: isinstance(c.func, ast.Attribute) and is_name(c.func.value, res) and c.func.attr in mutating)]
        if len(adds) != len(recs) or len(adds) > 1:
            ok, why = False, f"a path keeps the lookup result {len(adds)} time(s) but records its contigs {len(recs)} time(s): contigs of a kept-but-unrecorded result are re-added as left-overs (duplicated); recorded-but-dropped ones are lost"
        if adds:
            n_keep += 1
            if any(t > min(adds + recs) for t in trims):
                ok, why = False, "rows are trimmed off a lookup result after its contigs were recorded: the removed contig counts as found and is never re-added"
    if n_keep == 0:
        ok, why = False, "no path keeps a lookup result"
    L.check(ok, "R1", fa.short, "result added to the build iff its contigs are recorded, trimming first", why, fa.loc(inner))
    # loops visit every Pretext scaffold / fragment
    outer = [a for a in ancestors(inner) if isinstance(a, ast.For)]
    okl = len(outer) == 1 and norm(outer[0].iter).endswith(".scaffolds") and norm(inner.iter).endswith(".fragments()") and not any(isinstance(x, ast.Break) for x in walk_shallow(outer[0]))
    L.check(okl, "R1", fa.short + ":loops", "every fragment of every Pretext scaffold is looked up", "not every Pretext fragment is looked up (filtered loop or break)", fa.loc())

    from .shared import check_row_iter

    check_row_iter(repo, L, "R1", repo.cls("Scaffold"), "fragments", "Fragment", "row", "fragments() yields exactly the Fragment rows (recorder and lookup loops see every contig)", "Scaffold.fragments() does not yield every Fragment row: contigs escape the recorder / the lookup")
    check_row_iter(repo, L, "R5", repo.cls("Scaffold"), "idx_fragments", "Fragment", "idx", "idx_fragments() yields every Fragment row with its index (re-add loop sees every contig)", "Scaffold.idx_fragments() does not yield every Fragment row with its own index: the re-add loop misses contigs")

    # recorder
    loops = [n for n in store.node.body if isinstance(n, ast.For)]
    sp = store.params()[1]
    if len(loops) != 1 or norm(loops[0].iter) != f"{sp}.fragments()":
        L.fail("R1", store.short, f"recorder does not visit every fragment of the result (loop over {norm(loops[0].iter) if loops else None})", store.loc())
        return
    lp = loops[0]
    fv = lp.target.id
    ok, why = True, ""
    kinds = set()
    for p in PathEnum((0, 1), exc_edges=False).block(lp.body):
        if p.status != "fall":
            ok, why = False, f"recorder leaves an iteration early ({p.status}): that contig is not recorded"
            continue
        regs = [c for _, c in path_calls(p, lambda c: isinstance(c.func, ast.Attribute) and c.func.attr == "add_scaffold" and c.args and is_name(c.args[0], sp))]
        if len(regs) != 1:
            ok, why = False, f"the owning result is registered {len(regs)} times for a contig on a path"
            continue
        holder = norm(regs[0].func.value)
        stores = []
        for e in p.events:
            if e.kind == "stmt" and isinstance(e.node, ast.Assign):
                subs = [t for t in e.node.targets if isinstance(t, ast.Subscript)]
                names = [norm(t) for t in e.node.targets if isinstance(t, ast.Name)]
                for t in subs:
                    # `v = d[k] = E` stores the object v names
                    for val in [norm(e.node.value), *names]:
                        stores.append((norm(t), val))
        existing = None
        for e in p.events:
            if e.kind == "cond":
                for t, v in cond_facts(e.node, e.val):
                    if isinstance(t, ast.NamedExpr) and norm(t.target) == holder:
                        existing = v
                    elif norm(t) == holder:
                        existing = v
                    elif isinstance(t, ast.Compare) and len(t.ops) == 1 and norm(t.left) == holder and isinstance(t.comparators[0], ast.Constant) and t.comparators[0].value is None and isinstance(t.ops[0], ast.Is | ast.IsNot):
                        existing = (not v) if isinstance(t.ops[0], ast.Is) else v
        if existing is True:
            kinds.add("again")
            if not any(val == holder for _, val in stores):
                ok, why = False, "a contig found a second time is not entered into the shared map: it stays in two results (duplicated)"
        elif existing is False:
            kinds.add("first")
            news = [n for e in p.events if e.kind == "stmt" for n in [e.node] if isinstance(n, ast.Assign) and isinstance(n.value, ast.Call) and dotted(n.value.func) == "FoundFragment"]
            if not news or not any(val == holder for _, val in stores):
                ok, why = False, "a contig found for the first time is not stored in the found map: it is re-added later although already placed (duplicated)"
        else:
            ok, why = False, "recorder does not distinguish first / repeated finds"
    if kinds != {"again", "first"}:
        ok, why = False, why or "recorder lacks the first-find or the repeated-find path"
    L.check(ok, "R1", store.short, "every fragment keyed and its owner registered; repeated finds enter the shared map", why, store.loc())
    keys = set()
    for n in walk_shallow(lp):
        if isinstance(n, ast.Subscript) and isinstance(n.ctx, ast.Store) and not isinstance(n.slice, ast.Slice):
            keys.add(norm(resolve_local(store, n.slice)))
        if isinstance(n, ast.Call) and isinstance(n.func, ast.Attribute) and n.func.attr in ("get", "setdefault") and n.args:
            keys.add(norm(resolve_local(store, n.args[0])))
    L.check(keys == {f"{fv}.key_tuple"}, "R1", store.short + ":key", "keyed by (name, start, end)", f"recorder keys contigs by {sorted(keys)}", store.loc())
    frag = repo.cls("Fragment")
    kt = frag.methods.get("key_tuple")
    okk = False
    if kt is not None:
        rets = [n for n in walk_shallow(kt.node) if isinstance(n, ast.Return)]
        okk = len(rets) == 1 and isinstance(rets[0].value, ast.Tuple) and [norm(e).replace("self._", "").replace("self.", "") for e in rets[0].value.elts] == ["name", "start", "end"]
    L.check(okk, "R1", "Fragment.key_tuple", "(name, start, end): distinct contigs have distinct keys", "contig key no longer identifies (name, start, end): different contigs collide and one is treated as already placed", kt.loc() if kt else "")


# ------------------------------------------------------------------------------ R2


def _guard_min_owners(test, fn=None) -> int | None:
    """Least value of the premise count that satisfies a guard on it (None = not a count guard).
    Accepts both orientations: `count > 1`, `1 < count`, `count == 2`, `2 <= count`, ...  A count is `len(...)`, an attribute
    or name that says so, or a local of `fn` (whatever it is called) whose every definition is a `len(...)` call."""
    if fn is None:
        fn = getattr(test, "_func", None)
    if isinstance(test, ast.Compare) and len(test.ops) == 1:
        l, r, op = test.left, test.comparators[0], test.ops[0]

        def is_count(e):
            t = norm(e)
            if "count" in t or t.startswith("len("):
                return True
            if isinstance(e, ast.Name) and fn is not None:
                ds_ = local_defs(fn, e.id)
                return bool(ds_) and all(isinstance(d_, ast.Call) and dotted(d_.func) == "len" for d_ in ds_)
            return False

        cl, cr = try_fold(l, default=None), try_fold(r, default=None)
        if is_count(l) and isinstance(cr, int):
            c = cr
            if isinstance(op, ast.Eq):
                return c
            if isinstance(op, ast.Gt):
                return c + 1
            if isinstance(op, ast.GtE):
                return c
            if isinstance(op, ast.NotEq):
                return 0 if c != 0 else 1
        if is_count(r) and isinstance(cl, int):
            c = cl
            if isinstance(op, ast.Eq):
                return c
            if isinstance(op, ast.Lt):
                return c + 1
            if isinstance(op, ast.LtE):
                return c
            if isinstance(op, ast.NotEq):
                return 0 if c != 0 else 1
    return None


def _r2(repo, L, m, ba, ovr):
    removers = {}
    for name, f in ovr.methods.items():
        if any(_mcall("pop", "self.rows")(c) for c in repo.calls_in(f)) or any(isinstance(n, ast.Delete) and "self.rows" in norm(n) for n in walk_shallow(f.node)):
            removers[name] = f
    L.floor("R2", "row-removing methods of OverlapResult", len(removers), 1)
    fa = m["find_assembly_overlaps"]
    # removal API = direct removers plus every OverlapResult method that (transitively) calls one on self
    api = dict(removers)
    grew = True
    while grew:
        grew = False
        for name, f in ovr.methods.items():
            if name in api:
                continue
            if any(isinstance(c.func, ast.Attribute) and is_name(c.func.value, "self") and c.func.attr in api for c in repo.calls_in(f)):
                api[name] = f
                grew = True
    n_sites = 0
    for f in repo.functions.values():
        if f.cls is ovr:
            continue  # calls inside the API are part of it
        for call in repo.calls_in(f):
            if not (isinstance(call.func, ast.Attribute) and call.func.attr in api):
                continue
            targets, _, _ = repo.resolve_call(call, f)
            if targets and not any(t is api[call.func.attr] for t in targets):
                continue
            n_sites += 1
            inst = f"{f.short} -> {call.func.attr}"
            if f is fa:
                L.ok("R2", inst, "row removal on a fresh lookup result (ordering before recording is R1)", f.loc(call))
            elif f.name == "apply" and f.cls is not None and "Premise" in f.cls.name:
                L.ok("R2", inst, "removal through a premise (guarded at its call sites)", f.loc(call))
            else:
                L.fail("R2", inst, f"row removal {call.func.attr}() is called from {f.short}, outside the trim-before-record and premise paths: a contig can be dropped from its only owner", f.loc(call))
    L.floor("R2", "external call sites of the row-removal API", n_sites, 3)
    # (ii) apply() sites
    n_apply = 0
    for f in repo.functions.values():
        for c in repo.calls_in(f):
            if isinstance(c.func, ast.Attribute) and c.func.attr == "apply" and not c.args and f.module.name.startswith("tola.assembly"):
                n_apply += 1
                mins = []
                for a in ancestors(c):
                    if isinstance(a, ast.If):
                        in_body = any(contains(s, c) for s in a.body)
                        g = _guard_min_owners(a.test)
                        if g is not None and in_body:
                            mins.append(g)
                        # nested conjunctions
                        if in_body and isinstance(a.test, ast.BoolOp) and isinstance(a.test.op, ast.And):
                            for v in a.test.values:
                                g2 = _guard_min_owners(v)
                                if g2 is not None:
                                    mins.append(g2)
                    if isinstance(a, ast.FunctionDef):
                        break
                best = max(mins) if mins else 0

                def _site_min(node_):
                    ms_ = [0]
                    for a_ in ancestors(node_):
                        if isinstance(a_, ast.If) and any(contains(s_, node_) for s_ in a_.body):
                            for t_ in [a_.test, *(a_.test.values if isinstance(a_.test, ast.BoolOp) and isinstance(a_.test.op, ast.And) else [])]:
                                g_ = _guard_min_owners(t_)
                                if g_ is not None:
                                    ms_.append(g_)
                        if isinstance(a_, ast.FunctionDef):
                            break
                    return max(ms_)

                if best < 2 and isinstance(c.func.value, ast.Name):
                    # deferred form: `fix = None` ... `fix = <premise>` under the owner-count guards ... `if fix is not None:
                    # fix.apply()` -- the guards of the places where the premise was chosen count
                    rv_ = c.func.value.id
                    not_none = any(
                        isinstance(a_, ast.If) and any(contains(s_, c) for s_ in a_.body) and norm(a_.test) in (f"{rv_} is not None", rv_, f"{rv_} != None")
                        for a_ in ancestors(c)
                    )
                    defs_ = [n_ for n_ in ast.walk(f.node) if isinstance(n_, ast.Assign) and len(n_.targets) == 1 and is_name(n_.targets[0], rv_)]
                    other_stores = [n_ for n_ in ast.walk(f.node) if isinstance(n_, ast.Name) and n_.id == rv_ and isinstance(n_.ctx, ast.Store) and not any(n_ is d_.targets[0] for d_ in defs_)]
                    chosen = [d_ for d_ in defs_ if not (isinstance(d_.value, ast.Constant) and d_.value.value is None)]
                    if not_none and chosen and len(chosen) < len(defs_) and not other_stores:
                        best = max(best, min(_site_min(d_) for d_ in chosen))
                if best < 2 and isinstance(c.func.value, ast.Name):
                    # the premise may have been chosen by a helper that carries the owner-count guard itself
                    ds = local_defs(f, c.func.value.id)
                    for d_ in ds:
                        if isinstance(d_, ast.Call):
                            tg_, _, _ = repo.resolve_call(d_, f)
                            if tg_:
                                raise AnalysisError(f"{f.short}: the premise that is applied is chosen by {tg_[0].short}(): the owner-count guard is not visible at the apply() site (form not understood)")
                L.check(best >= 2, "R2", f"{f.short}:{norm(c)}", f"applied only when >= {best} results own the contig", f"premise '{norm(c)}' is applied under a guard admitting {best} owner(s): the contig is removed from its only result and, being recorded as found, is never re-added — sequence lost", f.loc(c), witness={"guards": mins})
    L.floor("R2", "premise apply() sites", n_apply, 2)
    # no direct row surgery on overlap results outside OverlapResult
    for f in repo.functions.values():
        if f.module.name in ("tola.assembly.build_assembly", "tola.assembly.build_utils"):
            for n in walk_shallow(f.node):
                bad = None
                if isinstance(n, ast.Call) and isinstance(n.func, ast.Attribute) and n.func.attr in ("pop", "remove", "clear", "insert") and norm(n.func.value).endswith(".rows"):
                    bad = norm(n)
                if isinstance(n, ast.Delete) and ".rows" in norm(n):
                    bad = norm(n)
                if isinstance(n, ast.Assign) and any(norm(t).endswith(".rows") or ".rows[" in norm(t) for t in n.targets):
                    bad = norm(n)
                if bad:
                    L.fail("R2", f"{f.short}:rows", f"rows of a scaffold are edited directly by '{bad[:60]}' outside the guarded removal API", f.loc(n))
    return removers


# ------------------------------------------------------------------------------ R3


def _r3(repo, L, m, ba):
    res = repo.cls("OverhangResolver")
    mf = res.methods.get("make_fixes")
    if mf is None:
        raise AnalysisError("anchor OverhangResolver.make_fixes vanished")
    ok, why = True, ""
    n = len([c for c in repo.calls_in(mf) if isinstance(c.func, ast.Attribute) and c.func.attr == "apply" and not c.args])
    # path rule: on every path through the function (one iteration of its loops) every premise that is applied is also
    # appended to a list -- before or after the apply(), the two are independent statements
    for p in PathEnum((0, 1), exc_edges=False).function_paths(mf.node):
        if p.status == "raise":
            continue
        applied = [norm(c.func.value) for _, c in path_calls(p, lambda c: isinstance(c.func, ast.Attribute) and c.func.attr == "apply" and not c.args)]
        recorded = [norm(c.args[0]) for _, c in path_calls(p, lambda c: isinstance(c.func, ast.Attribute) and c.func.attr == "append" and len(c.args) == 1)]
        for who in applied:
            if applied.count(who) > recorded.count(who):
                ok, why = False, f"premise {who} is applied but not returned on a path ({p.describe()[:80]}): the caller keeps the result in the contig's owner list and later cuts a row that is no longer there (or counts an owner that is gone)"
    L.check(ok, "R3", mf.short, "every applied premise is appended to the returned list", why, mf.loc())
    L.floor("R3", "premise apply sites in make_fixes", n, 2)
    # at most one premise applied per contig per round
    loops = [x for x in mf.node.body if isinstance(x, ast.For)]
    ok1, why1 = len(loops) == 1, "loop over the contigs' premise lists not found"
    if ok1:
        for p in PathEnum((0, 1), exc_edges=False).block(loops[0].body):
            k = len([c for _, c in path_calls(p, lambda c: isinstance(c.func, ast.Attribute) and c.func.attr == "apply" and not c.args)])
            if k > 1:
                ok1, why1 = False, f"one round can apply {k} premises for the same contig ({p.describe()}): the contig is discarded from two results at once; with two owners it disappears from both, is still recorded as found and is never re-added — sequence lost"
    L.check(ok1, "R3", mf.short + ":one-per-contig", "at most one premise applied per contig per round", why1, mf.loc())
    rets = [r for r in walk_shallow(mf.node) if isinstance(r, ast.Return)]
    appended_to = {norm(c.func.value) for c in repo.calls_in(mf) if isinstance(c.func, ast.Attribute) and c.func.attr == "append" and c.args and "prem" not in norm(c.func.value)}
    L.check(len(rets) == 1 and norm(rets[0].value) in appended_to, "R3", mf.short + ":return", "returns the list of applied premises", "make_fixes does not return the list the applied premises were appended to", mf.loc())

    dof = m["discard_overhanging_fragments"]
    removes = [c for c in repo.calls_in(dof) if isinstance(c.func, ast.Attribute) and c.func.attr == "remove_scaffold"]
    okr = len(removes) == 1 and removes[0].args and norm(removes[0].args[0]).endswith(".scaffold")
    L.check(okr, "R3", dof.short + ":owner-list", "applied premise's scaffold removed from the contig's owner list", "the result a contig was discarded from stays in that contig's owner list", dof.loc())
    dels = [n for n in walk_shallow(dof.node) if isinstance(n, ast.Delete)]
    okd, whyd = len(dels) == 1, f"{len(dels)} deletions from the shared map"
    if okd:
        guards = [a for a in ancestors(dels[0]) if isinstance(a, ast.If)]
        okd = False
        whyd = "deletion from the shared map is not guarded by the owner count"
        for g in guards:
            t = g.test
            if isinstance(t, ast.Compare) and len(t.ops) == 1 and "count" in norm(t.left):
                c = try_fold(t.comparators[0], default=None)
                op = t.ops[0]
                maxown = c if isinstance(op, ast.LtE | ast.Eq) else (c - 1 if isinstance(op, ast.Lt) else None)
                okd = maxown is not None and maxown <= 1
                whyd = f"a contig leaves the shared map while up to {maxown} results still own it: it stays in two outputs (duplicated)"
    L.check(okd, "R3", dof.short + ":shared-map", "contig leaves the shared map only with <= 1 owner", whyd, dof.loc())
    # premises are recomputed from the current state in every round (a resolver carried over keeps stale what-ifs)
    wl = [n for n in walk_shallow(dof.node) if isinstance(n, ast.While)]
    mk = [c for c in repo.calls_in(dof) if dotted(c.func) == "OverhangResolver"]
    fx = [c for c in repo.calls_in(dof) if isinstance(c.func, ast.Attribute) and c.func.attr == "make_fixes"]
    okw = len(wl) == 1 and len(mk) == 1 and len(fx) == 1 and contains(wl[0], mk[0]) and contains(wl[0], fx[0]) and pos(mk[0]) < pos(fx[0])
    L.check(okw, "R3", dof.short + ":fresh-premises", "a fresh resolver (fresh premises) in every round", "the overhang resolver is not rebuilt inside each round: premises computed against an earlier state are applied again after rows have been removed, discarding a contig from its only remaining owner (recorded as found, never re-added)", dof.loc())
    # loop continues until no fix; every fix processed
    fixv = None
    if fx:
        par = fx[0]._parent
        if isinstance(par, ast.Assign) and isinstance(par.targets[0], ast.Name):
            fixv = par.targets[0].id
        elif isinstance(par, ast.NamedExpr):
            fixv = par.target.id
    fl = [n for n in walk_shallow(dof.node) if isinstance(n, ast.For) and ((fixv and is_name(n.iter, fixv)) or (fx and n.iter is fx[0]))]
    if len(fl) != 1:
        raise AnalysisError(f"{dof.short}: loop over the applied premises (result of make_fixes) not found")
    okf_, whyf_ = True, ""
    for pth in PathEnum((0,), exc_edges=False).block(fl[0].body):
        if pth.status == "break" or pth.status == "return":
            okf_, whyf_ = False, f"the bookkeeping loop stops early ({pth.status}): later applied premises are not processed"
        removed = [c for _, c in path_calls(pth, lambda c: isinstance(c.func, ast.Attribute) and c.func.attr == "remove_scaffold")]
        if not removed and pth.status != "raise":
            # skipping is fine only when the contig is no longer in the shared map (lookup came back empty)
            miss = False
            for e in pth.events:
                if e.kind == "cond":
                    for t, v in cond_facts(e.node, e.val):
                        tt = resolve_local(dof, t)
                        if not v and isinstance(tt, ast.Call) and isinstance(tt.func, ast.Attribute) and tt.func.attr == "get":
                            miss = True
            if not miss:
                okf_, whyf_ = False, f"an applied premise is skipped without removing its result from the owner list ({pth.describe()[:100]})"
    L.check(okf_, "R3", dof.short + ":all-fixes", "bookkeeping for every applied premise", whyf_ or "not every applied premise is processed", dof.loc())
    ff = repo.cls("FoundFragment")
    rs = ff.methods.get("remove_scaffold")
    sc = ff.methods.get("scaffold_count")
    okf = rs is not None and any(norm(n) == f"self.scaffolds.remove({rs.params()[1]})" for n in walk_shallow(rs.node) if isinstance(n, ast.Call)) and sc is not None and any(norm(n.value) == "len(self.scaffolds)" for n in walk_shallow(sc.node) if isinstance(n, ast.Return))
    L.check(okf, "R3", "FoundFragment", "owner list removal / count are exact", "FoundFragment.remove_scaffold / scaffold_count no longer remove exactly one owner / count the owners", ff.module.relpath)

    cro = m["cut_remaining_overhangs"]
    loops = [n for n in walk_shallow(cro.node) if isinstance(n, ast.For)]
    okc = len(loops) == 1 and norm(loops[0].iter).endswith(".values()")
    if okc:
        # every iteration cuts its contig exactly once; the only paths that may skip are guarded by "fewer than two owners"
        for p_ in PathEnum((0, 1), exc_edges=False).block(loops[0].body):
            if p_.status == "raise":
                continue
            k_ = len([c for _, c in path_calls(p_, lambda c: isinstance(c.func, ast.Attribute) and c.func.attr == "cut_fragments")])
            if k_ == 1 and p_.status == "fall":
                continue
            harmless = False
            for e_ in p_.events:
                if e_.kind == "cond":
                    g = _guard_min_owners(e_.node)
                    # the path took the branch that says "not at least two owners"
                    if g is not None and g <= 2 and e_.val is False:
                        harmless = True
            if not (harmless and k_ == 0):
                okc = False
    L.check(okc, "R3", cro.short, "every contig still shared is cut", "not every still-shared contig is cut: it stays whole in two results (duplicated)", cro.loc())
    src = [norm(n.value) for n in walk_shallow(cro.node) if isinstance(n, ast.Assign) and loops and is_name(n.targets[0], norm(loops[0].iter).split(".")[0])]
    if not src and loops and isinstance(loops[0].iter, ast.Call) and isinstance(loops[0].iter.func, ast.Attribute):
        src = [norm(loops[0].iter.func.value)]  # iterated directly, without a local
    L.check(src == ["self.fragments_found_more_than_once"], "R3", cro.short + ":source", "iterates the shared map", f"cut loop iterates {src}", cro.loc())


# ------------------------------------------------------------------------------ R4


def _r4(repo, L, m, ba):
    cut, qc = m["cut_fragments"], m["qc_sub_fragments"]
    # (a) every trim result flows into the QC call which precedes the counter and the normal exit
    qcalls = [c for c in repo.calls_in(cut) if isinstance(c.func, ast.Attribute) and c.func.attr == qc.name]
    is_trim = lambda c: isinstance(c, ast.Call) and isinstance(c.func, ast.Attribute) and c.func.attr == "trim_fragment"  # noqa: E731
    loops_t = [n for n in cut.node.body if isinstance(n, ast.For) and any(is_trim(c) for c in walk_shallow(n))]
    any_trim = [c for c in walk_shallow(cut.node) if is_trim(c)]
    if len(loops_t) != 1 and any_trim:
        raise AnalysisError(f"{cut.short}: the pieces are not cut in one top-level for-loop (e.g. a comprehension over parallel flag lists): the flow of pieces into the QC is not understood")
    if len(qcalls) != 1 or len(loops_t) != 1:
        ok, why = False, f"{len(loops_t)} cutting loop(s) / {len(qcalls)} QC call(s) in cut_fragments"
    else:
        loop = loops_t[0]
        passed = [norm(a) for a in qcalls[0].args]
        qstmt = qcalls[0]
        while not isinstance(qstmt, ast.stmt):
            qstmt = qstmt._parent
        ok, why = True, ""
        if qstmt not in cut.node.body or cut.node.body.index(loop) > cut.node.body.index(qstmt):
            ok, why = False, "QC is not an unconditional top-level step after the cutting loop"
        else:
            between = cut.node.body[cut.node.body.index(loop) + 1: cut.node.body.index(qstmt)]
            if any(isinstance(x, ast.Return | ast.If) for s_ in between for x in [s_, *walk_shallow(s_)]):
                ok, why = False, "a return/branch between cutting and the QC can skip it"
        # per path of the loop body: exactly one piece is cut and that piece is appended to the list the QC receives
        n_lp = 0
        for pth in PathEnum((0,), exc_edges=False).block(loop.body):
            if pth.status == "raise":
                continue
            n_lp += 1
            if pth.status in ("break", "continue", "return"):
                ok, why = False, f"the cutting loop can skip a result ({pth.status})"
                continue
            cut_vals = set()
            n_cut = 0
            appended = 0
            for e in pth.events:
                if e.kind not in ("stmt", "cond"):
                    continue
                nodes = [e.node, *walk_shallow(e.node)]
                for x in nodes:
                    if is_trim(x):
                        n_cut += 1
                        par = x._parent
                        if isinstance(par, ast.Assign) and len(par.targets) == 1 and isinstance(par.targets[0], ast.Name):
                            cut_vals.add(par.targets[0].id)
                        elif isinstance(par, ast.NamedExpr):
                            cut_vals.add(par.target.id)
                    if isinstance(x, ast.Call) and isinstance(x.func, ast.Attribute) and x.func.attr == "append" and norm(x.func.value) in passed and x.args:
                        a0 = x.args[0]
                        if is_trim(a0) or (isinstance(a0, ast.Name) and a0.id in cut_vals):
                            appended += 1
            if n_cut != 1 or appended != 1:
                ok, why = False, f"on a path of the cutting loop {n_cut} piece(s) are cut but {appended} handed to the QC list {passed} ({pth.describe()[:120]}): a piece can vanish without the QC seeing it"
        if n_lp == 0:
            ok, why = False, "cutting loop has no completing path"
    L.check(ok, "R4", cut.short, "all pieces → QC, unconditionally, before the cut is accepted", why, cut.loc())
    # loop covers all owners
    loops = [n for n in cut.node.body if isinstance(n, ast.For)]
    okl = False
    if loops:
        it = loops[0].iter
        src = it.args[0] if isinstance(it, ast.Call) and dotted(it.func) == "enumerate" else it
        defs = local_defs(cut, src.id) if isinstance(src, ast.Name) else [src]
        okl = any("scaffolds" in norm(d) and not isinstance(d, ast.Subscript) and "if" not in norm(d).split("key")[0] for d in defs)
    L.check(okl, "R4", cut.short + ":owners", "every owning result is cut", "not every result that owns the contig is cut", cut.loc())

    # (b) the QC's verdict
    _qc_verdict(repo, L, qc)


def _nonempty_expr(e) -> bool:
    """Expression certainly evaluating to a non-empty str / list / tuple."""
    if isinstance(e, ast.Constant):
        return isinstance(e.value, str) and e.value != ""
    if isinstance(e, ast.JoinedStr):
        return any(isinstance(v, ast.Constant) and v.value for v in e.values)
    if isinstance(e, ast.BinOp) and isinstance(e.op, ast.Add):
        return _nonempty_expr(e.left) or _nonempty_expr(e.right)
    if isinstance(e, ast.List | ast.Tuple):
        return bool(e.elts) and not any(isinstance(x, ast.Starred) for x in e.elts)
    return False


def _empty_expr(e) -> bool:
    if isinstance(e, ast.Constant):
        return e.value == ""
    if isinstance(e, ast.List | ast.Tuple):
        return not e.elts
    if isinstance(e, ast.Call) and dotted(e.func) in ("list", "str", "tuple") and not e.args:
        return True
    return False


def _qc_verdict(repo, L, qc: Func):
    """Every accepting (non-raising) path of the cut QC must have established, by the conditions it took,
         (1) Σ piece lengths == length of the contig that was cut          (no base lost or duplicated in total)
         (2) number of overlapping consecutive pieces (sorted by start) == 0 (no base written twice)
       Decided path-wise; the error accumulator (a str or list that starts empty, grows by non-empty values and is tested
       for truth before the raise) is tracked in an emptiness domain {empty, non-empty, unknown} so that the form of the
       bookkeeping (message string, list of problems, early raise) does not matter."""
    from ..util import single_def

    fnd, pieces = qc.params()[1], qc.params()[2]
    fn = qc.node

    def resolve(e, depth=0):
        while isinstance(e, ast.Name) and depth < 5:
            d = single_def(qc, e.id)
            if d is None:
                break
            e, depth = d, depth + 1
        return e

    sorted_names = {}
    for n in walk_shallow(fn):
        if isinstance(n, ast.Assign) and len(n.targets) == 1 and isinstance(n.targets[0], ast.Name) and isinstance(n.value, ast.Call) and dotted(n.value.func) == "sorted" and n.value.args and is_name(n.value.args[0], pieces):
            k = next((kk.value for kk in n.value.keywords if kk.arg == "key"), None)
            by_start = False
            if isinstance(k, ast.Lambda) and k.args.args:
                a0 = k.args.args[0].arg
                body = k.body.elts[0] if isinstance(k.body, ast.Tuple) and k.body.elts else k.body
                by_start = norm(body) == f"{a0}.start"
            elif isinstance(k, ast.Call) and dotted(k.func) in ("attrgetter", "operator.attrgetter") and k.args and try_fold(k.args[0], default=None) == "start":
                by_start = True
            rev = next((kk.value for kk in n.value.keywords if kk.arg == "reverse"), None)
            sorted_names[n.targets[0].id] = by_start and (rev is None or try_fold(rev, default=1) is False)

    def is_sigma(e):
        e = resolve(e)
        if isinstance(e, ast.Call) and dotted(e.func) == "sum" and len(e.args) == 1 and isinstance(e.args[0], ast.GeneratorExp | ast.ListComp):
            g = e.args[0]
            if len(g.generators) == 1 and not g.generators[0].ifs and isinstance(g.generators[0].target, ast.Name):
                it = g.generators[0].iter
                return isinstance(it, ast.Name) and (it.id == pieces or it.id in sorted_names) and norm(g.elt) == f"{g.generators[0].target.id}.length"
        return False

    def is_contig_len(e):
        e = resolve(e)
        if isinstance(e, ast.Attribute) and e.attr == "length":
            b = resolve(e.value)
            return norm(b) == f"{fnd}.fragment"
        return False

    # ---- overlap evidence: counters / flags fed by a.overlaps(b) over consecutive start-sorted pieces
    def pair_loop(lp):
        """-> (a, b) names when `lp` visits every consecutive pair of a start-sorted copy of the pieces; None otherwise"""
        it, tg = lp.iter, lp.target
        txt = norm(it).replace(" ", "")
        for S, ok_sorted in sorted_names.items():
            if isinstance(tg, ast.Tuple) and len(tg.elts) == 2 and all(isinstance(x, ast.Name) for x in tg.elts):
                x, y = tg.elts[0].id, tg.elts[1].id
                if txt in (f"zip({S},{S}[1:])", f"itertools.pairwise({S})", f"pairwise({S})"):
                    return (x, y) if ok_sorted else False
                if txt == f"enumerate({S}[:-1])":
                    nxt = [n for n in lp.body if isinstance(n, ast.Assign) and isinstance(n.targets[0], ast.Name) and norm(n.value).replace(" ", "") in (f"{S}[{x}+1]", f"{S}[1+{x}]")]
                    if nxt:
                        return (y, nxt[0].targets[0].id) if ok_sorted else False
            if isinstance(tg, ast.Name) and txt in (f"range(len({S})-1)", f"range(0,len({S})-1)"):
                i = tg.id
                cur = [n for n in lp.body if isinstance(n, ast.Assign) and isinstance(n.targets[0], ast.Name) and norm(n.value).replace(" ", "") == f"{S}[{i}]"]
                nxt = [n for n in lp.body if isinstance(n, ast.Assign) and isinstance(n.targets[0], ast.Name) and norm(n.value).replace(" ", "") in (f"{S}[{i}+1]", f"{S}[1+{i}]")]
                if cur and nxt:
                    return (cur[0].targets[0].id, nxt[0].targets[0].id) if ok_sorted else False
        return None

    counters = set()
    seen_true = False
    has_overlap_call = any(isinstance(c, ast.Call) and isinstance(c.func, ast.Attribute) and c.func.attr == "overlaps" for c in walk_shallow(fn))
    unrecognised_overlap = False
    for lp in [n for n in walk_shallow(fn) if isinstance(n, ast.For)]:
        calls = [c for c in walk_shallow(lp) if isinstance(c, ast.Call) and isinstance(c.func, ast.Attribute) and c.func.attr == "overlaps"]
        if not calls:
            continue
        pr = pair_loop(lp)
        if pr is None:
            unrecognised_overlap = True
            continue
        if pr is False:
            continue  # pairs of an unsorted / wrongly sorted list: no evidence
        a, b = pr
        for pth in PathEnum((0,), exc_edges=False).block(lp.body):
            ov = None
            for e in pth.events:
                if e.kind == "cond":
                    for t, v in cond_facts(e.node, e.val):
                        if isinstance(t, ast.Call) and isinstance(t.func, ast.Attribute) and t.func.attr == "overlaps" and t.args and {norm(t.func.value), norm(t.args[0])} == {a, b}:
                            ov = v
            incs = {norm(e.node.target) for e in pth.events if e.kind == "stmt" and isinstance(e.node, ast.AugAssign) and isinstance(e.node.op, ast.Add) and isinstance(try_fold(e.node.value, default=None), int) and try_fold(e.node.value, default=0) > 0}
            if ov is True:
                counters = incs if not seen_true else counters & incs
                seen_true = True
    # a counter must start at 0 and only ever grow
    for c in sorted(counters):
        for n in walk_shallow(fn):
            if isinstance(n, ast.Assign) and any(is_name(t, c) for t in n.targets) and try_fold(n.value, default=None) != 0:
                counters.discard(c)
            if isinstance(n, ast.AugAssign) and is_name(n.target, c) and not (isinstance(n.op, ast.Add) and isinstance(try_fold(n.value, default=None), int) and try_fold(n.value, default=0) > 0):
                counters.discard(c)
    if has_overlap_call and not counters and unrecognised_overlap:
        raise AnalysisError(f"{qc.short}: overlap evidence is collected in a form that is not understood (pairs / counter)")

    # ---- accumulators
    accs = set()
    for n in fn.body:
        if isinstance(n, ast.Assign) and len(n.targets) == 1 and isinstance(n.targets[0], ast.Name) and _empty_expr(n.value):
            accs.add(n.targets[0].id)

    def c_fact(t, v):
        """fact about an overlap counter -> upper bound implied for it, or None"""
        INF = 10 ** 9
        if isinstance(t, ast.Name) and t.id in counters:
            return 0 if not v else INF
        if isinstance(t, ast.Compare) and len(t.ops) == 1:
            l, op, r = t.left, t.ops[0], t.comparators[0]
            if isinstance(l, ast.Name) and l.id in counters and isinstance(try_fold(r, default=None), int):
                k = try_fold(r)
                table = {
                    (ast.NotEq, False): k, (ast.Eq, True): k,
                    (ast.Gt, False): k, (ast.GtE, False): k - 1,
                    (ast.Lt, True): k - 1, (ast.LtE, True): k,
                }
                return table.get((type(op), v), INF)
        return None

    n_accept = n_raise = 0
    bad_len = bad_ovl = None
    for pth in paths(qc, (0, 1), exc_edges=False):
        state = {}
        feasible = True
        len_ok = False
        hi = 10 ** 9
        for e in pth.events:
            if e.kind == "stmt":
                n = e.node
                if isinstance(n, ast.Assign) and len(n.targets) == 1 and isinstance(n.targets[0], ast.Name) and n.targets[0].id in accs:
                    state[n.targets[0].id] = "E" if _empty_expr(n.value) else "N" if _nonempty_expr(n.value) else "?"
                elif isinstance(n, ast.AugAssign) and isinstance(n.target, ast.Name) and n.target.id in accs:
                    if _nonempty_expr(n.value):
                        state[n.target.id] = "N"
                    elif state.get(n.target.id) != "N":
                        state[n.target.id] = "?"
                elif isinstance(n, ast.Expr) and isinstance(n.value, ast.Call) and isinstance(n.value.func, ast.Attribute) and isinstance(n.value.func.value, ast.Name) and n.value.func.value.id in accs:
                    a, m_ = n.value.func.value.id, n.value.func.attr
                    if m_ == "append":
                        state[a] = "N"
                    elif m_ == "clear":
                        state[a] = "E"
                    elif m_ in ("extend", "insert", "pop", "remove"):
                        state[a] = "N" if m_ == "insert" else "?"
            elif e.kind == "cond":
                for t, v in cond_facts(e.node, e.val):
                    if isinstance(t, ast.Name) and t.id in accs:
                        sv = state.get(t.id, "?")
                        if (sv == "E" and v) or (sv == "N" and not v):
                            feasible = False
                        continue
                    if isinstance(t, ast.Compare) and len(t.ops) == 1 and isinstance(t.ops[0], ast.Eq | ast.NotEq):
                        l, r = t.left, t.comparators[0]
                        if (is_sigma(l) and is_contig_len(r)) or (is_sigma(r) and is_contig_len(l)):
                            if (isinstance(t.ops[0], ast.Eq) and v) or (isinstance(t.ops[0], ast.NotEq) and not v):
                                len_ok = True
                            continue
                    cf = c_fact(t, v)
                    if cf is not None:
                        hi = min(hi, cf)
            if not feasible:
                break
        if not feasible:
            continue
        if pth.status == "raise":
            n_raise += 1
            continue
        n_accept += 1
        if not len_ok and bad_len is None:
            bad_len = pth
        if hi != 0 and bad_ovl is None:
            bad_ovl = pth
    if n_accept == 0:
        raise AnalysisError(f"{qc.short}: no accepting path found")
    # distinguish "not understood" from "absent" for the length evidence
    if bad_len is not None:
        sums = [c for c in walk_shallow(fn) if isinstance(c, ast.Call) and dotted(c.func) == "sum"]
        cmp_len = [c for c in walk_shallow(fn) if isinstance(c, ast.Compare) and any(is_sigma(x) for x in [c.left, *c.comparators]) and any(is_contig_len(x) for x in [c.left, *c.comparators])]
        accum = [n for n in walk_shallow(fn) if isinstance(n, ast.AugAssign) and norm(n.value).endswith(".length")]
        if not cmp_len and (accum or any(not is_sigma(c) and ".length" in norm(c) for c in sums)):
            raise AnalysisError(f"{qc.short}: the total length of the pieces is computed in a form that is not understood")
    L.check(
        bad_len is None, "R4", qc.short + ":length", f"every accepting path ({n_accept}) has established Σ piece lengths == contig length",
        "the QC accepts a cut without having established that the pieces' lengths sum to the contig's length"
        + (f" (accepting path: {bad_len.describe()[:200]})" if bad_len is not None else "") + ": sequence lost or duplicated by a cut goes unnoticed",
        qc.loc(), witness={"pieces": "ctg:1-40000 and ctg:45001-70000 of a 70000 bp contig"},
    )
    L.check(
        bad_ovl is None, "R4", qc.short + ":overlap", f"every accepting path ({n_accept}) has established that no two consecutive start-sorted pieces overlap",
        "the QC accepts a cut without having established that no two pieces of the contig overlap"
        + (f" (accepting path: {bad_ovl.describe()[:200]})" if bad_ovl is not None else "") + ": bases written twice go unnoticed (an overlap on one side compensated by a hole elsewhere keeps the length sum)",
        qc.loc(), witness={"pieces": "ctg:1-40000 and ctg:35001-65000 of a 70000 bp contig (overlap 5000, hole 5000: lengths still sum up)"},
    )
    L.check(n_raise > 0, "R4", qc.short + ":raise", f"{n_raise} rejecting path(s) end in a raise", "the QC never raises", qc.loc())
    L.extra["qc_paths"] = {"accepting": n_accept, "raising": n_raise, "overlap_counters": sorted(counters)}


# ------------------------------------------------------------------------------ R5


def _r5(repo, L, m, ba):
    addm = m["add_missing_scaffolds_from_input"]
    ip = addm.params()[1]
    outer = [n for n in addm.node.body if isinstance(n, ast.For)]
    ok = len(outer) == 1 and norm(outer[0].iter) == f"{ip}.scaffolds"
    L.check(ok, "R5", addm.short + ":scaffolds", "every input scaffold visited", "re-add does not visit every input scaffold", addm.loc())
    if not ok:
        return
    sv = outer[0].target.id
    inner = [n for n in outer[0].body if isinstance(n, ast.For)]
    if not inner:
        # the per-fragment loop may sit under a condition (a guard clause written or normalised as `if ...:`): it must be
        # one that only excludes scaffolds without rows
        nested = [n for n in walk_shallow(outer[0]) if isinstance(n, ast.For) and norm(n.iter) in (f"{sv}.idx_fragments()", f"enumerate({sv}.rows)")]
        if len(nested) == 1:
            guards = [a for a in ancestors(nested[0]) if isinstance(a, ast.If) and contains(outer[0], a)]
            bad_g = []
            for g in guards:
                side = any(nested[0] is s_ or contains(s_, nested[0]) for s_ in g.body)
                facts = [(norm(t).replace(" ", ""), v) for t, v in cond_facts(g.test, side)]
                raw = cond_facts(g.test, side)
                if all(t in (f"{sv}.rows", f"len({sv}.rows)") and v for t, v in facts):
                    continue
                # entering the loop only when NOT (… and every fragment is already recorded as found) skips nothing that
                # the loop would have re-added
                def all_found(e):
                    return (
                        isinstance(e, ast.Call) and dotted(e.func) == "all" and len(e.args) == 1 and isinstance(e.args[0], ast.GeneratorExp | ast.ListComp)
                        and len(e.args[0].generators) == 1 and not e.args[0].generators[0].ifs
                        and norm(e.args[0].generators[0].iter) in (f"{sv}.fragments()",)
                        and isinstance(e.args[0].elt, ast.Call) and isinstance(e.args[0].elt.func, ast.Attribute) and e.args[0].elt.func.attr == "get"
                        and norm(resolve_local(addm, e.args[0].elt.func.value)) == "self.found_fragments"
                        and len(e.args[0].elt.args) == 1 and norm(e.args[0].elt.args[0]) == f"{e.args[0].generators[0].target.id}.key_tuple"
                    )

                def skip_needs_all_found(t, v):
                    # fact (t is v) holds on the path INTO the loop; the skipped case is its negation
                    if not v:
                        inner_ = t
                        conj = inner_.values if isinstance(inner_, ast.BoolOp) and isinstance(inner_.op, ast.And) else [inner_]
                        return any(all_found(c_) for c_ in conj)
                    return False

                if any(skip_needs_all_found(t, v) for t, v in raw):
                    continue
                # conditions on things the analysis cannot relate to the scaffold's contigs (calls into helpers) are not understood;
                # conditions on mutable program state (membership in a populated collection) can hold for a scaffold with unseen contigs
                from .c09 import _is_state_test

                if not all(_is_state_test(repo, t) or nt in (f"{sv}.rows", f"len({sv}.rows)") for (t, v), (nt, _) in zip(raw, facts)):
                    raise AnalysisError(f"{addm.short}: the fragments of an input scaffold are visited under '{norm(g.test)[:70]}', a condition the rule cannot relate to the contigs still missing")
                bad_g.append(norm(g.test)[:60])
            if bad_g:
                L.fail("R5", addm.short + ":no-scaffold-skip", f"the fragments of an input scaffold are only visited when {bad_g}: otherwise the scaffold is skipped as a whole and contigs of it that no lookup returned are never re-added (lost)", addm.loc(), witness={"input": "a scaffold the Pretext map covers only in part (texel-snapped tail contig)"})
                return
            # continue the analysis inside the guard
            holder = guards[0] if guards else None
            if holder is not None:
                blk_ = holder.body if any(nested[0] is s_ or contains(s_, nested[0]) for s_ in holder.body) else holder.orelse
                outer = [ast.copy_location(ast.For(target=outer[0].target, iter=outer[0].iter, body=blk_, orelse=[]), outer[0])]
                inner = [n for n in outer[0].body if isinstance(n, ast.For)]
    if not any(norm(i_.iter) in (f"{sv}.idx_fragments()", f"enumerate({sv}.rows)") for i_ in inner) and any(isinstance(c, ast.Call) and isinstance(c.func, ast.Attribute) and c.func.attr in ("idx_fragments", "fragments") and is_name(c.func.value, sv) for c in walk_shallow(outer[0])):
        raise AnalysisError(f"{addm.short}: the scaffold's fragments are visited, but not by a plain loop over idx_fragments() in the scaffold loop (e.g. collected by a comprehension first): re-add logic not understood")
    # no input scaffold is skipped as a whole (other than an empty one): every skip statement of the outer loop body
    # that is not inside the per-fragment loop must be control dependent on the scaffold having no rows
    oks, whys = True, ""
    for x in walk_shallow(outer[0]):
        if isinstance(x, ast.Continue | ast.Break | ast.Return) and not any(contains(i_, x) for i_ in inner):
            guards = [a for a in ancestors(x) if isinstance(a, ast.If) and contains(outer[0], a)]
            benign_skip = False
            for g in guards:
                side = any(x is s_ or contains(s_, x) for s_ in g.body)
                for t, v in cond_facts(g.test, side):
                    if norm(t).replace(" ", "") in (f"{sv}.rows", f"len({sv}.rows)") and v is False:
                        benign_skip = True
            if not benign_skip and not isinstance(x, ast.Return | ast.Break) or (isinstance(x, ast.Return | ast.Break)):
                if not benign_skip:
                    conds = [norm(g.test)[:60] for g in guards]
                    oks, whys = False, f"an input scaffold is skipped as a whole ({type(x).__name__.lower()} under {conds or 'no condition'}): contigs of it that no lookup returned are never re-added (lost)"
    L.check(oks, "R5", addm.short + ":no-scaffold-skip", "no input scaffold is skipped as a whole", whys, addm.loc(), witness={"input": "a scaffold the Pretext map covers only in part (texel-snapped tail contig)"})
    ok = len(inner) == 1 and norm(inner[0].iter) in (f"{sv}.idx_fragments()", f"enumerate({sv}.rows)")
    if not ok:
        # refuted only by an iteration that is recognisably partial (a slice, a filter, a comprehension with a condition)
        its_ = [l_.iter for l_ in inner]
        partial = any(isinstance(x_, ast.Slice) or (isinstance(x_, ast.Call) and dotted(x_.func) in ("filter", "itertools.islice", "islice")) or (isinstance(x_, ast.comprehension) and x_.ifs) for it_ in its_ for x_ in ast.walk(it_))
        if not partial:
            raise AnalysisError(f"{addm.short}: how the re-add loop walks the fragments of an input scaffold is not understood ({[norm(i_)[:40] for i_ in its_]})")
    L.check(ok, "R5", addm.short + ":fragments", "every fragment row visited", "re-add does not visit every fragment of an input scaffold", addm.loc())
    if not ok:
        return
    lp = inner[0]
    fv = lp.target.elts[1].id
    okp, whyp = True, ""
    seen = set()
    map_exprs = []
    for p in PathEnum((0, 1), exc_edges=False).block(lp.body):
        unseen = None
        if p.status == "raise":
            continue  # the run ends in an error: nothing is written, which the property allows
        for e in p.events:
            if e.kind == "cond":
                for t, v in cond_facts(e.node, e.val):
                    tt = norm(t).replace(" ", "")
                    if tt.endswith(f".get({fv}.key_tuple)"):
                        unseen = not v
                    elif isinstance(t, ast.Compare) and len(t.ops) == 1 and norm(t.left) == f"{fv}.key_tuple" and isinstance(t.ops[0], ast.In | ast.NotIn):
                        unseen = (not v) if isinstance(t.ops[0], ast.In) else v
                        map_exprs.append(t.comparators[0])
        adds = [c for _, c in path_calls(p, lambda c: isinstance(c.func, ast.Attribute) and c.func.attr in ("add_row", "append") and c.args and is_name(c.args[0], fv))]
        if not adds:
            # the fragment handed to something else on this path (a helper, another container): not the form the rule reads
            handed = [c for _, c in path_calls(p, lambda c: any(is_name(a_, fv) for a_ in [*c.args, *[k_.value for k_ in c.keywords]]))]
            if handed:
                raise AnalysisError(f"{addm.short}: a left-over fragment is passed to '{norm(handed[0])[:50]}' instead of being added as a row: form not understood")
        if p.status not in ("fall", "continue"):
            okp, whyp = False, f"re-add loop leaves an iteration with {p.status}"
        if unseen is True:
            seen.add("unseen")
            if len(adds) != 1:
                okp, whyp = False, f"a contig no lookup returned is re-added {len(adds)} times on a path: it is lost"
        elif unseen is False:
            seen.add("seen")
            if adds:
                okp, whyp = False, "a contig that was already placed is re-added: duplicated"
        else:
            conds_on_frag = [e for e in p.events if e.kind == "cond" and any(isinstance(x, ast.Name) and x.id == fv for x in ast.walk(e.node))]
            # `if <not found> and <filter on the fragment's own data>:` taken as false: one way to get here is "not found, filter
            # false" -- a contig nobody placed is then not re-added.  Counted only for a filter that can be false: a comparison of
            # the fragment's length / start / end with an integer constant that is not implied by length >= 1, start >= 1.
            for e in conds_on_frag:
                t_ = e.node
                if isinstance(t_, ast.BoolOp) and isinstance(t_.op, ast.And) and e.val is False and not adds:
                    look = [v_ for v_ in t_.values if any(tt_.endswith(f".get({fv}.key_tuple)") or (isinstance(f_, ast.Compare) and norm(f_.left) == f"{fv}.key_tuple") for f_, _ in cond_facts(v_, True) for tt_ in [norm(f_).replace(" ", "")])]
                    rest = [v_ for v_ in t_.values if v_ not in look]

                    def _can_be_false(c_):
                        if not (isinstance(c_, ast.Compare) and len(c_.ops) == 1):
                            return False
                        l_, r_ = c_.left, c_.comparators[0]
                        k_l, k_r = try_fold(l_, default=None), try_fold(r_, default=None)
                        op_ = type(c_.ops[0])
                        if isinstance(k_l, int) and norm(r_) in (f"{fv}.length", f"{fv}.start", f"{fv}.end"):
                            # k < x false needs x <= k possible with x >= 1;  k <= x false needs x < k possible
                            return (op_ is ast.Lt and k_l >= 1) or (op_ is ast.LtE and k_l >= 2)
                        if isinstance(k_r, int) and norm(l_) in (f"{fv}.length", f"{fv}.start", f"{fv}.end"):
                            return (op_ is ast.Gt and k_r >= 1) or (op_ is ast.GtE and k_r >= 2)
                        return False

                    if look and rest and all(_can_be_false(c_) for c_ in rest):
                        okp, whyp = False, f"a contig no lookup returned is not re-added when '{norm(rest[0])}' is false: it is lost"
                        conds_on_frag = []
                        unseen = "filtered"
                        break
            if unseen == "filtered":
                continue
            if conds_on_frag:
                raise AnalysisError(f"{addm.short}: whether a fragment is re-added is decided by '{norm(conds_on_frag[0].node)[:60]}', not by a lookup of its key in the found map: form not understood")
            okp, whyp = False, "re-add decision does not depend on the found map keyed by (name, start, end)"
    if seen != {"unseen", "seen"}:
        okp, whyp = False, whyp or "found / not-found branches not both present"
    L.check(okp, "R5", addm.short + ":decision", "re-added iff absent from the found map (same key as the recorder)", whyp, addm.loc(lp))
    mapv = None
    for c in walk_shallow(lp):
        if isinstance(c, ast.Call) and isinstance(c.func, ast.Attribute) and c.func.attr == "get" and c.args and norm(c.args[0]) == f"{fv}.key_tuple":
            mapv = c.func.value
    if mapv is None and map_exprs:
        mapv = map_exprs[0]
    if isinstance(mapv, ast.Name):
        src = [norm(n.value) for n in walk_shallow(addm.node) if isinstance(n, ast.Assign) and is_name(n.targets[0], mapv.id)]
    else:
        src = [norm(mapv)] if mapv is not None else []
    L.check(src == ["self.found_fragments"], "R5", addm.short + ":map", "consults the recorder's map", f"re-add consults {src}", addm.loc())
    # the new scaffold is registered whenever it was created
    reg = [n for n in outer[0].body if isinstance(n, ast.If) and any(_mcall("add_scaffold", "self")(c) for s in n.body for c in _calls(s, lambda c: True))]
    okr = len(reg) == 1 and isinstance(reg[0].test, ast.Name)
    if okr:
        nv = reg[0].test.id
        regs = [p for p in PathEnum((0, 1), exc_edges=False).block(reg[0].body)]
        okr = all(len([c for _, c in path_calls(p, lambda c: _mcall("add_scaffold", "self")(c) and c.args and is_name(c.args[0], nv))]) == 1 or p.status == "raise" for p in regs)
        creates = [n for n in walk_shallow(lp) if isinstance(n, ast.Assign) and is_name(n.targets[0], nv) and isinstance(n.value, ast.Call) and dotted(n.value.func) == "Scaffold"]
        resets = [n for n in outer[0].body if isinstance(n, ast.Assign) and is_name(n.targets[0], nv) and try_fold(n.value, default=0) is None]
        okr = okr and len(creates) == 1 and len(resets) == 1
    L.check(bool(okr), "R5", addm.short + ":register", "left-over scaffold registered exactly once whenever one was started", "a left-over scaffold can be built but not added to the build (its contigs are lost)", addm.loc())


# ------------------------------------------------------------------------------ R6


def _r6(repo, L, m, ba):
    fuse = m["scaffolds_fused_by_name"]
    from .keys import fuse_site

    fuse_site(repo)  # the rules below are written for the one-pass form; any other form is "no verdict"
    loops = [n for n in fuse.node.body if isinstance(n, ast.For)]
    if len(loops) < 1 or norm(loops[0].iter) != "self.scaffolds":
        L.fail("R6", fuse.short, "fuse loop does not iterate over every build scaffold", fuse.loc())
        return
    lp = loops[0]
    sv = lp.target.id
    ok, why = True, ""
    for p in PathEnum((0, 1), exc_edges=False).block(lp.body):
        apps = [c for _, c in path_calls(p, lambda c: isinstance(c.func, ast.Attribute) and c.func.attr == "append_scaffold")]
        if p.status == "continue":
            empties = [1 for e in p.events if e.kind == "cond" for t, v in cond_facts(e.node, e.val) if norm(t) == f"{sv}.rows" and v is False]
            if not empties or apps:
                # the scaffold may have been handed on some other way (stored in a table, yielded ...): not a form these rules know
                handed = [e.node for e in p.events if e.kind in ("stmt", "return") and any(isinstance(x, ast.Name) and x.id == sv and isinstance(x.ctx, ast.Load) for x in ast.walk(e.node)) and (isinstance(e.node, ast.Assign) and not isinstance(e.node.targets[0], ast.Name) or any(isinstance(x, ast.Yield | ast.YieldFrom) for x in ast.walk(e.node)) or any(isinstance(x, ast.Call) and isinstance(x.func, ast.Attribute) and x.func.attr in ("append", "add", "extend", "setdefault") for x in ast.walk(e.node)))]
                if handed:
                    raise AnalysisError(f"{fuse.short}: a path passes the build scaffold on by '{norm(handed[0])[:60]}' instead of appending it to a fused scaffold: form not understood by the fuse rules")
                ok, why = False, "a build scaffold is skipped although it has rows: its contigs are lost"
        elif p.status == "fall":
            if len(apps) != 1:
                ok, why = False, f"a build scaffold is appended {len(apps)} times"
            else:
                from ..util import resolve_on_path as _rop

                i0 = next(i for i, c in path_calls(p, lambda c: c is apps[0]))
                a0 = norm(_rop(p, i0, apps[0].args[0])) if apps[0].args else ""
                if a0 not in (sv, f"{sv}.to_scaffold()"):
                    ok, why = False, f"'{a0}' is appended instead of the scaffold itself"
        else:
            ok, why = False, f"fuse loop leaves with {p.status}"
    L.check(ok, "R6", fuse.short + ":append", "every non-empty build scaffold appended exactly once", why, fuse.loc(lp))
    ys = [n for n in walk_shallow(fuse.node) if isinstance(n, ast.Yield | ast.YieldFrom | ast.Return)]
    oky = False
    for y in ys:
        par = next((a for a in ancestors(y) if isinstance(a, ast.For)), None)
        if isinstance(y, ast.Yield) and par is not None and norm(par.iter).endswith(".values()") and is_name(y.value, par.target.id) and not any(isinstance(x, ast.If | ast.Continue | ast.Break) for x in walk_shallow(par)):
            oky = True
        if isinstance(y, ast.YieldFrom | ast.Return) and y.value is not None and norm(y.value).endswith(".values()"):
            oky = True
    L.check(oky, "R6", fuse.short + ":yield", "every fused scaffold yielded", "not every fused scaffold is handed on", fuse.loc())
    # consumer
    split = m["assemblies_with_scaffolds_fused"]
    loops = [n for n in split.node.body if isinstance(n, ast.For) and fuse.name in norm(n.iter)]
    okc, whyc = len(loops) == 1, "consumer loop not found"
    if okc:
        lp = loops[0]
        sv = lp.target.id
        for p in PathEnum((0, 1), exc_edges=False).block(lp.body):
            adds = [c for _, c in path_calls(p, lambda c: isinstance(c.func, ast.Attribute) and c.func.attr == "add_scaffold" and c.args and is_name(c.args[0], sv) and "chr_namer" not in norm(c.func.value))]
            if p.status != "fall" or len(adds) != 1:
                okc, whyc = False, f"a fused scaffold is placed in {len(adds)} output assemblies on a path ({p.status})"
    L.check(okc, "R6", split.short, "each fused scaffold added to exactly one output assembly", whyc, split.loc())
    rets = [n for n in walk_shallow(split.node) if isinstance(n, ast.Return)]
    holders = {norm(c.func.value) for c in repo.calls_in(split) if isinstance(c.func, ast.Attribute) and c.func.attr == "setdefault"}
    # a dict filled by subscript stores of newly made assemblies counts as well
    holders |= {norm(t.value) for n in walk_shallow(split.node) if isinstance(n, ast.Assign) for t in n.targets if isinstance(t, ast.Subscript) and isinstance(n.value, ast.Call | ast.Name)}
    L.check(len(rets) == 1 and norm(rets[0].value) in holders, "R6", split.short + ":return", "all output assemblies returned", "not all output assemblies are returned", split.loc())
    # CLI writes every returned assembly
    wa = repo.try_func("write_assemblies", "pretext_to_asm")
    okw = False
    if wa is not None:
        loops = [n for n in walk_shallow(wa.node) if isinstance(n, ast.For)]
        okw = len(loops) == 1 and norm(loops[0].iter).endswith(".values()") and isinstance(loops[0].target, ast.Name)
        if okw:
            lv_ = loops[0].target.id
            for pth in PathEnum((0,), exc_edges=False).block(loops[0].body):
                k_ = len([c for _, c in path_calls(pth, lambda c: dotted(c.func) == "write_assembly" and any(is_name(a, lv_) for a in c.args))])
                if pth.status == "raise":
                    continue
                if pth.status != "fall" or k_ != 1:
                    okw = False
    L.check(okw, "R6", "write_assemblies", "every output assembly is written", "not every output assembly is written to a file", wa.loc() if wa else "")
    na = repo.try_func("name_assemblies", "pretext_to_asm")
    ma = repo.try_func("merge_assemblies", "pretext_to_asm")
    okm = False
    if ma is not None:
        loops = [n for n in walk_shallow(ma.node) if isinstance(n, ast.For)]
        lp_ = ma.params()[0]
        no_skip = not any(isinstance(x, ast.If | ast.Continue | ast.Break) for x in walk_shallow(ma.node)) and not any(g.ifs for x in walk_shallow(ma.node) if isinstance(x, ast.GeneratorExp | ast.ListComp) for g in x.generators)
        adds_ = any("add_scaffold" in norm(c) for c in repo.calls_in(ma))

        def _flat_expr(it):
            """does `it` enumerate every scaffold of every assembly of the parameter, in order?"""
            if isinstance(it, ast.Call) and dotted(it.func) in ("list", "tuple", "iter") and len(it.args) == 1:
                return _flat_expr(it.args[0])
            if isinstance(it, ast.Call) and (dotted(it.func) or "").endswith("chain.from_iterable") and len(it.args) == 1 and isinstance(it.args[0], ast.GeneratorExp | ast.ListComp) and len(it.args[0].generators) == 1:
                g = it.args[0].generators[0]
                return is_name(g.iter, lp_) and isinstance(g.target, ast.Name) and norm(it.args[0].elt) == f"{g.target.id}.scaffolds"
            if isinstance(it, ast.GeneratorExp | ast.ListComp) and len(it.generators) == 2:
                g1, g2 = it.generators
                return is_name(g1.iter, lp_) and isinstance(g1.target, ast.Name) and norm(g2.iter) == f"{g1.target.id}.scaffolds" and is_name(it.elt, g2.target.id if isinstance(g2.target, ast.Name) else "")
            return None

        flat = None
        stores_all = [n for n in walk_shallow(ma.node) if isinstance(n, ast.Assign) and any(norm(t).endswith(".scaffolds") for t in n.targets)]
        exts = [c for c in repo.calls_in(ma) if isinstance(c.func, ast.Attribute) and c.func.attr == "extend" and norm(c.func.value).endswith(".scaffolds")]
        if len(loops) == 2:
            flat = is_name(loops[0].iter, lp_) and isinstance(loops[0].target, ast.Name) and norm(loops[1].iter) == f"{loops[0].target.id}.scaffolds"
            flat = flat and adds_
        elif len(loops) == 1 and adds_:
            flat = _flat_expr(loops[0].iter)
        elif len(loops) == 1 and len(exts) == 1 and is_name(loops[0].iter, lp_) and isinstance(loops[0].target, ast.Name):
            flat = norm(exts[0].args[0]) == f"{loops[0].target.id}.scaffolds" if exts[0].args else None
        elif not loops and len(stores_all) == 1 and not exts:
            flat = _flat_expr(stores_all[0].value)
        elif not loops and len(exts) == 1 and not stores_all and exts[0].args:
            flat = _flat_expr(exts[0].args[0])
        if flat is None or (not flat and no_skip):
            raise AnalysisError("merge_assemblies: how the scaffolds of the given assemblies are gathered is not a form understood (nested loops, chain.from_iterable, nested comprehension, extend)")
        okm = flat and no_skip
    L.check(okm, "R6", "merge_assemblies", "merging keeps every scaffold", "merge_assemblies drops scaffolds", ma.loc() if ma else "")


# ------------------------------------------------------------------------------ R7


def _r7(repo, L):
    sites = set()
    for f in repo.functions.values():
        if f.module.name in ("tola.assembly.build_assembly", "tola.assembly.build_utils", "tola.assembly.overlap_result", "tola.assembly.indexed_assembly", "tola.assembly.scaffold", "tola.assembly.assembly", "tola.assembly.assembly_stats"):
            for c in repo.calls_in(f):
                if dotted(c.func) == "Fragment" and f.qualname in _remap_reach(repo):
                    sites.add(f.short)
    L.check(sites == {"OverlapResult.trim_fragment"}, "R7", "Fragment()-sites", "remapping constructs fragments only in the cut (coordinates moved inward: C18.R2)", f"fragments are constructed in {sorted(sites)}: sequence can be invented or re-labelled outside the QC'd cut", "src/tola/assembly")
    # reverse()/rename() keep coordinates (C14.R3)
    frag = repo.cls("Fragment")
    for nm in ("reverse", "rename"):
        f = frag.methods.get(nm)
        if f is None:
            continue
        c = [x for x in repo.calls_in(f) if norm(x.func) == "self.__class__"]
        ok = len(c) == 1 and [norm(a) for a in c[0].args][1:3] == ["self.start", "self.end"]
        L.check(ok, "R7", f"Fragment.{nm}", "copies keep the interval", f"Fragment.{nm}() changes the interval", f.loc())


_REMAP_REACH = {}


def _remap_reach(repo):
    """functions the remapping (BuildAssembly.remap_to_input_assembly and the fusing / splitting that follows it) can reach"""
    k = id(repo)
    if k not in _REMAP_REACH:
        ba = repo.cls("BuildAssembly")
        roots = [m for nm, m in ba.methods.items() if nm in ("remap_to_input_assembly", "assemblies_with_scaffolds_fused", "scaffolds_fused_by_name")]
        _REMAP_REACH.clear()
        _REMAP_REACH[k] = set(repo.reachable_from(roots))
    return _REMAP_REACH[k]
