"""C03 — FASTA output is exactly the output AGP applied to the input FASTA (structural clauses).

 R1 dispatch: gap rows -> gap iterator; other rows -> sequence iterator; reverse chunker iff strand == -1
 R2 forward / reverse chunkers are mirrored siblings over the same chunk bounds
 R3 line wrapping: (bytes on the current line) + want == line_length is an invariant of the write loop;
    a newline is written exactly when the line is full, and a final one iff the last line is partial;
    the wrap state is carried across rows and chunks
 R4 record structure: header first; one record per scaffold, in order
 R5 CLI pairing: FASTA and its .agp are written from the same assembly object, default line length / gap char
 R6 random access: the first byte sought is the faidx offset of the interval's first residue and the number
    of bytes read equals the interval length (algebraic identity under the division axioms)
 R7 gap rendering: the gap iterator's chunks tile [0, length) exactly (every gap is that many characters)
"""

from __future__ import annotations

import ast

from ..finite import run_paths
from ..fold import try_fold
from ..model import AnalysisError, Func, Repo, dotted, is_name, norm, walk_shallow
from ..report import Ledger
from ..sym import eq0, B, Const, Lin, Range, State, Sym, SymExec, Tup, as_lin, b_not, cmp_lin, opaque, NotNumeric
from ..util import end_pos, pos, kw
from .shared import chunker_siblings, gap_iter_exact

PROP = "C03"
LEVEL = "other"
EXPLANATION = (
    "The streaming writer is decided structurally: row dispatch by folding the branch conditions for strand ∈ {1,-1,0}; the "
    "two chunk generators by comparing their symbolic summaries with the chunk specification; line wrapping by symbolic "
    "execution of one iteration of the write loop from an arbitrary state (the counter `want` and the ghost column satisfy "
    "col + want == line_length; newline exactly when want reaches 0; final newline iff want != line_length; no other writer "
    "or reset of the counter); and FastaIndex.sequence_bytes algebraically: with start0 = rpl·⌊start0/rpl⌋ + start0 mod rpl and "
    "end = rpl·⌊end/rpl⌋ + end mod rpl (division axioms) the seek target equals the faidx offset of the first residue and the "
    "read sizes sum to end − start0 in every branch (single line; several lines with and without a trailing partial line). "
    "That each individual read stays inside one line, CRLF detection and N counts are runtime facts."
)


def run(repo: Repo, L: Ledger, tier: str):
    L.rule("R1", "Gap -> gap iterator; else sequence iterator; rev_chunks iff strand == -1")
    L.rule("R2", "fwd/rev chunkers: same bounds, mirrored order, reverse-complement only in rev")
    L.rule("R3", "col + want == line_length; newline iff line full; final newline iff partial line; state carried")
    L.rule("R4", "'>name' header first; one record per scaffold in order")
    L.rule("R5", "CLI writes FASTA and .agp from the same assembly object with default width / gap character")
    L.rule("R6", "sequence_bytes: seek == faidx offset of first residue; Σ read sizes == interval length")
    L.rule("R7", "gap iterator: chunks tile [0, length) exactly — a gap is rendered as exactly that many characters")

    fs = repo.cls("FastaStream")
    fi = repo.cls("FastaIndex")
    ws = fs.methods.get("write_scaffold")
    wa = fs.methods.get("write_assembly")
    gsi = fi.methods.get("get_sequence_iter")
    if not all((ws, wa, gsi)):
        raise AnalysisError("anchors FastaStream.write_scaffold / write_assembly / FastaIndex.get_sequence_iter vanished")

    # ---- R1
    sel = [n for n in walk_shallow(ws.node) if isinstance(n, ast.IfExp) or (isinstance(n, ast.If) and "isinstance" in norm(n.test))]
    ok1, why1 = False, "row dispatch not found in write_scaffold"
    for s in sel:
        t = norm(s.test).replace(" ", "")
        if t.startswith("isinstance(") and t.endswith(",Gap)"):
            body = s.body if isinstance(s, ast.IfExp) else s.body[0]
            other = s.orelse if isinstance(s, ast.IfExp) else (s.orelse[0] if s.orelse else None)
            ok1 = "get_gap_iter" in norm(body) and other is not None and "get_sequence_iter" in norm(other)
            why1 = f"gap rows → '{norm(body)[:40]}', other rows → '{norm(other)[:40] if other is not None else None}'"
    L.check(ok1, "R1", ws.short + ":dispatch", "gap rows to the gap iterator, all other rows to the sequence iterator", why1, ws.loc())
    fp = gsi.params()[1]
    for strand, want in ((1, "fwd_chunks"), (-1, "rev_chunks"), (0, "fwd_chunks")):
        res = run_paths(gsi.node.body, {f"{fp}.strand": strand}, loop_iters=(0,))
        res = [r for r in res if r["path"].status == "return"]
        if len(res) != 1:
            raise AnalysisError(f"get_sequence_iter: {len(res)} feasible paths for strand {strand}")
        ret = [e.node for e in res[0]["path"].events if e.kind == "return"][0].value
        okc = isinstance(ret, ast.Call) and isinstance(ret.func, ast.Attribute) and ret.func.attr == want and [norm(a) for a in ret.args[1:]] == [f"{fp}.start", f"{fp}.end"]
        L.check(okc, "R1", f"{gsi.short}[strand={strand}]", f"→ {want}(info, start, end)", f"a row with strand {strand} is streamed by '{norm(ret)[:60]}', expected {want}(info, {fp}.start, {fp}.end)", gsi.loc(ret))
    infos = [n for n in walk_shallow(gsi.node) if isinstance(n, ast.Assign) and isinstance(n.value, ast.Call) and "get_info" in norm(n.value)]
    L.check(len(infos) == 1 and norm(infos[0].value.args[0]) == f"{fp}.name", "R1", gsi.short + ":info", "index entry looked up by the row's contig name", "sequence iterator does not look up the row's own contig", gsi.loc())

    # ---- R2
    chunker_siblings(repo, L, "R2")

    # ---- R3
    _wrap(repo, L, fs, ws)

    # ---- R4
    first_write = None
    for n in ws.node.body:
        cs = [c for c in [n, *walk_shallow(n)] if isinstance(c, ast.Call) and isinstance(c.func, ast.Attribute) and c.func.attr == "write"]
        if cs:
            first_write = cs[0]
            break
    sp = ws.params()[1]
    ok4 = first_write is not None and norm(first_write.args[0]).replace('"', "'") in (f"f'>{{{sp}.name}}\\n'.encode()",)
    L.check(ok4, "R4", ws.short + ":header", "record starts with '>' + scaffold name + newline", f"first write of a record is '{norm(first_write.args[0]) if first_write else None}'", ws.loc(first_write) if first_write else ws.loc())
    loops = [n for n in wa.node.body if isinstance(n, ast.For)]
    ap = wa.params()[1]
    ok4b = len(loops) == 1 and norm(loops[0].iter) == f"{ap}.scaffolds" and len(loops[0].body) == 1 and norm(loops[0].body[0]) == f"self.write_scaffold({loops[0].target.id})"
    L.check(ok4b, "R4", wa.short, "one record per scaffold, in assembly order", "write_assembly does not write exactly one record per scaffold in order", wa.loc())
    rows_loops = [n for n in ws.node.body if isinstance(n, ast.For)]
    ok4c = len(rows_loops) == 1 and norm(rows_loops[0].iter) == f"{sp}.rows" and not any(isinstance(x, ast.Continue | ast.Break) and not any(isinstance(a, ast.While) for a in _anc(x, rows_loops[0])) for x in walk_shallow(rows_loops[0]))
    L.check(ok4c, "R4", ws.short + ":rows", "every row of the scaffold streamed in order", "not every row is streamed", ws.loc())

    # ---- R5
    wasm = repo.try_func("write_assembly", "pretext_to_asm")
    if wasm is None:
        raise AnalysisError("anchor pretext_to_asm.write_assembly vanished")
    ctor = [c for c in repo.calls_in(wasm) if dotted(c.func) == "FastaStream"]
    ok5 = len(ctor) == 1 and len(ctor[0].args) == 2 and not ctor[0].keywords
    L.check(ok5, "R5", wasm.short + ":stream", "FastaStream(out_fh, fai) with default line length and gap character", f"FastaStream constructed as '{norm(ctor[0]) if ctor else None}': line length / gap character overridden", wasm.loc())
    init = fs.methods.get("__init__")
    d = {a.arg: v for a, v in zip(init.node.args.args[-len(init.node.args.defaults):], init.node.args.defaults)}
    L.check(try_fold(d.get("line_length"), default=None) == 60 and try_fold(d.get("gap_character"), default=None) == b"N", "R5", "FastaStream.__init__:defaults", "line_length=60, gap_character=b'N'", f"FastaStream defaults are line_length={norm(d.get('line_length')) if d.get('line_length') is not None else None}, gap_character={norm(d.get('gap_character')) if d.get('gap_character') is not None else None}", init.loc())
    stores = {norm(n.targets[0]): norm(n.value) for n in walk_shallow(init.node) if isinstance(n, ast.Assign)}
    L.check(stores.get("self.line_length") == "line_length" and stores.get("self.gap_character") == "gap_character", "R5", "FastaStream.__init__:stores", "configuration stored unchanged", "FastaStream does not store its line length / gap character unchanged", init.loc())
    am = wasm.params()[1]
    sw = [c for c in repo.calls_in(wasm) if isinstance(c.func, ast.Attribute) and c.func.attr == "write_assembly"]
    fa_calls = [c for c in repo.calls_in(wasm) if dotted(c.func) == "format_agp"]
    fasta_if = None
    for n in walk_shallow(wasm.node):
        if isinstance(n, ast.If) and "'FASTA'" in norm(n.test) and any(c in list(ast.walk(n)) for c in sw):
            fasta_if = n
    ok5b, why5b = False, "FASTA branch not found"
    if fasta_if is not None and sw:
        in_branch = [c for c in fa_calls if any(c is x for s in fasta_if.body for x in ast.walk(s))]
        rebinds = [n for s in fasta_if.body for n in [s, *walk_shallow(s)] if isinstance(n, ast.Assign) and any(is_name(t, am) for t in n.targets)]
        ok5b = len(in_branch) == 1 and norm(in_branch[0].args[0]) == am and norm(sw[0].args[0]) == am and not rebinds
        why5b = "the .agp beside the FASTA is not formatted from the same assembly object that was streamed"
        if ok5b:
            h = in_branch[0].args[1]
            defs = [n.value for n in walk_shallow(wasm.node) if isinstance(n, ast.Assign) and is_name(n.targets[0], h.id)] if isinstance(h, ast.Name) else [h] if isinstance(h, ast.Call) else []
            pth = defs[0].args[0] if defs and isinstance(defs[0], ast.Call) and defs[0].args else None
            pdef = [n.value for n in walk_shallow(wasm.node) if isinstance(n, ast.Assign) and pth is not None and is_name(n.targets[0], norm(pth))]
            pexpr = pdef[0] if pdef else pth  # through a local or written in place
            ok5b = False
            if isinstance(pexpr, ast.Call) and isinstance(pexpr.func, ast.Attribute) and pexpr.func.attr == "with_suffix" and norm(pexpr.func.value) == wasm.params()[2] and len(pexpr.args) == 1:
                from ..finite import module_consts

                sfx = try_fold(pexpr.args[0], env=dict(module_consts(wasm.module)), default=None)
                if sfx is None:
                    raise AnalysisError(f"{wasm.short}: the suffix of the AGP companion path '{norm(pexpr)[:50]}' does not fold to a constant: no verdict")
                ok5b = sfx == ".agp"
            elif not (pexpr is not None and norm(pexpr) == wasm.params()[2]):
                # refuted: the FASTA path itself (the companion would overwrite the FASTA); anything else is a form not understood
                raise AnalysisError(f"{wasm.short}: how the path of the AGP companion is derived from the output path is not understood ('{norm(pexpr)[:50] if pexpr is not None else None}')")
            why5b = f"AGP companion path is '{norm(pexpr) if pexpr is not None else None}', expected the FASTA path with suffix .agp"
    L.check(ok5b, "R5", wasm.short + ":pair", "same assembly object streamed and formatted; <fasta>.agp", why5b, wasm.loc())
    # the handle streamed into is opened through the output-handle function with a binary mode for FASTA
    from ..finite import Opaque, fold_env
    from ..fold import NotConstant

    okm, whym = False, "FASTA output handle is not opened in binary mode"
    hv = norm(ctor[0].args[0]) if ctor and ctor[0].args else None
    if hv is None:
        raise AnalysisError(f"{wasm.short}: FastaStream(<handle>, ...) construction not found")
    wp = wasm.params()
    env = {wp[3]: "FASTA", wp[2]: Opaque("output path"), wp[0]: Opaque("fai")}
    ctor_stmt = ctor[0]
    while not isinstance(ctor_stmt, ast.stmt):
        ctor_stmt = ctor_stmt._parent
    res = [r for r in run_paths(wasm.node.body, env, loop_iters=(0,), stop_at=lambda nd: nd is ctor_stmt) if r["stopped"] is not None]
    if not res:
        raise AnalysisError(f"{wasm.short}: the FASTA stream is not constructed on any path with format FASTA")
    seen_modes = []
    for r in res:
        hval = r["env"].get(hv)
        txt = getattr(hval, "text", None)
        if not isinstance(hval, Opaque) or "(" not in txt:
            raise AnalysisError(f"{wasm.short}: how the handle '{hv}' streamed into is opened is not understood ({hval!r})")
        args_ = txt[txt.index("(") + 1: txt.rindex(")")].split(", ")
        if len(args_) >= 3:
            seen_modes.append(args_[2])
        elif txt.startswith("get_output_filehandle("):
            seen_modes.append("''")  # the opener's default mode (text)
        else:
            raise AnalysisError(f"{wasm.short}: handle '{hv}' is opened by '{txt[:60]}': mode argument not understood")
    okm = all(m.startswith(("'", '"')) and "b" in m for m in seen_modes)
    whym = f"with output format FASTA the handle streamed into is opened with mode suffix {seen_modes} (no 'b'): the byte stream is written to a text handle"
    L.check(okm, "R5", wasm.short + ":binary", "FASTA handle opened in binary mode", whym, wasm.loc())

    # ---- R6
    _random_access(repo, L, fi)

    # ---- R7
    gap_iter_exact(repo, L, "R7")


def _anc(x, stop):
    n = getattr(x, "_parent", None)
    while n is not None and n is not stop:
        yield n
        n = getattr(n, "_parent", None)


# ------------------------------------------------------------------------------ R3


class _WrapExec(SymExec):
    def __init__(self, repo, out_names):
        super().__init__(repo, loop_iters=(0,))
        self.out_names = out_names

    def inline(self, func):
        return False

    def call_default(self, st, n, fval, args, kwargs, func, depth):
        if isinstance(n.func, ast.Attribute) and n.func.attr == "read":
            st.effects.append(("read", n, args[0] if args else None))
            return Sym("seq")
        if isinstance(n.func, ast.Attribute) and n.func.attr == "write" and norm(n.func.value) in self.out_names:
            st.effects.append(("write", n, args[0] if args else None))
            return Const(None)
        if dotted(n.func) == "len" and args and isinstance(args[0], Sym) and args[0].name == "seq":
            return Lin.atom("n")
        return super().call_default(st, n, fval, args, kwargs, func, depth)

    def truth(self, v):
        if isinstance(v, Sym) and v.name == "seq":
            return b_not(eq0(Lin.atom("n")))  # bytes are truthy iff non-empty
        return super().truth(v)


def _wrap(repo, L, fs, ws: Func):
    # names of the output handle
    out_names = {"self.out"}
    for n in walk_shallow(ws.node):
        if isinstance(n, ast.Assign) and norm(n.value) == "self.out" and isinstance(n.targets[0], ast.Name):
            out_names.add(n.targets[0].id)
    whiles = [n for n in walk_shallow(ws.node) if isinstance(n, ast.While)]
    if len(whiles) != 1:
        raise AnalysisError(f"{len(whiles)} while loops in write_scaffold")
    wl = whiles[0]
    # every byte of a chunk goes through the wrap loop: no other read of the chunk / write to the output inside the chunk loop
    from ..util import ancestors as _ancs

    chunk_loop = next((a for a in _ancs(wl) if isinstance(a, ast.For)), None)
    if chunk_loop is not None:
        stray = []
        for x in walk_shallow(chunk_loop):
            if isinstance(x, ast.Call) and isinstance(x.func, ast.Attribute) and not any(a is wl for a in _ancs(x)):
                if x.func.attr == "write" and norm(x.func.value) in out_names:
                    stray.append(norm(x)[:60])
                if x.func.attr in ("read", "getvalue", "read1", "readinto") and isinstance(chunk_loop.target, ast.Name) and is_name(x.func.value, chunk_loop.target.id):
                    stray.append(norm(x)[:60])
        L.check(
            not stray, "R3", ws.short + ":single-writer", "inside the chunk loop all reads/writes go through the wrap loop",
            f"sequence bytes are read or written outside the line-wrapping loop ({stray[:2]}): they bypass the line counter, so lines can come out longer or shorter than the configured line length",
            ws.loc(chunk_loop), witness={"line_length": 50},
        )
    # the counter: variable passed to read()
    reads = [c for c in walk_shallow(wl) if isinstance(c, ast.Call) and isinstance(c.func, ast.Attribute) and c.func.attr == "read"]
    if len(reads) != 1 or len(reads[0].args) != 1 or not isinstance(reads[0].args[0], ast.Name):
        L.fail("R3", ws.short + ":read", "chunk is not consumed by read(<counter>)", ws.loc(wl))
        return
    cnt = reads[0].args[0].id
    ex = _WrapExec(repo, out_names)
    st = State()
    st.env["__func__"] = ws
    st.env[cnt] = Lin.atom("W")
    LLn = None
    for n in walk_shallow(ws.node):
        if isinstance(n, ast.Assign) and is_name(n.targets[0], cnt) and pos(n) < pos(wl):
            LLn = norm(n.value)
    if LLn is None:
        raise AnalysisError("initial value of the line counter not found")
    st.env[LLn] = Lin.atom("LL")
    st.heap[("self", "line_length")] = Lin.atom("LL")
    st.env["chunk"] = Sym("chunk")
    for o in out_names:
        if "." not in o:
            st.env[o] = Sym("out")
    # one iteration = test, then body (the read may sit in the loop test: `while seq := chunk.read(want):`)
    one = ast.If(test=wl.test, body=wl.body, orelse=[ast.copy_location(ast.Break(), wl)])
    ast.copy_location(one, wl)
    outs = ex.run_block([one], st, ws)
    W, LLa, n_ = Lin.atom("W"), Lin.atom("LL"), Lin.atom("n")
    kinds = {}
    ok, why = True, ""
    for r in outs:
        writes = [e for e in r.effects if e[0] == "write"]
        rd = [e for e in r.effects if e[0] == "read"]
        try:
            w1 = as_lin(r.env[cnt])
        except NotNumeric:
            raise AnalysisError(f"write loop: the line counter becomes {r.env[cnt]!r}, outside the affine fragment (no verdict)")
        if len(rd) != 1 or not (isinstance(rd[0][2], Lin) and rd[0][2] == W):
            ok, why = False, f"chunk read with size {rd[0][2] if rd else None}, expected the remaining line width"
        empty = eq0(n_) in r.pc
        full = cmp_lin("==", W - n_, Lin.const(0)) in r.pc or eq0(W - n_) in r.pc or eq0(n_ - W) in r.pc
        data = [w for w in writes if isinstance(w[2], Sym) and w[2].name == "seq"]
        nls = [w for w in writes if isinstance(w[2], Const) and w[2].v in (b"\n", "\n")]
        other = [w for w in writes if w not in data and w not in nls]
        if other:
            ok, why = False, f"the loop writes something other than chunk data or a newline: {other[0][2]!r}"
        if empty:
            kinds["drained"] = kinds.get("drained", 0) + 1
            if writes or w1 != W or r.status != "break":
                ok, why = False, "an exhausted chunk still writes / changes the counter / does not end the loop"
        elif full:
            kinds["line-full"] = kinds.get("line-full", 0) + 1
            if len(data) != 1 or len(nls) != 1 or writes.index(data[0]) > writes.index(nls[0]):
                ok, why = False, f"line becomes full: writes {[repr(w[2]) for w in writes]}, expected data then one newline"
            if w1 != LLa:
                ok, why = False, f"after a full line the counter is {w1}, expected line_length"
        else:
            kinds["partial"] = kinds.get("partial", 0) + 1
            if len(data) != 1 or nls:
                ok, why = False, f"line not yet full (want − len(seq) ≠ 0) but writes are {[repr(w[2]) for w in writes]}: a newline before the line is full gives a short line"
            if w1 != W - n_:
                ok, why = False, f"counter after writing n bytes is {w1}, expected want − n (col + want == line_length breaks)"
    if set(kinds) != {"drained", "line-full", "partial"}:
        ok, why = False, why or f"loop body has cases {sorted(kinds)}, expected drained / line-full / partial"
    L.check(ok, "R3", ws.short + ":invariant", "one iteration preserves col + want == line_length; newline exactly when want reaches 0", why, ws.loc(wl))
    # final newline
    tail = [n for n in ws.node.body if isinstance(n, ast.If) and pos(n) > end_pos(wl)]
    okf, whyf = False, "no final test after the rows loop"
    if len(tail) == 1:
        t = tail[0].test
        ne = isinstance(t, ast.Compare) and len(t.ops) == 1 and isinstance(t.ops[0], ast.NotEq) and {norm(t.left), norm(t.comparators[0])} == {cnt, LLn}
        lt = isinstance(t, ast.Compare) and len(t.ops) == 1 and ((isinstance(t.ops[0], ast.Lt) and norm(t.left) == cnt and norm(t.comparators[0]) == LLn) or (isinstance(t.ops[0], ast.Gt) and norm(t.left) == LLn and norm(t.comparators[0]) == cnt))
        body = [norm(s) for s in tail[0].body]
        okf = (ne or lt) and len(body) == 1 and any(body[0] == f"{o}.write(b'\\n')" for o in out_names) and not tail[0].orelse
        whyf = f"final newline written under '{norm(t)}' (must be: counter != line_length, i.e. the last line is partial)"
    L.check(okf, "R3", ws.short + ":final-newline", "final newline iff the last line is partial (no empty line, no missing terminator)", whyf, ws.loc())
    # the counter is only written at init and inside the loop; chunk rewound before reading
    sets = [n for n in walk_shallow(ws.node) if (isinstance(n, ast.Assign) and any(is_name(t, cnt) for t in n.targets)) or (isinstance(n, ast.AugAssign) and is_name(n.target, cnt))]
    outside = [n for n in sets if not any(a is wl for a in _anc(n, ws.node)) and not (n in ws.node.body)]
    L.check(not outside, "R3", ws.short + ":carried", "wrap state carried across rows and chunks (counter set only before the rows loop and inside the write loop)", f"line counter is reset by '{norm(outside[0])}' between rows/chunks: lines are broken at row boundaries" if outside else "", ws.loc())
    init = [n for n in sets if n in ws.node.body]
    L.check(len(init) == 1 and norm(init[0].value) in (LLn, "self.line_length"), "R3", ws.short + ":init", "counter starts at line_length", "counter does not start at line_length", ws.loc())
    nl_writes = [c for c in walk_shallow(ws.node) if isinstance(c, ast.Call) and isinstance(c.func, ast.Attribute) and c.func.attr == "write" and c.args and try_fold(c.args[0], default=None) in (b"\n", "\n")]
    L.check(len(nl_writes) == 2, "R3", ws.short + ":newlines", "newlines written only when a line is full and once at the end", f"{len(nl_writes)} newline-writing sites", ws.loc())


# ------------------------------------------------------------------------------ R6


class _RAExec(SymExec):
    def inline(self, func):
        return func.is_property

    def call_default(self, st, n, fval, args, kwargs, func, depth):
        if isinstance(n.func, ast.Attribute) and n.func.attr in ("read", "seek") and "BytesIO" not in norm(n.func.value):
            recv = norm(n.func.value)
            st.effects.append((n.func.attr, n, (recv, args)))
            return Sym(f"bytes@{n.lineno}") if n.func.attr == "read" else Const(None)
        if isinstance(n.func, ast.Attribute) and n.func.attr == "write":
            st.effects.append(("bufwrite", n, args))
            return Const(None)
        if dotted(n.func) in ("BytesIO", "io.BytesIO"):
            return Sym("buf")
        return super().call_default(st, n, fval, args, kwargs, func, depth)

    def iter_element(self, st, node, itv, n, func, depth):
        if isinstance(itv, Range):
            st.effects.append(("range", node, itv))
        return super().iter_element(st, node, itv, n, func, depth)


def _random_access(repo, L, fi, rule="R6"):
    sb = fi.methods.get("sequence_bytes")
    if sb is None:
        raise AnalysisError("anchor FastaIndex.sequence_bytes vanished")
    ps = sb.params()
    RPL, MLL, OFF = Lin.atom("rpl"), Lin.atom("mll"), Lin.atom("off")
    S, E = Lin.atom("S"), Lin.atom("E")  # 1-based inclusive interval
    s0 = S - 1
    FL, FO = opaque("fdiv", s0, RPL), opaque("mod", s0, RPL)
    QE, LO = opaque("fdiv", E, RPL), opaque("mod", E, RPL)
    LLn = opaque("fdiv", E - 1, RPL)

    def fresh():
        st = State()
        st.heap[("info", "residues_per_line")] = RPL
        st.heap[("info", "max_line_length")] = MLL
        st.heap[("info", "file_offset")] = OFF
        return st

    n_cases = 0
    results = []
    for case, extra_pc, ll_val in (
        ("single-line", [eq0(FL - LLn)], None),
        ("multi-line, last line partial", [b_not(eq0(FL - LLn)), b_not(eq0(LO))], QE),
        ("multi-line, ends on a line boundary", [b_not(eq0(FL - LLn)), eq0(LO)], QE - 1),
    ):
        ex = _RAExec(repo, loop_iters=(1,))
        st = fresh()
        st.pc.extend(extra_pc)
        finals = ex.run_function(sb, st, {ps[0]: Sym("self", fi), ps[1]: Sym("info"), ps[2]: S, ps[3]: E})
        finals = [r for r in finals if r.status == "return"]
        if not finals:
            raise AnalysisError(f"sequence_bytes: no feasible path in case '{case}'")
        n_cases += 1
        base_case = case
        per_path_new = []
        f_mark0, o_mark0 = len(L.findings), len(L.obligations)
        for pi, r in enumerate(finals):
          f_mark = len(L.findings)
          case = base_case if len(finals) == 1 else f"{base_case} / path {pi + 1} of {len(finals)} (the code splits on a condition the case does not decide)"
          if True:
            seeks = [e for e in r.effects if e[0] == "seek"]
            reads = [e for e in r.effects if e[0] == "read"]
            rng = [e for e in r.effects if e[0] == "range"]
            # ---- first seek: absolute, faidx offset of residue start0
            first = seeks[0] if seeks else None
            want_seek = OFF + FO + MLL * FL
            ok_seek = first is not None and len(first[2][1]) == 1
            try:
                got = as_lin(first[2][1][0]) if ok_seek else None
                ok_seek = ok_seek and got == want_seek
            except NotNumeric:
                ok_seek, got = False, None
            L.check(ok_seek, rule, f"{sb.short}[{case}]:seek", "seek(file_offset + start0 % rpl + max_line_length · (start0 // rpl))", f"first seek goes to {got}, the faidx offset of the first residue is {want_seek}", sb.loc(first[1]) if first else sb.loc())
            # ---- total bytes read
            total = Lin.const(0)
            count = None
            if rng:
                lo, hi, step = rng[0][2].bounds()
                count = as_lin(hi) - as_lin(lo)
            okr = True
            for e in reads:
                sz = e[2][1][0] if e[2][1] else None
                try:
                    szl = as_lin(sz)
                except (NotNumeric, TypeError):
                    okr = False
                    continue
                in_loop = any(isinstance(a, ast.For) for a in _anc(e[1], sb.node))
                total = total + (szl * count if in_loop and count is not None else szl)
            # apply the division axioms: S-1 = rpl*FL + FO ; E = rpl*QE + LO ; fdiv(E-1, rpl) = QE or QE-1
            want_total = E - s0
            diff = total - want_total
            subs = {}
            subs["S"] = RPL * FL + FO + 1
            subs["E"] = RPL * QE + LO
            d2 = _subst_atoms(diff, subs, keep={repr(FL), repr(FO), repr(QE), repr(LO), repr(LLn)})
            if ll_val is not None:
                d2 = _replace_atom(d2, LLn, ll_val)
            else:
                d2 = _replace_atom(d2, LLn, FL)  # single line: same line index
            if eq0(LO) in extra_pc:
                d2 = _replace_atom(d2, LO, Lin.const(0))
            okt = okr and d2.is_zero()
            L.check(okt, rule, f"{sb.short}[{case}]:bytes", "Σ read sizes == end − start0", f"in the case '{case}' the reads sum to {total}, which differs from the interval length end − start + 1 by {d2} (after the division identities)", sb.loc(), witness={"case": case, "reads": [repr(e[2][1][0]) if e[2][1] else None for e in reads], "whole_lines": repr(count)})
            # ---- distribution of the reads over the lines (the sum alone would hide a byte shifted between two lines)
            sizes = []
            for e in reads:
                in_loop = any(isinstance(a2, ast.For) for a2 in _anc(e[1], sb.node))
                try:
                    sizes.append(("loop" if in_loop else "once", as_lin(e[2][1][0])))
                except (NotNumeric, TypeError, IndexError):
                    sizes.append(("?", None))
            if base_case == "single-line":
                okd = len(sizes) == 1 and sizes[0][1] is not None and _subst_atoms(sizes[0][1] - (E - s0), {}) .is_zero()
                whyd = f"single-line interval is read with {[repr(x[1]) for x in sizes]}, expected one read of end − start0 bytes"
            else:
                want_sizes = [("once", RPL - FO), ("loop", RPL)] + ([("once", LO)] if "partial" in base_case else [])
                okd = len(sizes) == len(want_sizes) and all(k1 == k2 and v1 is not None and (v1 - v2).is_zero() for (k1, v1), (k2, v2) in zip(sizes, want_sizes))
                whyd = f"reads are {[(k, repr(v)) for k, v in sizes]}; expected first line rpl − start0 % rpl, whole lines rpl each, then {'end % rpl' if 'partial' in base_case else 'nothing'}: bytes are taken from the wrong line positions"
            L.check(okd, rule, f"{sb.short}[{case}]:distribution", "each read covers exactly the rest of / a whole / the head of one line", whyd, sb.loc())
            # ---- between line reads the terminator is skipped: relative seeks of (mll - rpl)
            rel = seeks[1:]
            okrel = True
            for e in rel:
                a = e[2][1]
                try:
                    okrel = okrel and len(a) == 2 and as_lin(a[0]) == MLL - RPL and as_lin(a[1]) == Lin.const(1)
                except NotNumeric:
                    okrel = False
            if base_case != "single-line":
                L.check(okrel and len(rel) >= 2, rule, f"{sb.short}[{case}]:terminators", "line terminators skipped by relative seeks of (max_line_length − residues_per_line)", f"relative seeks {[repr(e[2][1]) for e in rel]} do not skip exactly one line terminator after each line read", sb.loc())
                # order: read, seek, (read, seek)*, [read]
                seq = [e[0] for e in r.effects if e[0] in ("read", "seek")][1:]
                pat_ok = seq[:2] == ["read", "seek"] and all(seq[i] != seq[i + 1] for i in range(len(seq) - 1))
                L.check(pat_ok, rule, f"{sb.short}[{case}]:order", "reads and terminator skips alternate", f"access pattern {seq} does not alternate line reads and terminator skips", sb.loc())
          per_path_new.append(len(L.findings) - f_mark)
        if len(finals) > 1 and any(per_path_new) and not all(per_path_new):
            # the function branches on something this case does not determine (a flag parameter, remembered state): some of those
            # paths do the documented seek/read sequence and some do not -- which of them run in this case is not decided here
            del L.findings[f_mark0:]
            del L.obligations[o_mark0:]
            raise AnalysisError(f"{sb.short}: in the case '{base_case}' the code branches on a condition the case does not decide and only {sum(1 for x in per_path_new if not x)} of {len(finals)} branches perform the documented seek/read sequence: no verdict")
        results.append(base_case)
    L.floor(rule, "random-access cases", n_cases, 3)
    L.trust("division axioms: x == d·⌊x/d⌋ + x mod d ; ⌊(e−1)/d⌋ == ⌊e/d⌋ − [e mod d == 0]")
    L.assume("each read stays inside one FASTA line (uniform line width within a record)")


def _subst_atoms(lin: Lin, subs: dict, keep=()):
    """Substitute plain symbol atoms everywhere except inside the opaque atoms listed in `keep`."""
    out = Lin.const(lin.c)
    for a, c in lin.t.items():
        if isinstance(a, str):
            out = out + (as_lin(subs[a]) if a in subs else Lin.atom(a)).scale(c)
        elif isinstance(a, tuple) and a[0] == "mono":
            prod = Lin.const(1)
            for x in a[1]:
                if isinstance(x, str) and x in subs:
                    prod = prod * as_lin(subs[x])
                else:
                    prod = prod * Lin.atom(x)
            out = out + prod.scale(c)
        else:
            out = out + Lin({a: c})
    return out


def _replace_atom(lin: Lin, atom_lin: Lin, value: Lin):
    (atom,) = list(atom_lin.t)
    out = Lin.const(lin.c)
    for a, c in lin.t.items():
        if a == atom:
            out = out + value.scale(c)
        elif isinstance(a, tuple) and a[0] == "mono" and atom in a[1]:
            prod = Lin.const(1)
            for x in a[1]:
                prod = prod * (value if x == atom else Lin.atom(x))
            out = out + prod.scale(c)
        else:
            out = out + Lin({a: c})
    return out
